"""Tiny external helper programs (C, ~1 ms per spawn); compiled on demand into .work/bin."""

import os
import shutil
import subprocess

from .common import VERIF, HarnessError

BIN = os.path.join(VERIF, ".work", "bin")
SRC = os.path.join(VERIF, "helpers")


def ensure():
    os.makedirs(BIN, exist_ok=True)
    cc = shutil.which("cc") or shutil.which("gcc") or shutil.which("clang")
    for f in sorted(os.listdir(SRC)):
        if not f.endswith(".c"):
            continue
        out = os.path.join(BIN, f[:-2])
        src = os.path.join(SRC, f)
        if os.path.exists(out) and os.path.getmtime(out) >= os.path.getmtime(src):
            continue
        if cc is None:
            raise HarnessError("no C compiler for helper %s" % f)
        tmp = out + ".tmp%d" % os.getpid()
        r = subprocess.run([cc, "-O1", "-o", tmp, src], capture_output=True, text=True)
        if r.returncode != 0:
            raise HarnessError("compiling %s failed: %s" % (f, r.stderr))
        os.replace(tmp, out)
    return BIN


def path(name):
    return os.path.join(BIN, name)

"""C20 - the job table is always consistent with the processes it tracks.

Generator : histories of job-table operations over xonsh/procs/jobs.py, executed for real against
            stub process objects (pid None, pgrp None -> `_kill_per_pid` skips them, no signal can be
            sent; a guard on os.kill/os.killpg proves it) whose poll() is scripted by the harness, and
            stub pipelines that record resume().  Operations: add_job (background / foreground /
            suspended / stopped), process exit, `jobs` / `jobs --posix`, `fg` / `bg` with no
            argument, `+`, `-`, live / finished / free / zero / negative numbers, garbage, several
            arguments, `disown` with none / one / several (valid, invalid, duplicate, garbage) ids
            and -c, `_clear_dead_jobs`, `get_next_task`, `get_next_job_number`, `clean_jobs`
            (interactive or not), $XONSH_INTERACTIVE / $AUTO_CONTINUE flips, respawn of the alias
            thread.  Every operation runs either on the main thread or inside a worker thread
            standing for a callable-alias thread, in lock-step (the harness owns the interleaving at
            command granularity).  Three families: (a) every history of length <= 4 (quick) / 5
            (thorough) over a fixed 22-operation alphabet that starts with an add_job, enumerated
            completely; (b) Hypothesis RuleBasedStateMachine histories of up to 40 / 60 steps;
            (c) the same model against real children: background pipelines of `sleep 300`, plain,
            two-stage and mixed with a callable alias (`vgen | sleep 300 &`, `sleep 300 | vgen |
            sleep 300 &`), run through the real Execer (specs._run_command_pipeline -> add_job),
            SIGKILL as process exit, jobs / disown / purges / refused fg and bg; after every step
            every running sleep child found in /proc must belong to exactly one registered job (or
            to a disowned one).
            Interleavings INSIDE one operation: an `arm` operation arms the scripted poll() of a stub;
            the next command that polls it (every clean-up does) is interrupted inside that poll() and
            the listed operations of the *other* actor (main thread <-> alias thread; process exits)
            run to completion from that actor's thread before poll() returns.  Deterministic and
            replayable from the JSON operation list.
Oracle    : a reference model written from the property text and docs/tutorial.rst "Job Control":
            per table a dict of entries (live or finished-but-not-yet-purged) and an MRU list.
            After every step, for the main table and for the alias thread's own table: the deque has
            no duplicates and is a permutation of exactly the dict's keys; both equal the model (same
            numbers, same MRU order, the very info dict that was registered, bg flag, status); a new
            job gets the lowest free number starting at 1 (finished jobs free their number); finished
            jobs are gone after every table-touching command (for `disown`, which is documented only
            as "remove the specified jobs", both readings are accepted: finished entries purged first
            or still counted); fg/bg select the most recent / second most recent / numbered job,
            resume exactly that pipeline once, move it to the MRU head, or return an error message
            and leave both structures unchanged; disown removes exactly the selected jobs or reports
            an error and removes nothing; the `jobs` listing has one line per live job, each exactly
            once, `+` / `-` on the two MRU heads; jobs/bg/disown issued from the alias thread act on
            the main table and leave that thread's own table object in place; operations on one
            table never change the other.  A command interrupted inside a poll() must end in the
            state of "nested operations first, then the command" (the nested operations see the
            table before the command has changed anything: every clean-up polls first and mutates
            afterwards); only a job that exits inside that window may survive the command as a
            finished-unpurged entry (the command may have polled it while it was alive).
"""

from __future__ import annotations

import ast
import io
import itertools
import os
import queue
import re
import signal
import sys
import threading
from collections import Counter

from vlib import common
from vlib.common import Failure, Mismatch, Stats

PROP = "C20"
LEVEL = "exploration"
RULE = ("history = sequence of job-table operations (add_job, process exit, jobs, fg, bg, disown with valid / "
        "invalid / duplicate / garbage arguments, purges, get_next_task, get_next_job_number, clean_jobs, env flips, "
        "alias-thread respawn), each run on the main thread or in an alias-like worker thread in lock-step, against "
        "stub processes; all histories of length <= 4 (quick) / 5 (thorough) over a fixed 22-operation alphabet "
        "that start with an add_job are enumerated, longer ones (<= 40 / 60 steps) are drawn by a Hypothesis state "
        "machine, and a third family drives real background pipelines (`sleep 300`, also mixed with a callable alias) "
        "through the Execer; `arm` operations make the other actor act inside a poll() of the running command "
        "(intra-operation interleavings); non-trivial = the "
        "history contains a step executed on a table holding >= 2 live jobs or a finished job not yet purged; "
        "distinct = hash of the operation list")
HOOKS = False

F1 = "C20-F1"
F2 = "C20-F2"
DEFAULT_TOLERATE = (F1, F2)
# operations another actor may perform inside a poll() of the interrupted command
NESTED_OPS = ("add", "finish", "jobs", "fg", "bg", "disown", "clear", "next_task", "next_num")

GARBAGE = ["abc", "1.5", "", "%1", "1a", "++", "--", "0x1", "1 2", "one"]
AMBIGUOUS = ["+1", "01", " 2", "2 ", "1_0"]      # int() accepts them, a shell user might not: both outcomes accepted
DISOWN_GARBAGE = ["abc", "+", "-", "1.5", "%1", "1a"]
STATUSES = [None, None, None, "suspended", "stopped"]


class _Timeout(Exception):
    pass


class _InvalidHistory(Exception):
    """The history asks the real-process family for something it must not run (a succeeding fg)."""


def _alarm(signum, frame):
    raise _Timeout()


# ----------------------------------------------------------------------------------------
# stubs


class StubProc:
    """What jobs.py needs from a process object: pid, poll(), returncode."""

    pid = None

    def __init__(self, key, harness=None):
        self.key = key
        self.returncode = None
        self.calls = []         # harmless: nothing here reaches the OS
        self.armed = None       # operations another actor performs while xonsh is inside this poll()
        self._harness = harness

    def poll(self):
        # a harness-owned point *inside* a table operation: when armed by the history, the other actor
        # performs its pending operations now, completely, before this poll() returns
        if self.armed is not None and self._harness is not None:
            self._harness._poll_point(self)
        return self.returncode

    def wait(self, timeout=None):
        self.calls.append("wait")
        return self.returncode

    def send_signal(self, sig):
        self.calls.append("send_signal %d" % int(sig))

    def kill(self):
        self.calls.append("kill")

    def terminate(self):
        self.calls.append("terminate")


class StubSpec:
    def __init__(self, captured):
        self.captured = captured
        self.background = False


class StubPipeline:
    def __init__(self, key, captured, log):
        self.key = key
        self.spec = StubSpec(captured)
        self._log = log

    def resume(self, job, tee_output=True):
        self._log.append((self.key, job, bool(tee_output)))


class Actor:
    """A worker thread that executes closures one at a time, on request (lock-step)."""

    def __init__(self):
        self.q = queue.SimpleQueue()
        self.r = queue.SimpleQueue()
        self.cbr = queue.SimpleQueue()
        self.t = threading.Thread(target=self._loop, name="c20-alias-thread", daemon=True)
        self.t.start()

    def _loop(self):
        while True:
            fn = self.q.get()
            if fn is None:
                return
            try:
                self.r.put(("res", True, fn()))
            except BaseException as e:  # noqa: BLE001  (SystemExit from argparse is an outcome)
                self.r.put(("res", False, e))

    def call(self, fn):
        """Main thread: have the worker run fn and wait; meanwhile serve the worker's call-backs."""
        self.q.put(fn)
        while True:
            try:
                kind, ok, v = self.r.get(timeout=30)
            except queue.Empty:
                raise _Timeout()
            if kind == "cb":
                try:
                    self.cbr.put((True, v()))
                except BaseException as e:  # noqa: BLE001
                    self.cbr.put((False, e))
                continue
            if not ok:
                raise v
            return v

    def callback(self, fn):
        """Worker thread (inside a command): have the *main* thread run fn now and wait for it."""
        self.r.put(("cb", True, fn))
        ok, v = self.cbr.get(timeout=60)
        if not ok:
            raise v
        return v

    def stop(self):
        self.q.put(None)        # the (daemon) thread leaves its loop on its own; joining costs ~1 ms


# ----------------------------------------------------------------------------------------
# reference model


class MJob:
    __slots__ = ("key", "info", "proc", "bg", "status", "alive", "tag")

    def __init__(self, key, info, proc, bg, status, tag=None):
        self.key = key
        self.tag = tag or "k%d" % key       # a word of the `jobs` line that identifies this job
        self.info = info
        self.proc = proc
        self.bg = bg
        self.status = status
        self.alive = True


class MTable:
    """One job table as the property describes it: entries by number + most-recently-used order.
    Finished entries stay until the next purge (the table is purged lazily)."""

    def __init__(self):
        self.entries = {}
        self.mru = []

    def purge(self, keep=()):
        dead = [n for n in self.mru if not self.entries[n].alive and self.entries[n] not in keep]
        for n in dead:
            del self.entries[n]
        if dead:
            self.mru = [n for n in self.mru if n in self.entries]
        return dead

    def lowest_free(self):
        i = 1
        while i in self.entries:
            i += 1
        return i

    def live(self):
        return [n for n in self.mru if self.entries[n].alive]

    def zombies(self):
        return [n for n in self.mru if not self.entries[n].alive]

    def remove(self, n):
        del self.entries[n]
        self.mru.remove(n)

    def to_head(self, n):
        self.mru.remove(n)
        self.mru.insert(0, n)


def parse_job_number(a):
    """-> ('num', n) plain decimal | ('ambiguous', n) accepted by int() only | ('garbage',)"""
    if re.fullmatch(r"-?(0|[1-9][0-9]*)", a, flags=re.ASCII):
        return ("num", int(a))
    try:
        return ("ambiguous", int(a))
    except ValueError:
        return ("garbage",)


def ref_select(table, args):
    """fg / bg selection on a purged table -> ('ok', n) | ('err',) | ('either', n)."""
    if not table.mru:
        return ("err",)
    if len(args) == 0:
        return ("ok", table.mru[0])
    if len(args) > 1:
        return ("err",)
    a = args[0]
    if a == "+":
        return ("ok", table.mru[0])
    if a == "-":
        return ("ok", table.mru[1]) if len(table.mru) > 1 else ("err",)
    p = parse_job_number(a)
    if p[0] == "garbage" or p[1] not in table.entries:
        return ("err",)
    return ("ok", p[1]) if p[0] == "num" else ("either", p[1])


def ref_disown(table, args):
    """All outcomes the property allows for `disown args`, plus the outcomes that are exactly the
    recorded finding F1 (ids processed one by one, an error after some were already removed).
    -> list of (is_error, removed_numbers, purged_numbers, findings)"""
    ids, garbage = [], False
    for a in args:
        if a in ("-c", "--continue"):
            continue
        p = parse_job_number(a)
        if p[0] != "num":
            garbage = True
        else:
            ids.append(p[1])
    out = []
    zomb = table.zombies()
    purges = [zomb, []] if zomb else [[]]      # reading A: finished entries go first; reading B: they still count
    for purged in purges:
        mru = [n for n in table.mru if n not in purged]
        if garbage or not mru:
            out.append((True, [], purged, ()))
            continue
        want = ids or [mru[0]]
        present = set(mru)
        if all(i in present for i in want):
            uniq = list(dict.fromkeys(want))
            out.append((False, uniq, purged, ()))
            if len(uniq) != len(want):
                out.append((True, [], purged, ()))      # a repeated id may also be refused, atomically
        else:
            out.append((True, [], purged, ()))
        # F1: one id at a time
        removed = []
        for i in want:
            if i not in present:
                if removed:
                    out.append((True, list(removed), purged, (F1,)))
                break
            present.discard(i)
            removed.append(i)
    return out


def is_error(res):
    """Did the command report an error?  res = ('ret', value) | ('exit', code, stderr)."""
    if res[0] == "exit":
        return res[1] not in (0, None)
    v = res[1]
    if isinstance(v, (tuple, list)):
        if len(v) > 1 and v[1]:
            return True
        if len(v) > 2 and isinstance(v[2], int) and v[2] != 0:
            return True
        return False
    if isinstance(v, int) and not isinstance(v, bool):
        return v != 0
    return False


_POSIX_LINE = re.compile(r"^\[(-?\d+)\](.) (\S+): (.*)$")


# ----------------------------------------------------------------------------------------
# system under test + lock-step executor

_state = {}


class _OutProxy:
    """jobs.py binds `outfile=sys.stdout` as a default argument at import time; importing it while
    this proxy is installed lets the harness capture what add_job / resume_job print."""

    def __init__(self, real):
        self.real = real
        self.target = None

    def write(self, s):
        return (self.target or self.real).write(s)

    def flush(self):
        return (self.target or self.real).flush()

    def __getattr__(self, name):
        return getattr(self.target or self.real, name)


def _setup(scratch):
    if _state:
        return _state
    from vlib import session

    if "xonsh.procs.jobs" in sys.modules:
        raise common.HarnessError("xonsh.procs.jobs was imported before the C20 harness could install its stdout proxy")
    proxy = _OutProxy(sys.stdout)
    sys.stdout = proxy
    try:
        import xonsh.procs.jobs as xj
    finally:
        sys.stdout = proxy.real
    XSH = session.load_session(scratch)
    _state["proxy"] = proxy

    if threading.current_thread() is not threading.main_thread():
        raise common.HarnessError("C20 must drive xonsh from the process's main thread")
    if xj.get_jobs() is not XSH.all_jobs or xj.get_tasks() is not xj._tasks_main:
        raise common.HarnessError("main thread is not bound to XSH.all_jobs / _tasks_main after session load")
    _state["XSH"] = XSH
    _state["xj"] = xj
    signal.signal(signal.SIGALRM, _alarm)
    return _state


class Harness:
    """Applies operations to xonsh and to the model, raising Mismatch at the first disagreement."""

    def __init__(self, tolerate=DEFAULT_TOLERATE):
        st = _state
        self.xj = st["xj"]
        self.XSH = st["XSH"]
        self.XSH.all_jobs.clear()
        self.xj._tasks_main.clear()
        self.XSH.env["XONSH_INTERACTIVE"] = False
        self.XSH.env["AUTO_CONTINUE"] = False
        self.tolerate = frozenset(tolerate)
        self.tables = {"m": MTable(), "w": MTable()}
        self.ops = []
        self.resume_log = []
        self.sig_log = []
        self.nkeys = 0
        self.steps = 0
        self.nontrivial_steps = 0
        self.hist = Counter()
        self.tolerated = Counter()
        self.failed = False
        self._real_kill, self._real_killpg = os.kill, os.killpg
        os.kill = self._guard("kill")
        os.killpg = self._guard("killpg")
        self.worker = None          # the alias thread is started at its first use
        self._w_seen = None
        self._in_nested = False     # a nested operation (performed inside a poll()) is running
        self._nested_exc = None
        self._nested_ctx = ""
        self._window_dead = set()   # jobs that finished inside the current command's polling window
        self._window_added = []     # (number, MJob) registered on the main table inside the window
        self._resume_mark = 0
        self._pre_nums = set()      # numbers registered on the main table when the command started
        self.windows = 0
        self.w_jobs, self.w_tasks = {}, []
        signal.alarm(120)

    def _guard(self, name):
        def guarded(*a):
            self.sig_log.append((name,) + tuple(repr(x) for x in a))
        return guarded

    def close(self):
        signal.alarm(0)
        os.kill, os.killpg = self._real_kill, self._real_killpg
        if self.worker is not None:
            self.worker.stop()
            self.worker = None
        self.XSH.all_jobs.clear()
        self.xj._tasks_main.clear()

    # -- plumbing -------------------------------------------------------------------------

    def _fail(self, kind, detail, finding=None):
        self.failed = True
        ops = list(self.ops)
        case = {"ops": ops[:50], "tolerate": sorted(self.tolerate)}
        for i in range(50, len(ops), 50):   # common.jsonable() cuts lists at 60 items: long histories go in chunks
            case["ops_%d" % (i // 50 + 1)] = ops[i:i + 50]
        if isinstance(self, RealHarness):
            case["real"] = True
        op = self.ops[-1]["op"] if self.ops else "init"
        raise Mismatch(Failure(kind, case, "step %d %s: %s%s" % (len(self.ops), _show(self.ops[-1]) if self.ops else "",
                                                                 self._nested_ctx, detail),
                               finding=finding, bucket=finding or "%s:%s%s" % (kind, op, "+nested" if self._nested_ctx
                                                                                else "")))

    def _need_worker(self):
        if self.worker is None:
            self._spawn_worker()
        return self.worker

    def _spawn_worker(self):
        if self.worker is not None:
            self.worker.stop()
        self.worker = Actor()
        xj = self.xj
        self.w_jobs, self.w_tasks = self.worker.call(lambda: (xj.get_jobs(), xj.get_tasks()))
        if self.w_jobs is self.XSH.all_jobs or self.w_tasks is xj._tasks_main or self.w_jobs or self.w_tasks:
            self._fail("thread-table", "a fresh alias thread does not start with an empty table of its own")

    def _in_thread(self, fn):
        """Run fn in the alias thread and, in the same hand-over, read which table objects that thread
        sees afterwards."""
        xj = self.xj

        def run():
            try:
                r = (True, fn())
            except BaseException as e:  # noqa: BLE001
                r = (False, e)
            return r, xj.get_jobs(), xj.get_tasks()

        r, jobs, tasks = self._need_worker().call(run)
        self._w_seen = (jobs, tasks)
        if not r[0]:
            raise r[1]
        return r[1]

    def _invoke(self, actor, fn):
        """Run fn on the actor's thread -> ('ret', value) | ('exit', code, stderr-text)."""
        old = sys.stdout, sys.stderr
        old_target = _state["proxy"].target
        out, err = io.StringIO(), io.StringIO()
        sys.stdout, sys.stderr = out, err
        _state["proxy"].target = out
        try:
            try:
                v = fn() if actor == "m" else self._in_thread(fn)
                res = ("ret", v)
            except SystemExit as e:
                res = ("exit", e.code, err.getvalue()[-300:])
        except _Timeout:
            sys.stdout, sys.stderr = old
            self._fail("hang", "the command did not return (30 s in the alias thread / 120 s per history)")
        except Mismatch:
            raise
        except Exception as e:  # noqa: BLE001
            sys.stdout, sys.stderr = old
            self._fail("exception", "%s: %s" % (type(e).__name__, e))
        finally:
            sys.stdout, sys.stderr = old
            _state["proxy"].target = old_target
            if not self._in_nested and self._nested_exc is not None:
                exc, self._nested_exc = self._nested_exc, None
                raise exc               # a disagreement found while a nested operation ran inside this command
        self.last_out, self.last_err = out.getvalue(), err.getvalue()
        if not self._in_nested:
            self._settle_window()
        return res

    # -- intra-operation interleaving: the poll() of an armed stub is a schedule point --------------

    def _poll_point(self, stub):
        """Called from StubProc.poll() on whatever thread xonsh is polling from."""
        if self._in_nested or self._nested_exc is not None:
            return          # the clean-up of a nested operation does not open a window of its own
        nested, stub.armed = stub.armed, None
        caller = "m" if threading.current_thread() is threading.main_thread() else "w"
        if caller == "m":
            self._run_nested(stub, nested, caller)
        else:
            self.worker.callback(lambda: self._run_nested(stub, nested, caller))

    def _run_nested(self, stub, nested, caller):
        """Always on the main thread: perform the other actor's operations, completely, now."""
        self._in_nested = True
        self.windows += 1
        self.hist["poll-window-opened"] += 1
        try:
            for nop in nested:
                name = nop["op"]
                if name not in NESTED_OPS:
                    raise common.HarnessError("operation %r cannot be nested" % (nop,))
                actor = None if name == "finish" else "m" if name == "fg" else nop.get("actor", "m")
                if actor == caller:
                    # it would run on the very thread that is inside poll(): not an interleaving of two threads
                    self.hist["nested-skipped:same-thread"] += 1
                    continue
                self.hist["nested:" + name] += 1
                self._nested_ctx = "inside poll() of job k%d, while %s: " % (stub.key, _show(nop))
                getattr(self, "_op_" + name)(nop)
                self._check_tables(nop)
                self._nested_ctx = ""
        except BaseException as e:  # noqa: BLE001  (re-raised when the interrupted command has returned)
            self._nested_exc = e
        finally:
            self._in_nested = False

    def _purge(self, tname):
        """Model purge.  A job that finished inside this command's polling window may already have been
        polled (seen alive) by the command: it may stay until the next purge."""
        T = self.tables[tname]
        keep = ()
        if not self._in_nested and self._window_dead and tname == "m":
            tasks, jobs = self._tasks_of("m"), self._jobs_of("m")
            keep = [mj for n, mj in T.entries.items()
                    if mj in self._window_dead and n in tasks and jobs.get(n) is mj.info]
        return T.purge(keep)

    def _settle_window(self):
        """Recorded finding F2, exactly: a job that a nested add_job registered under a number that another
        (meanwhile finished) job held when the interrupted command started is gone from both structures when
        the command returns (the command collected the old number for removal before the number was re-used)."""
        if not self._window_added:
            return
        T = self.tables["m"]
        tasks, jobs = self._tasks_of("m"), self._jobs_of("m")
        for n, mj in self._window_added:
            # only a job that is still running: one that was registered AND exited inside the window may have
            # been polled (seen finished) by the interrupted command itself, which then purges it rightly -
            # the model's purge after the command takes care of that entry
            if (mj.alive and T.entries.get(n) is mj and n in self._pre_nums and n not in tasks
                    and n not in jobs):
                if F2 not in self.tolerate:
                    self._fail("live-job-dropped",
                               "job %d (k%d), registered by another thread while this command was polling, re-used "
                               "the number of a finished job the command had already collected for removal; the "
                               "command then removed the new, live job from the table (table now %r)"
                               % (n, mj.key, list(tasks)), finding=F2)
                self.tolerated[F2] += 1
                T.remove(n)
        self._window_added = []

    def _jobs_of(self, t):
        return self.XSH.all_jobs if t == "m" else self.w_jobs

    def _tasks_of(self, t):
        return self.xj._tasks_main if t == "m" else self.w_tasks

    # -- one step -------------------------------------------------------------------------

    def apply(self, op):
        self.ops.append(op)
        self.steps += 1
        name = op["op"]
        tname = self._acts_on(op)
        if tname is not None:
            T = self.tables[tname]
            nlive = len(T.live())
            if nlive >= 2 or len(T.mru) > nlive:
                self.nontrivial_steps += 1
                self.hist["step-nontrivial"] += 1
            if len(T.mru) > nlive:
                self.hist["step-with-unpurged-finished-job"] += 1
            self.hist["live-jobs-at-step:%d" % min(nlive, 6)] += 1
        self.hist["op:" + name] += 1
        self._w_seen = None
        self._window_dead = set()
        self._window_added = []
        self._nested_ctx = ""
        self._pre_nums = set(self.tables["m"].mru)
        self._resume_mark = len(self.resume_log)
        if op.get("actor") == "w":
            self.hist["step-in-alias-thread"] += 1
        try:
            getattr(self, "_op_" + name)(op)
            self._check_tables(op)
        except _Timeout:
            self._fail("hang", "the history did not finish within 120 s")

    @staticmethod
    def _acts_on(op):
        name = op["op"]
        if name in ("jobs", "fg", "bg", "disown", "clean"):
            return "m"
        if name == "finish":
            return op["table"]
        if name in ("add", "clear", "next_task", "next_num"):
            return op["actor"]
        return None

    def _check_tables(self, op):
        xj = self.xj
        if self.sig_log:
            self._fail("signal-sent", "xonsh tried to signal something other than this harness's own children: %r"
                       % (self.sig_log,))
        if xj.get_jobs() is not self.XSH.all_jobs or xj.get_tasks() is not xj._tasks_main:
            self._fail("thread-table", "the main thread no longer uses XSH.all_jobs / _tasks_main")
        cur = self._w_seen
        if cur is not None:
            if cur[0] is not self.w_jobs or cur[1] is not self.w_tasks:
                self._fail("thread-table", "the alias thread's own table was not put back after the command")
        for t in ("m", "w"):
            T = self.tables[t]
            jobs, tasks = self._jobs_of(t), list(self._tasks_of(t))
            where = "main table" if t == "m" else "alias-thread table"
            if len(set(tasks)) != len(tasks):
                self._fail("mru-duplicate", "%s: MRU order %r lists a job twice" % (where, tasks))
            if set(tasks) != set(jobs):
                self._fail("structures-diverge", "%s: MRU order %r is not a permutation of the registered numbers %r"
                           % (where, tasks, sorted(jobs)))
            if sorted(tasks) != sorted(T.mru):
                self._fail("table-differs", "%s holds jobs %r, reference %r (live %r)"
                           % (where, sorted(tasks), sorted(T.mru), sorted(T.live())))
            if tasks != T.mru:
                self._fail("mru-differs", "%s: MRU order %r, reference %r" % (where, tasks, T.mru))
            for n in tasks:
                mj = T.entries[n]
                if jobs[n] is not mj.info:
                    self._fail("wrong-job", "%s: number %d does not hold the job registered under it" % (where, n))
                if bool(jobs[n].get("bg")) != mj.bg or jobs[n].get("status") != mj.status:
                    self._fail("job-state", "%s: job %d has bg=%r status=%r, reference bg=%r status=%r"
                               % (where, n, jobs[n].get("bg"), jobs[n].get("status"), mj.bg, mj.status))

    # -- operations -----------------------------------------------------------------------

    def _op_add(self, op):
        actor = op["actor"]
        T = self.tables[actor]
        key = self.nkeys
        self.nkeys += 1
        proc = StubProc(key, self)
        pl = StubPipeline(key, op.get("captured", False), self.resume_log)
        info = {"cmds": [["vjob", "k%d" % key]], "pids": [None], "obj": proc, "bg": bool(op["bg"]),
                "pipeline": pl, "pgrp": None}
        if op.get("status"):
            info["status"] = op["status"]
        xj = self.xj
        self._invoke(actor, lambda: xj.add_job(info))
        self._purge(actor)
        num = T.lowest_free()
        T.entries[num] = MJob(key, info, proc, bool(op["bg"]), op.get("status") or "running")
        T.mru.insert(0, num)
        if self._in_nested and actor == "m":
            self._window_added.append((num, T.entries[num]))
        got = sorted(n for n, j in self._jobs_of(actor).items() if j is info)
        if got != [num]:
            other = "m" if actor == "w" else "w"
            stray = sorted(n for n, j in self._jobs_of(other).items() if j is info)
            self._fail("job-number", "new job registered under %r%s, reference: exactly once under %d (lowest free)"
                       % (got, " and in the other thread's table under %r" % stray if stray else "", num))

    def _op_finish(self, op):
        mj = self.tables[op["table"]].entries.get(op["num"])
        if mj is None or not mj.alive:
            return
        mj.proc.returncode = int(op.get("rc", 0))
        mj.alive = False
        if self._in_nested:
            self._window_dead.add(mj)

    def _op_arm(self, op):
        """Arm the poll() of a registered main-table job: the next command that polls it is interrupted
        there and the listed operations of the other actor run to completion inside that poll()."""
        mj = self.tables["m"].entries.get(op["num"])
        if mj is None or not isinstance(mj.proc, StubProc):
            return
        mj.proc.armed = [dict(x) for x in op["nested"]]
        self.hist["poll-armed"] += 1

    def _op_jobs(self, op):
        xj = self.xj
        posix = bool(op.get("posix"))
        buf = io.StringIO()
        args = ["--posix"] if posix else []
        res = self._invoke(op["actor"], lambda: xj.jobs(args, stdout=buf))
        T = self.tables["m"]
        self._purge("m")
        if is_error(res):
            self._fail("unexpected-error", "jobs returned %r" % (res,))
        lines = [ln for ln in buf.getvalue().split("\n") if ln]
        seen = []
        for ln in lines:
            if posix:
                m = _POSIX_LINE.match(ln)
                if not m:
                    self._fail("jobs-listing", "unreadable line %r" % ln)
                num, mark, status = int(m.group(1)), m.group(2), m.group(3)
            else:
                try:
                    d = ast.literal_eval(ln)
                    num, mark, status = d["num"], None, d["status"]
                except Exception:  # noqa: BLE001
                    self._fail("jobs-listing", "unreadable line %r" % ln)
            seen.append(num)
            mj = T.entries.get(num)
            if mj is None:
                continue
            if not re.search(r"\b%s\b" % mj.tag, ln.split(":", 1)[1]) or status != mj.status:
                self._fail("jobs-listing", "line %r does not describe job %d (%s, %s)" % (ln, num, mj.tag, mj.status))
            if posix:
                want = "+" if T.mru[0] == num else "-" if len(T.mru) > 1 and T.mru[1] == num else " "
                if mark != want:
                    self._fail("jobs-listing", "line %r carries marker %r, reference %r (MRU %r)"
                               % (ln, mark, want, T.mru))
        if sorted(seen) != sorted(T.mru):
            self._fail("jobs-listing", "jobs lists %r, reference: each of %r exactly once" % (seen, sorted(T.mru)))

    def _resume(self, op, name):
        xj = self.xj
        args = list(op["args"])
        actor = op.get("actor", "m")
        fn = xj.fg if name == "fg" else xj.bg
        T = self.tables["m"]
        res = self._invoke(actor, lambda: fn(list(args)))      # nested operations may run in here
        self._purge("m")
        exp = ref_select(T, args)
        err = is_error(res)
        new = self.resume_log[self._resume_mark:]
        self._resume_mark = len(self.resume_log)
        self.hist["select:%s" % ("error" if err else "ok")] += 1
        if exp[0] == "err" or (exp[0] == "either" and err):
            if not err:
                self._fail("no-error", "%s %r returned %r%s; reference: an error (MRU of live jobs %r)"
                           % (name, args, res[1:], " and resumed k%d" % new[0][0] if new else "", T.mru))
            if new:
                self._fail("resumed-on-error", "%s %r reported %r but resumed k%d" % (name, args, res[1:], new[0][0]))
            return
        tid = exp[1]
        if err:
            self._fail("unexpected-error", "%s %r reported %r; reference: selects job %d (MRU %r)"
                       % (name, args, res[1:], tid, T.mru))
        mj = T.entries[tid]
        T.to_head(tid)
        mj.bg = name == "bg"
        mj.status = "running"
        if len(new) != 1 or new[0][1] is not mj.info:
            self._fail("wrong-job-resumed", "%s %r resumed %r, reference: job %d (k%d) exactly once"
                       % (name, args, ["k%d" % x[0] for x in new], tid, mj.key))
        if new[0][2] != (name == "fg"):
            self._fail("wrong-job-resumed", "%s resumed with tee_output=%r" % (name, new[0][2]))

    def _op_fg(self, op):
        self._resume(op, "fg")

    def _op_bg(self, op):
        self._resume(op, "bg")

    def _op_disown(self, op):
        xj = self.xj
        args = list(op["args"])
        T = self.tables["m"]
        res = self._invoke(op["actor"], lambda: xj.disown(list(args)))
        cands = ref_disown(T, args)         # on the model as it is now (after any nested operation)
        before = list(T.mru)
        err = is_error(res)
        after = list(xj._tasks_main)
        self.hist["disown:%s" % ("error" if err else "ok")] += 1
        for c_err, removed, purged, findings in cands:
            gone = set(removed) | set(purged)
            if c_err == err and after == [n for n in before if n not in gone]:
                break
        else:
            allowed = ["%s, table %r" % ("error" if c[0] else "ok", [n for n in before if n not in set(c[1]) | set(c[2])])
                       for c in cands if not c[3]]
            self._fail("disown-differs", "disown %r reported %r, table %r -> %r; reference allows: %s"
                       % (args, res[1:], before, after, " | ".join(allowed)))
        for fid in findings:
            if fid not in self.tolerate:
                self._fail("error-but-altered",
                           "disown %r reported the error %r although it had already removed job(s) %r "
                           "(table %r -> %r); reference: an error leaves the table unchanged"
                           % (args, res[1:], removed, before, after), finding=fid)
            self.tolerated[fid] += 1
        for n in purged:
            T.remove(n)
        for n in removed:
            T.remove(n)

    def _op_clear(self, op):
        xj = self.xj
        self._invoke(op["actor"], xj._clear_dead_jobs)
        self._purge(op["actor"])

    def _op_next_task(self, op):
        xj = self.xj
        res = self._invoke(op["actor"], xj.get_next_task)
        T = self.tables[op["actor"]]
        self._purge(op["actor"])
        want = None
        for n in T.mru:
            mj = T.entries[n]
            if not mj.bg and mj.status == "running":
                want = n
                break
        if want is not None:
            T.to_head(want)
        got = res[1] if res[0] == "ret" else res
        if (want is None and got is not None) or (want is not None and got is not T.entries[want].info):
            self._fail("next-task", "get_next_task returned %s, reference: %s"
                       % (_jobname(got), "job %d" % want if want is not None else None))

    def _op_next_num(self, op):
        xj = self.xj
        res = self._invoke(op["actor"], xj.get_next_job_number)
        T = self.tables[op["actor"]]
        self._purge(op["actor"])
        if res != ("ret", T.lowest_free()):
            self._fail("job-number", "get_next_job_number returned %r, reference %d (registered %r)"
                       % (res[1:], T.lowest_free(), sorted(T.entries)))

    def _op_clean(self, op):
        xj = self.xj
        inter = bool(self.XSH.env.get("XONSH_INTERACTIVE"))
        res = self._invoke("m", xj.clean_jobs)
        T = self.tables["m"]
        self._purge("m")
        want = (not T.mru) if inter else True
        if inter and self._window_dead and res in (("ret", True), ("ret", False)):
            return      # a job died while clean_jobs was looking: either answer is right
        if res != ("ret", want):
            self._fail("clean-jobs", "clean_jobs() (interactive=%r) returned %r, reference %r with live jobs %r"
                       % (inter, res[1:], want, T.mru))

    def _op_respawn(self, op):
        if self.worker is not None:
            self.worker.stop()
            self.worker = None
        self.w_jobs, self.w_tasks = {}, []
        self.tables["w"] = MTable()

    def _op_env(self, op):
        if op["name"] not in ("XONSH_INTERACTIVE", "AUTO_CONTINUE"):
            raise common.HarnessError("bad env op %r" % (op,))
        self.XSH.env[op["name"]] = bool(op["value"])


def _jobname(info):
    if info is None:
        return "None"
    try:
        return "job " + " ".join(info["cmds"][0])
    except Exception:  # noqa: BLE001
        return repr(info)[:80]


def _show(op):
    d = dict(op)
    name = d.pop("op")
    actor = d.pop("actor", None)
    if "nested" in d:
        d["nested"] = "[" + "; ".join(_show(x) for x in d["nested"]) + "]"
    s = name + ("(" + ", ".join("%s=%r" % kv for kv in sorted(d.items())) + ")" if d else "")
    return s + (" [alias thread]" if actor == "w" else "")


def _flat_ops(case):
    out = [o for x in case["ops"] for o in (x if isinstance(x, list) else [x])]
    i = 2
    while "ops_%d" % i in case:
        out += case["ops_%d" % i]
        i += 1
    return out


def check_history(case):
    """Replay one history without Hypothesis -> (Failure | None, harness)."""
    cls = RealHarness if case.get("real") else Harness
    h = cls(tolerate=case.get("tolerate", DEFAULT_TOLERATE))
    try:
        try:
            for op in _flat_ops(case):
                h.apply(op)
        except Mismatch as e:
            return e.failure, h
        except _InvalidHistory:
            return None, h
        return None, h
    finally:
        h.close()


def minimize_history(case, bucket, budget=4000):
    """Greedy reduction of a failing history after Hypothesis' own shrinker (which works under a time
    limit): drop operations, then simplify their fields, while the same bucket keeps failing."""
    ops = [dict(o) for o in _flat_ops(case)]
    base = {"tolerate": case.get("tolerate", list(DEFAULT_TOLERATE)), "real": bool(case.get("real"))}
    runs = [0]

    def fails(cand):
        runs[0] += 1
        f, _ = check_history(dict(base, ops=cand))
        return f is not None and f.bucket == bucket and len(_flat_ops(f.case)) == len(cand)

    changed = True
    while changed and runs[0] < budget:
        changed = False
        i = len(ops) - 2            # the last operation is the failing one
        while i >= 0 and runs[0] < budget:
            cand = ops[:i] + ops[i + 1:]
            if fails(cand):
                ops = cand
                changed = True
            i -= 1
        simple = {"actor": "m", "bg": True, "status": None, "captured": False, "posix": False, "rc": 0}
        for i, o in enumerate(ops):
            for k, v in simple.items():
                if k in o and o[k] != v and runs[0] < budget:
                    cand = [dict(x) for x in ops]
                    cand[i][k] = v
                    if fails(cand):
                        ops = cand
                        changed = True
            if "nested" in o and len(o["nested"]) > 1 and runs[0] < budget:
                for j in range(len(o["nested"])):
                    cand = [dict(x) for x in ops]
                    cand[i]["nested"] = o["nested"][:j] + o["nested"][j + 1:]
                    if fails(cand):
                        ops = cand
                        changed = True
                        break
            if "args" in o and runs[0] < budget:
                for j in range(len(o["args"])):
                    cand = [dict(x) for x in ops]
                    cand[i]["args"] = o["args"][:j] + o["args"][j + 1:]
                    if fails(cand):
                        ops = cand
                        changed = True
                        break
    f, _ = check_history(dict(base, ops=ops))
    return f


def _record(st, h, family):
    nt = h.nontrivial_steps > 0
    labels = [family, "len:%02d-%02d" % (h.steps // 10 * 10, h.steps // 10 * 10 + 9)]
    if h.windows:
        labels.append("history-with-interleaving-inside-an-operation")
    sample = None
    if nt and 4 <= h.steps <= 14 and st.evaluations >= _ctx.get("sample_after", 0):
        sample = {"ops": h.ops}
        if isinstance(h, RealHarness):
            sample["real"] = True
    st.case(("h", h.ops), nt, labels, sample=sample, max_per_label=2)
    st.hist.update(h.hist)
    st.hist["steps"] += h.steps
    for fid, n in h.tolerated.items():
        st.excluded_known[fid] += n


# ----------------------------------------------------------------------------------------
# family (a): exhaustive short histories

ALPHABET = [
    {"op": "add", "actor": "m", "bg": True},
    {"op": "add", "actor": "m", "bg": False},
    {"op": "add", "actor": "m", "bg": False, "status": "suspended"},
    {"op": "add", "actor": "w", "bg": True},
    {"op": "finish", "table": "m", "num": 1},
    {"op": "finish", "table": "m", "num": 2},
    {"op": "jobs", "actor": "w", "posix": True},
    {"op": "fg", "args": []},
    {"op": "fg", "args": ["-"]},
    {"op": "fg", "args": ["1"]},
    {"op": "fg", "args": ["9"]},
    {"op": "bg", "actor": "w", "args": ["2"]},
    {"op": "bg", "actor": "m", "args": ["+"]},
    {"op": "disown", "actor": "m", "args": []},
    {"op": "disown", "actor": "w", "args": ["1"]},
    {"op": "disown", "actor": "m", "args": ["2", "1"]},
    {"op": "disown", "actor": "m", "args": ["1", "3"]},
    {"op": "next_task", "actor": "m"},
    {"op": "clear", "actor": "m"},
    {"op": "clean"},
    # intra-operation interleavings: the next command that polls the armed job is interrupted inside that
    # poll() and the other actor's operations run to completion there
    {"op": "arm", "num": 2, "nested": [{"op": "add", "actor": "m", "bg": True},
                                       {"op": "finish", "table": "m", "num": 1}]},
    {"op": "arm", "num": 1, "nested": [{"op": "disown", "actor": "w", "args": ["2"]},
                                       {"op": "finish", "table": "m", "num": 1}]},
]


def _useful(seq):
    """Skip histories whose first operation cannot matter (nothing registered yet and not an add)."""
    return ALPHABET[seq[0]]["op"] == "add"


def worker_exhaustive(arg):
    shard, nshards, depth, tol, scratch = arg
    _setup(scratch)
    _ctx.clear()
    st = Stats()
    i = 0
    for n in range(1, depth + 1):
        for seq in itertools.product(range(len(ALPHABET)), repeat=n):
            if not _useful(seq):
                continue
            i += 1
            if i % nshards != shard:
                continue
            case = {"ops": [dict(ALPHABET[k]) for k in seq], "tolerate": list(tol)}
            f, h = check_history(case)
            _record(st, h, "enumerated")
            if f is not None:
                if not any(g.bucket == f.bucket for g in st.failures):
                    st.fail(minimize_history(f.case, f.bucket) or f)
                if len(st.failures) >= 6:
                    return st
    return st


# ----------------------------------------------------------------------------------------
# family (b): Hypothesis state machine

_ctx = {}


def make_machine():
    from hypothesis import strategies as st
    from hypothesis.stateful import RuleBasedStateMachine, initialize, precondition, rule

    actors = st.sampled_from(["m", "m", "w"])
    add_actors = st.sampled_from(["m", "m", "m", "w"])
    small = st.integers(1, 8).map(str)
    number = st.one_of(small, small, st.sampled_from(["0", "-1", "9", "99"]))
    sel_args = st.one_of(
        st.just([]), st.just(["+"]), st.just(["-"]),
        number.map(lambda s: [s]), number.map(lambda s: [s]),
        st.sampled_from(GARBAGE).map(lambda s: [s]),
        st.sampled_from(AMBIGUOUS).map(lambda s: [s]),
        st.lists(st.sampled_from(["1", "2", "3", "+", "-", "x"]), min_size=2, max_size=3),
    )
    flags = st.sampled_from([[], [], [], ["-c"], ["--continue"]])
    ids = st.one_of(
        st.just([]), number.map(lambda s: [s]), number.map(lambda s: [s]),
        st.lists(number, min_size=2, max_size=4),
        st.lists(small, min_size=2, max_size=3, unique=True),
        st.tuples(st.lists(number, max_size=2), st.sampled_from(DISOWN_GARBAGE), st.lists(number, max_size=1)).map(
            lambda t: t[0] + [t[1]] + t[2]),
    )
    add_op = st.fixed_dictionaries({
        "op": st.just("add"), "actor": add_actors, "bg": st.booleans(),
        "status": st.sampled_from(STATUSES), "captured": st.sampled_from([False, False, "object", "hiddenobject"]),
    })

    main_add = st.fixed_dictionaries({"op": st.just("add"), "actor": st.just("m"), "bg": st.booleans(),
                                      "status": st.sampled_from(STATUSES), "captured": st.just(False)})
    nested_finish = st.fixed_dictionaries({"op": st.just("finish"), "table": st.just("m"), "num": st.integers(1, 6)})
    nested_main = st.one_of(
        main_add, main_add, main_add, nested_finish, nested_finish,
        st.fixed_dictionaries({"op": st.just("fg"), "args": sel_args}),
        st.fixed_dictionaries({"op": st.just("bg"), "actor": st.just("m"), "args": sel_args}),
        st.fixed_dictionaries({"op": st.just("disown"), "actor": st.just("m"), "args": ids}),
        st.fixed_dictionaries({"op": st.just("jobs"), "actor": st.just("m"), "posix": st.booleans()}),
        st.sampled_from([{"op": "clear", "actor": "m"}, {"op": "next_task", "actor": "m"},
                         {"op": "next_num", "actor": "m"}]),
    )
    nested_alias = st.one_of(
        nested_finish, nested_finish,
        st.fixed_dictionaries({"op": st.just("disown"), "actor": st.just("w"), "args": ids}),
        st.fixed_dictionaries({"op": st.just("disown"), "actor": st.just("w"), "args": small.map(lambda s: [s])}),
        st.fixed_dictionaries({"op": st.just("bg"), "actor": st.just("w"), "args": sel_args}),
        st.fixed_dictionaries({"op": st.just("jobs"), "actor": st.just("w"), "posix": st.booleans()}),
    )

    class JobTableMachine(RuleBasedStateMachine):
        def __init__(self):
            super().__init__()
            self.h = Harness(tolerate=_ctx.get("tolerate", DEFAULT_TOLERATE))

        def teardown(self):
            h = self.h
            h.close()
            stats = _ctx.get("stats")
            if stats is not None and not h.failed and not _ctx.get("frozen"):
                _record(stats, h, "generated")
            if h.failed:
                _ctx["frozen"] = True       # what follows is Hypothesis shrinking, not exploration

        @initialize(ops=st.lists(add_op, min_size=1, max_size=5))
        def start(self, ops):
            for op in ops:
                self.h.apply(op)

        @rule(op=add_op)
        def add(self, op):
            self.h.apply(op)

        @rule(ops=st.lists(add_op, min_size=1, max_size=3))
        def add_burst(self, ops):
            for op in ops:
                self.h.apply(op)

        # -- process exits ----------------------------------------------------------------
        @precondition(lambda self: any(t.live() for t in self.h.tables.values()))
        @rule(pick=st.integers(0, 31), prefer_main=st.booleans(), rc=st.sampled_from([0, 0, 1, -9]))
        def finish(self, pick, prefer_main, rc):
            tabs = [t for t in (("m", "w") if prefer_main else ("w", "m")) if self.h.tables[t].live()]
            live = sorted(self.h.tables[tabs[0]].live())
            self.h.apply({"op": "finish", "table": tabs[0], "num": live[pick % len(live)], "rc": rc})

        @precondition(lambda self: bool(self.h.tables["m"].live()))
        @rule(pick=st.integers(0, 31), rc=st.sampled_from([0, 1]))
        def finish_main(self, pick, rc):
            live = sorted(self.h.tables["m"].live())
            self.h.apply({"op": "finish", "table": "m", "num": live[pick % len(live)], "rc": rc})

        @precondition(lambda self: bool(self.h.tables["m"].live()))
        @rule(pos=st.sampled_from([0, 0, 1]))
        def finish_recent(self, pos):
            live = self.h.tables["m"].live()        # MRU order: the job `fg` / `disown` would pick next
            self.h.apply({"op": "finish", "table": "m", "num": live[min(pos, len(live) - 1)], "rc": 0})

        # -- listing ----------------------------------------------------------------------
        @rule(actor=actors, posix=st.booleans())
        def jobs(self, actor, posix):
            self.h.apply({"op": "jobs", "actor": actor, "posix": posix})

        # -- fg / bg ----------------------------------------------------------------------
        @rule(args=sel_args)
        def fg(self, args):
            self.h.apply({"op": "fg", "args": args})

        @rule(actor=actors, args=sel_args)
        def bg(self, actor, args):
            self.h.apply({"op": "bg", "actor": actor, "args": args})

        @precondition(lambda self: bool(self.h.tables["m"].mru))
        @rule(cmd=st.sampled_from(["fg", "bg"]), actor=actors, pick=st.integers(0, 31))
        def resume_registered(self, cmd, actor, pick):
            nums = sorted(self.h.tables["m"].mru)     # live or finished-but-unpurged
            op = {"op": cmd, "args": [str(nums[pick % len(nums)])]}
            if cmd == "bg":
                op["actor"] = actor
            self.h.apply(op)

        # -- disown -----------------------------------------------------------------------
        @rule(actor=actors, fl=flags, ids=ids)
        def disown(self, actor, fl, ids):
            self.h.apply({"op": "disown", "actor": actor, "args": fl + ids})

        @precondition(lambda self: bool(self.h.tables["m"].mru))
        @rule(actor=actors, fl=flags, picks=st.lists(st.integers(0, 31), min_size=1, max_size=3),
              extra=st.sampled_from([None, None, None, "9", "0", "dup"]), extra_first=st.booleans())
        def disown_registered(self, actor, fl, picks, extra, extra_first):
            nums = sorted(self.h.tables["m"].mru)
            ids_ = list(dict.fromkeys(str(nums[p % len(nums)]) for p in picks))
            if extra == "dup":
                ids_.append(ids_[0])
            elif extra is not None:
                ids_.insert(0 if extra_first else len(ids_), extra)
            self.h.apply({"op": "disown", "actor": actor, "args": fl + ids_})

        # -- interleavings inside one operation: armed poll() ----------------------------------
        def _arm(self, pick, nested):
            nums = sorted(self.h.tables["m"].mru)
            self.h.apply({"op": "arm", "num": nums[pick % len(nums)], "nested": nested})

        @precondition(lambda self: bool(self.h.tables["m"].mru))
        @rule(pick=st.integers(0, 31), nested=st.lists(st.one_of(nested_main, nested_alias), min_size=1, max_size=3))
        def arm(self, pick, nested):
            self._arm(pick, nested)

        @precondition(lambda self: bool(self.h.tables["m"].mru))
        @rule(pick=st.integers(0, 31), nested=st.lists(nested_main, min_size=1, max_size=3),
              outer=st.one_of(st.fixed_dictionaries({"op": st.just("jobs"), "actor": st.just("w"), "posix": st.booleans()}),
                              st.fixed_dictionaries({"op": st.just("bg"), "actor": st.just("w"), "args": sel_args})))
        def race_alias_command_with_main(self, pick, nested, outer):
            # the alias thread runs jobs / bg on the main table; inside its clean-up the main thread acts
            self._arm(pick, nested)
            self.h.apply(dict(outer))

        @precondition(lambda self: bool(self.h.tables["m"].mru))
        @rule(pick=st.integers(0, 31), nested=st.lists(nested_alias, min_size=1, max_size=3),
              outer=st.one_of(st.fixed_dictionaries({"op": st.just("jobs"), "actor": st.just("m"), "posix": st.booleans()}),
                              st.fixed_dictionaries({"op": st.just("fg"), "args": sel_args}),
                              st.fixed_dictionaries({"op": st.just("bg"), "actor": st.just("m"), "args": sel_args}),
                              main_add,
                              st.sampled_from([{"op": "next_task", "actor": "m"}, {"op": "next_num", "actor": "m"},
                                               {"op": "clear", "actor": "m"}, {"op": "clean"}])))
        def race_main_command_with_alias(self, pick, nested, outer):
            # the main thread runs a command; inside its clean-up the alias thread runs jobs / bg / disown
            self._arm(pick, nested)
            self.h.apply(dict(outer))

        # -- the functions the pipeline machinery calls --------------------------------------
        @rule(actor=actors)
        def next_task(self, actor):
            self.h.apply({"op": "next_task", "actor": actor})

        @rule(op=st.one_of(
            st.fixed_dictionaries({"op": st.just("clear"), "actor": actors}),
            st.fixed_dictionaries({"op": st.just("next_num"), "actor": actors}),
            st.just({"op": "clean"}),
            st.just({"op": "respawn"}),
            st.fixed_dictionaries({"op": st.just("env"), "name": st.sampled_from(["XONSH_INTERACTIVE", "AUTO_CONTINUE"]),
                                   "value": st.booleans()}),
        ))
        def misc(self, op):
            self.h.apply(dict(op))

    return JobTableMachine


def worker_machine(arg):
    seed, machines, steps, shrink_seconds, tol, scratch = arg
    _setup(scratch)
    st = Stats()
    _ctx.clear()
    _ctx.update(stats=st, tolerate=tuple(tol), frozen=False, sample_after=(seed % 8) * 11)
    exc = common.run_machine(make_machine(), seed, machines, steps, shrink=True, shrink_seconds=shrink_seconds)
    f = common.machine_failure(exc, "C20 job-table machine")
    if f is not None:
        # confirm the shrunk history outside Hypothesis; keep the confirmed failure
        g, _ = check_history(f.case)
        if g is None:
            raise common.HarnessError("shrunk history does not fail on replay: %r" % (f.case,))
        st.fail(minimize_history(g.case, g.bucket) or g)
    return st



# ----------------------------------------------------------------------------------------
# family (c): the same model against real child processes (`sleep 300 &` through the Execer)


def _proc_state(pid):
    try:
        with open("/proc/%d/stat" % pid) as f:
            return f.read().rsplit(")", 1)[1].split()[0]
    except OSError:
        return None


def _own_sleep(pid):
    try:
        with open("/proc/%d/stat" % pid) as f:
            head, tail = f.read().rsplit(")", 1)
    except OSError:
        return False
    return head.split("(", 1)[1] == "sleep" and int(tail.split()[1]) == os.getpid()


REAL_KINDS = {
    # every background pipeline with at least one external command must be registered as one job,
    # whatever mixture of callable aliases and external commands it is made of
    "plain": "sleep 300 &",
    "two": "sleep 300 | sleep 300 &",
    "alias-first": "vgen | sleep 300 &",
    "alias-mid": "sleep 300 | vgen | sleep 300 &",
}


def _vgen(args, stdin=None, stdout=None):
    """Callable alias used in mixed pipelines: writes a line, never reads, returns at once (an alias that
    waits for end-of-input could keep its non-daemon thread - and this worker process - alive for ever)."""
    stdout.write("hello\n")
    return 0


def _own_sleeps():
    """pids of the running (not zombie) `sleep` children of this process, from /proc."""
    out = set()
    me = os.getpid()
    for d in os.listdir("/proc"):
        if not d.isdigit():
            continue
        try:
            with open("/proc/%s/stat" % d) as f:
                head, tail = f.read().rsplit(")", 1)
        except OSError:
            continue
        t = tail.split()
        if head.split("(", 1)[1] == "sleep" and int(t[1]) == me and t[0] not in ("Z", "X"):
            out.add(int(d))
    return out


class RealHarness(Harness):
    """add = run a background pipeline of real `sleep` children (optionally mixed with a callable alias)
    through the real Execer (-> specs._run_command_pipeline -> add_job); finish = SIGKILL its children and
    wait until the kernel reports them dead.  After every step /proc is compared with the table: every
    running sleep child belongs to exactly one registered job or to a disowned one.  fg / bg are only
    issued with arguments that must be refused (a successful fg would wait for the sleep)."""

    def __init__(self, tolerate=DEFAULT_TOLERATE):
        self.pids = {}          # MJob.key -> pids of its sleep children
        self.popens = []
        self.disowned = []
        super().__init__(tolerate=tolerate)
        self.XSH.aliases["vgen"] = _vgen
        stray = _own_sleeps()
        if stray:
            raise common.HarnessError("sleep children left over from an earlier history: %r" % (stray,))

    def _guard(self, name):
        real = os.kill if name == "kill" else os.killpg

        def guarded(pid, sig):
            # xonsh may signal the `sleep` children of this process (SIGCONT after start and on
            # `disown -c`); anything else (another pid, a process group) would be a defect and must not
            # reach the OS
            if name == "kill" and isinstance(pid, int) and pid > 1 and _own_sleep(pid):
                return real(pid, sig)
            self.sig_log.append((name, repr(pid), repr(sig)))
        return guarded

    def close(self):
        for pid in _own_sleeps():       # includes children xonsh started but did not register
            try:
                self._real_kill(pid, signal.SIGKILL)
            except OSError:
                pass
        for p in self.popens:
            try:
                p.wait(timeout=10)
            except Exception:  # noqa: BLE001
                pass
        for d in os.listdir("/proc"):   # reap what no Popen object of a registered job owns
            if d.isdigit() and _own_sleep(int(d)):
                try:
                    os.waitpid(int(d), 0)
                except OSError:
                    pass
        super().close()

    def _op_add(self, op):
        from vlib import session

        kind = op.get("kind", "plain")
        line = REAL_KINDS[kind]
        T = self.tables["m"]
        old = [mj.info for mj in T.entries.values()]
        before = _own_sleeps()
        self._invoke("m", lambda: session.xexec(line + "\n"))
        T.purge()
        num = T.lowest_free()
        jobs = self.XSH.all_jobs
        new = sorted(n for n, j in jobs.items() if not any(j is o for o in old))
        spawned = sorted(_own_sleeps() - before)
        for n in new:
            for p in getattr(jobs[n].get("pipeline"), "procs", ()):
                if isinstance(getattr(p, "pid", None), int):
                    self.popens.append(p)
        if len(spawned) != line.count("sleep"):
            raise common.HarnessError("`%s` started %d sleep children, expected %d"
                                      % (line, len(spawned), line.count("sleep")))
        if new != [num]:
            self._fail("job-number", "background pipeline `%s` (sleep children %r) registered under %r, reference: "
                       "exactly once under %d (lowest free)" % (line, spawned, new, num))
        info = jobs[num]
        key = self.nkeys
        self.nkeys += 1
        self.pids[key] = spawned
        T.entries[num] = MJob(key, info, info["obj"], True, "running", tag=str(spawned[-1]))
        T.mru.insert(0, num)
        if sorted(p for p in info.get("pids", ()) if p is not None) != spawned:
            self._fail("wrong-job", "job %d (`%s`) lists pids %r, its sleep children are %r"
                       % (num, line, info.get("pids"), spawned))

    def _op_finish(self, op):
        mj = self.tables["m"].entries.get(op["num"])
        if mj is None or not mj.alive:
            return
        for pid in self.pids[mj.key]:
            self._real_kill(pid, signal.SIGKILL)
        for pid in self.pids[mj.key]:
            os.waitid(os.P_PID, pid, os.WEXITED | os.WNOWAIT)     # dead, not yet reaped: poll() will see it
        mj.alive = False

    def _op_disown(self, op):
        before = dict(self.tables["m"].entries)
        super()._op_disown(op)
        for n, mj in before.items():
            if mj.alive and self.tables["m"].entries.get(n) is not mj:
                self.disowned.append(mj)

    def _check_tables(self, op):
        super()._check_tables(op)
        running = _own_sleeps()
        jobs = self.XSH.all_jobs
        expected = set()
        for n, mj in self.tables["m"].entries.items():
            if not mj.alive:
                continue
            for pid in self.pids[mj.key]:
                expected.add(pid)
                owners = [k for k, j in jobs.items() if pid in (j.get("pids") or ())]
                if owners != [n]:
                    self._fail("process-not-tracked", "running background process %d belongs to jobs %r of the table, "
                               "reference: exactly job %d" % (pid, owners, n))
        for mj in self.disowned:
            expected.update(self.pids[mj.key])
        if running != expected:
            self._fail("process-gone" if expected - running else "process-not-tracked",
                       "running sleep children %r, reference (registered live jobs + disowned jobs) %r"
                       % (sorted(running), sorted(expected)))

    def _resume(self, op, name):
        T = self.tables["m"]
        T.purge()
        if ref_select(T, list(op["args"]))[0] != "err":
            raise _InvalidHistory("a succeeding %s would wait for the real child" % name)
        super()._resume(op, name)

    def _op_clean(self, op):
        raise _InvalidHistory("not part of the real-process family")

    _op_respawn = _op_clean
    _op_arm = _op_clean


def make_real_machine():
    from hypothesis import strategies as st
    from hypothesis.stateful import RuleBasedStateMachine, initialize, precondition, rule

    actors = st.sampled_from(["m", "w"])
    refused = st.sampled_from([["abc"], ["0"], ["-1"], ["99"], ["1", "2"], ["%1"], ["+", "-"]])
    kinds = st.sampled_from(sorted(REAL_KINDS))

    class RealJobsMachine(RuleBasedStateMachine):
        def __init__(self):
            super().__init__()
            self.h = RealHarness(tolerate=_ctx.get("tolerate", DEFAULT_TOLERATE))

        def teardown(self):
            h = self.h
            h.close()
            stats = _ctx.get("stats")
            if stats is not None and not h.failed and not _ctx.get("frozen"):
                _record(stats, h, "real-processes")
            if h.failed:
                _ctx["frozen"] = True

        @initialize(kinds_=st.lists(kinds, min_size=1, max_size=3))
        def start(self, kinds_):
            for k in kinds_:
                self.h.apply({"op": "add", "actor": "m", "bg": True, "kind": k})

        @precondition(lambda self: len(self.h.tables["m"].mru) < 6)
        @rule(k=kinds)
        def add(self, k):
            self.h.apply({"op": "add", "actor": "m", "bg": True, "kind": k})

        @precondition(lambda self: bool(self.h.tables["m"].live()))
        @rule(pick=st.integers(0, 31))
        def kill(self, pick):
            live = self.h.tables["m"].live()
            self.h.apply({"op": "finish", "table": "m", "num": live[pick % len(live)]})

        @rule(actor=actors, posix=st.booleans())
        def jobs(self, actor, posix):
            self.h.apply({"op": "jobs", "actor": actor, "posix": posix})

        @rule(cmd=st.sampled_from(["fg", "bg"]), actor=actors, args=refused)
        def refused_resume(self, cmd, actor, args):
            op = {"op": cmd, "args": args}
            if cmd == "bg":
                op["actor"] = actor
            self.h.apply(op)

        @rule(actor=actors, fl=st.sampled_from([[], [], ["-c"]]), picks=st.lists(st.integers(0, 31), max_size=2),
              extra=st.sampled_from([None, None, "9", "x"]))
        def disown(self, actor, fl, picks, extra):
            nums = sorted(self.h.tables["m"].mru)
            ids_ = list(dict.fromkeys(str(nums[p % len(nums)]) for p in picks)) if nums else []
            if extra is not None:
                ids_.append(extra)
            self.h.apply({"op": "disown", "actor": actor, "args": fl + ids_})

        @rule(op=st.sampled_from([{"op": "clear", "actor": "m"}, {"op": "next_num", "actor": "m"},
                                  {"op": "next_task", "actor": "m"}]))
        def misc(self, op):
            self.h.apply(dict(op))

    return RealJobsMachine


def worker_real(arg):
    seed, machines, steps, tol, scratch = arg
    _setup(scratch)
    st = Stats()
    _ctx.clear()
    _ctx.update(stats=st, tolerate=tuple(tol), frozen=False)
    exc = common.run_machine(make_real_machine(), seed, machines, steps, shrink=True, shrink_seconds=8)
    f = common.machine_failure(exc, "C20 real-process machine")
    if f is not None:
        st.fail(minimize_history(f.case, f.bucket, budget=60) or f)
    return st

# ----------------------------------------------------------------------------------------


def _replay_check(run, case):
    fid = case.get("finding")
    if fid and fid not in run.known_open and fid not in run.known_fixed:
        # a finding replay whose entry is not (yet) in known_findings.json is treated like a generated
        # history, i.e. with the generator's tolerance; `run.py C20 --replay <file>` always runs it strictly
        case = dict(case, tolerate=list(DEFAULT_TOLERATE))
        run.stats.notes.append("replay of %s ran with the generator's tolerance: no entry in the known-findings file" % fid)
    f, h = check_history(case)
    if f is not None and not f.finding:
        # the committed history fails in a way that is not the recorded finding: report it as what it is
        run.stats.fail(f)
        return None
    return f


def main(run):
    import time

    t0 = time.time()
    phases = run.extra.setdefault("phase_wall_s", {})

    def lap(name):
        nonlocal t0
        phases[name] = round(time.time() - t0, 1)
        t0 = time.time()

    _setup(run.scratch)
    common.replay_tier(run, lambda case: _replay_check(run, case))
    lap("replays")
    quick = run.tier != "thorough"
    # the shape of an open (or not yet registered) finding is tolerated, exactly, in generated histories;
    # once a finding is marked fixed nothing is tolerated any more
    tol = [fid for fid in DEFAULT_TOLERATE if fid not in run.known_fixed]
    nw = 8 if quick else 16
    depth = run.n(4, 5)
    common.pool_map(run, __name__, "worker_exhaustive", [(i, nw, depth, tol, run.scratch) for i in range(nw)], procs=nw)
    lap("enumerated")
    run.extra["exhaustive_subspace"] = ("every history of length <= %d over the %d-operation alphabet that starts "
                                        "with an add_job" % (depth, len(ALPHABET)))
    machines = run.n(450, 15000)
    steps = run.n(40, 60)
    common.pool_map(run, __name__, "worker_machine",
                    [(common.worker_seed(run.seed, w), machines, steps, 10 if quick else 60, tol, run.scratch)
                     for w in range(nw)], procs=nw)
    lap("generated")
    common.pool_map(run, __name__, "worker_real",
                    [(common.worker_seed(run.seed, 200 + w), run.n(10, 250), run.n(12, 25), tol, run.scratch)
                     for w in range(run.n(2, 4))], procs=4)
    lap("real-processes")
    run.extra["steps_executed"] = run.stats.hist.get("steps", 0)
    run.extra["nontrivial_steps"] = run.stats.hist.get("step-nontrivial", 0)
    run.extra["poll_windows_opened"] = run.stats.hist.get("poll-window-opened", 0)
    run.assumptions += [
        "process objects are stubs (pid None, pgrp None, scripted poll()); pipelines are stubs recording resume(): "
        "waiting on, signalling and terminal hand-over of real processes are outside this check",
        "interleaving between the main thread and the alias thread is at command granularity (lock-step)",
        "a job registered from inside an alias thread belongs to that thread's own table (the thread-local design "
        "stated in jobs.py); the check requires isolation between the two tables, not visibility in `jobs`",
        "an error is 'reported' when the command returns a non-empty message for stderr or exits non-zero "
        "(argparse usage error of disown); the return code of fg/bg, which stays 0, is not judged",
        "disown is not required to purge finished jobs first: a finished, not yet purged entry may still be "
        "selected or named (both readings accepted)",
        "arguments that only int() accepts ('+1', '01', ' 2') may select that job or be refused",
        "intra-operation interleavings are forced at poll() of stub processes only (the one blocking call inside "
        "the clean-up); the nested operations run to completion there, from the other actor's thread; a nested "
        "operation that belongs to the thread that is itself inside poll() is skipped",
        "a command interrupted inside poll() must end as 'nested operations, then the command'; a job that exits "
        "inside that window may stay as a finished, unpurged entry until the next purge",
        "real-process family: callable aliases in mixed pipelines never read their input (a blocked alias thread "
        "would outlive the history); a pipeline ending in a callable alias is not generated",
    ]


def replay(run, path):
    import json

    with open(path) as f:
        d = json.load(f)
    case = d.get("case", d)
    _setup(run.scratch)
    f, _ = check_history(case)
    if f is None:
        print("replay: property holds on this case")
        return 0
    print("VIOLATION property=%s replay=%s kind=%s %s" % (PROP, path, f.kind, f.detail))
    return 1

"""C11 - scoped environment changes are exactly undone and never leak across threads.

Generator : a Hypothesis RuleBasedStateMachine drives three *actor threads* in lock-step: every actor
            blocks on a queue and executes exactly one operation when the test thread tells it to, so the
            harness owns the interleaving and a history is a plain JSON list of operations
            (deterministic, shrinkable, replayable without Hypothesis).  Operations, each addressed to one
            actor: enter `env.swap(dict)` / `swap(**kw)` / `swap(dict, **kw)` / `swap(overlay=...)` /
            the alias form `swap(spec_env, overlay={}, __ALIAS_STACK=...)` of ProcProxyThread.run, with
            values and `DELETE_VAR` masks over a pool of ten variables (unset, set, registered default
            but unset, registered and set, `*PATH` typed), nested up to depth 5 on overlapping keys; leave the
            innermost scope by falling off the end, by raising an Exception inside it or by raising a
            BaseException inside it (real `with` statements, one Python frame per scope); plain
            `env[k] = v`, `env[k] = DELETE_VAR`, `del env[k]` inside or outside scopes (also on the
            variable the scope swapped); mutation of the live alias overlay (`env_overlay[k] = v`,
            `... = DELETE_VAR`, `del`); replacing an idle actor by a new thread that starts with
            `set_swapped_values(parent.get_swapped_values())` (what ProcProxyThread / PopenThread do; the
            parent-side `get` and the child-side `set` are also issued as two operations with other
            operations - e.g. the parent leaving its scope - in between) or by a fresh thread.  One
            variable of the pool has a registered `sync` twin (XONSH_SUBPROC_CMD_RAISE_ERROR, swapped
            by xonsh.api.subprocess), which must follow it into and out of every scope.
Oracle    : reference model written from the property text: one global mapping + per thread a stack of
            layers (swapped keys, optional overlay) over an inherited base layer.  A thread sees, in this
            order: its overlays (innermost first; documented: "shadows both swapped and global values"),
            its swap layers (innermost first), the inherited layer, the global mapping, the registered
            default.  A mask makes the variable absent.  Leaving a scope pops its layer - nothing else
            changes.  After EVERY step and for EVERY actor the model's view is compared with
            `env[k]` / KeyError, `k in env`, `env.get(k)`, `list(env)`, `env.detype()` (str -> str,
            defaults not exported) and `env.detype_all()`; the part of these views outside the pool must
            never change.  Independently of the model: the observed per-key snapshot after a scope ends
            must equal the one taken before it began for every key nobody assigned meanwhile, the
            exception that ended a scope must be the one that leaves the `with`, and a scope must end
            without any other exception.
            Two readings are both accepted (never a failure): (i) an unmasked key that is visible only
            through an overlay may be missing from iteration (the property demands "all views at once"
            only for masks; counted as `weak:overlay-key-missing-from-iteration`); (ii) when another
            thread assigns a variable while this thread has it swapped, this thread may afterwards see
            either the value from before its scope or the new one (layer reading vs snapshot reading).
Findings  : eight recorded defects.  F1-F3 (swap captures the value it *reads* - default, global, overlay -
            and writes it into the thread-local layer on exit) cannot be kept out of generation, so an
            "as-built" twin of the model that reproduces exactly that capture rule carries the state
            on; a disagreement with the reference model is tolerated only when the observation equals
            the as-built twin AND the variable was subject to that mechanism earlier in the history AND
            the finding is open in known_findings.json (counted in excluded_known).  F4 (failed entry), F5
            (same key in dict and kwargs), F6 (`del` of the swapped variable inside the scope), F8 (swap
            of a variable that has a `sync` twin while it is masked) are not generated while open (counted).  F7 (shared `_detyped` cache) is excluded by resetting the
            cache before every observed `detype()` in three quarters of the histories; the rest run with
            the cache as it is and tolerate exactly "the mapping returned is the cache object another
            thread populated".  With `open_ids=()` (committed replays) nothing is tolerated.
"""

from __future__ import annotations

import json
import os
import queue
import threading

from vlib import common
from vlib.common import Failure, Mismatch, Stats

PROP = "C11"
LEVEL = "exploration"
RULE = ("history of swap / overlay / mask / plain set / del / overlay-mutation / thread hand-over operations on "
        "ten overlapping variables, issued to three lock-stepped actor threads (the harness owns the schedule); "
        "one evaluation = one history, every read path of every actor is compared with the reference model "
        "after each step (step counts are in the histogram); non-trivial = at some step one actor holds >= 2 "
        "open scopes that touch the same variable, or >= 2 actors are inside scopes at the same time; "
        "distinct = hash of (cache mode, operation list)")
HOOKS = False

F1 = "C11-F1"   # unset variable with a registered default is *set* after swap exit (detype() exports it)
F2 = "C11-F2"   # set variable keeps a thread-local copy after swap exit: later assignments do not cross threads
F3 = "C11-F3"   # swap inside an overlay scope captures the overlay's value and leaves it set after both ended
F4 = "C11-F4"   # entry that fails on a later key leaves the earlier keys swapped for ever
F5 = "C11-F5"   # same key in the dict and in the kwargs of one swap(): the dict's value survives the exit
F6 = "C11-F6"   # `del env[k]` of a swapped, previously unset k inside the scope: exit raises KeyError, rest not restored
F7 = "C11-F7"   # shared detype() cache: another thread receives the swapped values
F8 = "C11-F8"   # swap of a variable with a `sync` twin entered while the variable is masked: the twin stays swapped
ALL_F = (F1, F2, F3, F4, F5, F6, F7, F8)

N_ACTORS = 3
MAX_DEPTH = 5
REPLY_TIMEOUT = 60.0

# variable pool: name -> type
POOL = {
    "VA": "str", "VB": "str", "VC": "str", "__ALIAS_STACK": "str",
    "XPATH": "path", "YPATH": "path",
    "AUTO_CD": "bool", "COMPLETIONS_MENU_ROWS": "int", "INDENT": "str",
    "XONSH_SHOW_TRACEBACK": "bool",
    "XONSH_SUBPROC_CMD_RAISE_ERROR": "bool", "RAISE_SUBPROC_ERROR": "bool",
}
KEYS = list(POOL)
DEFAULTS = {"AUTO_CD": False, "COMPLETIONS_MENU_ROWS": 5, "INDENT": "    ", "XONSH_SHOW_TRACEBACK": False,
            "XONSH_SUBPROC_CMD_RAISE_ERROR": False, "RAISE_SUBPROC_ERROR": False}
# registered `sync` twin (environ.py: assigning the variable also assigns the twin, same layer); only the
# canonical name is ever written by an operation (the twin is deprecated), both are observed
SYNC = {"XONSH_SUBPROC_CMD_RAISE_ERROR": "RAISE_SUBPROC_ERROR"}
READONLY = set(SYNC.values())
INIT_GLOBAL = {"VB": "b0", "XPATH": ["/x0"], "XONSH_SHOW_TRACEBACK": False}

MASK = ("<mask>",)      # model-side DELETE_VAR
BAD = ("<bad>",)        # model-side "value the converter rejects"
NI = ("<nothing>",)     # as-built: captured "was not there"


def dec(v):
    """JSON value -> model value."""
    if isinstance(v, dict):
        if v.get("del"):
            return MASK
        if v.get("bad"):
            return BAD
        raise common.HarnessError("bad value %r" % (v,))
    if isinstance(v, list):
        return [str(x) for x in v]
    return v


def canon(v):
    """Type-tagged JSON-able form of a value read from xonsh or held by the model."""
    if isinstance(v, bool):
        return ["B", v]
    if isinstance(v, int):
        return ["I", v]
    if isinstance(v, str):
        return ["S", v]
    if isinstance(v, (list, tuple)) or type(v).__name__ == "EnvPath":
        return ["L", [str(x) for x in v]]
    return ["?", repr(v)[:80]]


def ref_detype(k, v):
    """What a child process must receive for variable k holding v (docs: bool -> '1'/'', path list joined
    with os.pathsep, everything else str())."""
    t = POOL[k]
    if t == "path":
        return v if isinstance(v, str) else os.pathsep.join(str(x) for x in v)
    if t == "bool":
        return "1" if v else ""
    return str(v)


# ----------------------------------------------------------------------------------------
# reference model (from the property text)

ABSENT = ("absent",)
ANY = ("any",)


def present(v, explicit=True, via_ov=False):
    return ("present", v, explicit, via_ov)


class IFrame:
    def __init__(self, kw, ov):
        self.kw = kw              # key -> value | MASK
        self.ov = ov              # live overlay dict or None
        self.deleted = set()      # swapped keys the thread deleted inside (their view is unconstrained)


class IThread:
    def __init__(self):
        self.base = {}            # inherited swapped values (never popped)
        self.base_any = set()
        self.frames = []
        self.pending = set()      # keys another thread assigned while this thread had them swapped
        self.anykeys = set()      # ... and whose scope has ended since (two readings accepted)


class Ideal:
    def __init__(self, g):
        self.G = dict(g)
        self.T = {i: IThread() for i in range(N_ACTORS)}

    # -- views ---------------------------------------------------------------------------
    def owner(self, t, k):
        th = self.T[t]
        for f in reversed(th.frames):
            if k in f.kw or k in f.deleted:
                return f
        if k in th.base or k in th.base_any:
            return th
        return None

    def view(self, t, k):
        th = self.T[t]
        for f in reversed(th.frames):
            if f.ov is not None and k in f.ov:
                v = f.ov[k]
                return ABSENT if v is MASK else present(v, True, True)
        for f in reversed(th.frames):
            if k in f.deleted:
                return ANY
            if k in f.kw:
                v = f.kw[k]
                return ABSENT if v is MASK else present(v)
        if k in th.base_any:
            return ANY
        if k in th.base:
            v = th.base[k]
            return ABSENT if v is MASK else present(v)
        if k in th.anykeys:
            return ANY
        if k in self.G:
            return present(self.G[k])
        if k in DEFAULTS:
            return present(DEFAULTS[k], False)
        return ABSENT

    def views(self, t):
        return {k: self.view(t, k) for k in KEYS}

    def unconstrained(self, t, k):
        """True when a plain write by t to k has no single defined meaning in this model."""
        th = self.T[t]
        if k in th.anykeys or k in th.base_any:
            return True
        return any(k in f.deleted for f in th.frames)

    def top_overlay(self, t):
        for f in reversed(self.T[t].frames):
            if f.ov is not None:
                return f.ov
        return None

    # -- operations ----------------------------------------------------------------------
    def enter(self, t, d, kw, ov):
        seq = list(d or []) + list(kw)
        if any(v is BAD for _, v in seq):
            return ("enter-raised",)
        merged = {}
        for k, v in seq:
            merged[k] = v
            if k in SYNC and v is not MASK:
                merged[SYNC[k]] = v
        self.T[t].frames.append(IFrame(merged, None if ov is None else dict(ov)))
        return ("entered",)

    def exit(self, t, how):
        th = self.T[t]
        th.frames.pop()
        for k in list(th.pending):
            if self.owner(t, k) is None:
                th.pending.discard(k)
                th.anykeys.add(k)
        return ("exited", how)

    def _foreign_write(self, t, k):
        for u, th in self.T.items():
            if u != t and self.owner(u, k) is not None:
                th.pending.add(k)

    def set(self, t, k, v):
        if k in SYNC and v is not MASK:
            self.set(t, SYNC[k], v)
        own = self.owner(t, k)
        if own is not None and v is MASK:
            return self.delete(t, k)        # documented as equivalent to `del env[k]`
        if own is not None:
            # scoped: replaces the thread's innermost entry, gone when that layer goes
            (own.base if isinstance(own, IThread) else own.kw)[k] = v
            return ("ok",)
        if v is MASK:
            self.G.pop(k, None)
        else:
            self.G[k] = v
        self._foreign_write(t, k)
        return ("ok",)

    def delete(self, t, k):
        own = self.owner(t, k)
        if own is not None:
            if isinstance(own, IThread):
                own.base.pop(k, None)
                own.base_any.add(k)
            else:
                own.kw.pop(k, None)
                own.deleted.add(k)
            return ("ok",)
        if k in self.G:
            del self.G[k]
            self._foreign_write(t, k)
            return ("ok",)
        if k in DEFAULTS:
            return ("ok",)
        return ("exc", "KeyError")

    def ovset(self, t, k, v):
        self.top_overlay(t)[k] = v

    def ovdel(self, t, k):
        self.top_overlay(t).pop(k, None)

    def snapshot(self, frm):
        """What a thread created now by `frm` inherits: frm's swapped values, innermost winning."""
        p = self.T[frm]
        flat, anyk = dict(p.base), set(p.base_any)
        for f in p.frames:
            for k in f.deleted:
                flat.pop(k, None)
                anyk.add(k)
            for k, v in f.kw.items():
                flat[k] = v
                anyk.discard(k)
        return flat, anyk

    def start(self, t, snap):
        th = IThread()
        if snap is not None:
            th.base, th.base_any = dict(snap[0]), set(snap[1])
        self.T[t] = th


# ----------------------------------------------------------------------------------------
# as-built twin: the same operations under the capture/restore rule of the recorded findings.  It is
# consulted only when the reference model disagrees with xonsh, and an agreement with it excuses the
# disagreement only for variables in `taint` (set by exactly the recorded mechanisms).


class AThread:
    def __init__(self):
        self.local = {}
        self.ovs = []
        self.scopes = []


class AsBuilt:
    def __init__(self, g):
        self.G = dict(g)
        self.T = {i: AThread() for i in range(N_ACTORS)}
        self.taint = {}           # key -> finding id of the most recent recorded mechanism that touched it

    def view(self, t, k):
        th = self.T[t]
        for ov in reversed(th.ovs):
            if k in ov:
                v = ov[k]
                return ABSENT if v is MASK else present(v, True, True)
        if k in th.local:
            v = th.local[k]
            return ABSENT if v is MASK else present(v)
        if k in self.G:
            return present(self.G[k])
        if k in DEFAULTS:
            return present(DEFAULTS[k], False)
        return ABSENT

    def views(self, t):
        return {k: self.view(t, k) for k in KEYS}

    def _capture(self, th, k):
        if k in th.local:
            return th.local[k], None
        for ov in reversed(th.ovs):
            if k in ov:
                v = ov[k]
                return (NI, None) if v is MASK else (v, F3)
        if k in self.G:
            return self.G[k], F2
        if k in DEFAULTS:
            return DEFAULTS[k], F1
        return NI, None

    def enter(self, t, d, kw, ov):
        th = self.T[t]
        old = {}
        done = []
        for k, v in list(d or []) + list(kw):
            if v is BAD:
                for k2 in done:
                    self.taint[k2] = F4
                return ("enter-raised",)
            cap = self._capture(th, k)
            if k in old:
                self.taint[k] = F5
            old[k] = cap
            th.local[k] = v
            done.append(k)
            if k in SYNC and v is not MASK:
                th.local[SYNC[k]] = v       # assigned with the variable, never captured
                done.append(SYNC[k])
        if ov is not None:
            th.ovs.append(dict(ov))
        th.scopes.append((old, ov is not None))
        return ("entered",)

    def exit(self, t, how):
        th = self.T[t]
        old, has_ov = th.scopes.pop()
        if has_ov:
            th.ovs.pop()
        items = list(old.items())
        for i, (k, (cap, origin)) in enumerate(items):
            if cap is NI:
                if k in SYNC:
                    self.taint[SYNC[k]] = F8        # the twin keeps the scope's value
                if k in th.local or k in self.G:
                    th.local.pop(k, None)
                elif k not in DEFAULTS:
                    for k2, _ in items[i:]:
                        self.taint[k2] = F6
                    return ("exit-raised", "KeyError")
            else:
                th.local[k] = cap
                if origin is not None:
                    self.taint[k] = origin
                if k in SYNC:
                    if cap is MASK:
                        self.taint[SYNC[k]] = F8    # the twin keeps the inner value
                    else:
                        th.local[SYNC[k]] = cap
                        if origin is not None:
                            self.taint[SYNC[k]] = origin
        return ("exited", how)

    def would_raise_on_exit(self, t, k):
        """F6 shape: k was captured as 'not there' by an open scope of t and is not a registered variable."""
        if k in DEFAULTS:
            return False
        return any(k in old and old[k][0] is NI for old, _ in self.T[t].scopes)

    def set(self, t, k, v):
        th = self.T[t]
        if v is MASK:
            if k in th.local:
                del th.local[k]
            elif k in self.G:
                del self.G[k]
            return ("ok",)
        for kk in ((SYNC[k], k) if k in SYNC else (k,)):
            if kk in th.local:
                th.local[kk] = v
            else:
                self.G[kk] = v
        return ("ok",)

    def delete(self, t, k):
        th = self.T[t]
        if k in th.local:
            del th.local[k]
        elif k in self.G:
            del self.G[k]
        elif k not in DEFAULTS:
            return ("exc", "KeyError")
        return ("ok",)

    def ovset(self, t, k, v):
        self.T[t].ovs[-1][k] = v

    def ovdel(self, t, k):
        self.T[t].ovs[-1].pop(k, None)

    def snapshot(self, frm):
        return dict(self.T[frm].local)

    def start(self, t, snap):
        th = AThread()
        if snap is not None:
            th.local = dict(snap)
        self.T[t] = th


# ----------------------------------------------------------------------------------------
# system under test: actor threads


class _Boom(Exception):
    pass


class _BaseBoom(BaseException):
    pass


class _Quit(BaseException):
    pass


_MISSING = object()


class Actor:
    """A thread that executes one operation per message and answers with plain data."""

    def __init__(self, env, idx, base, init_vals=None):
        self.env = env
        self.idx = idx
        self.base = base          # foreign parts of the views, fixed for the life of the Env
        self.init_vals = init_vals
        self.inq = queue.SimpleQueue()
        self.outq = queue.SimpleQueue()
        self.ovs = []
        self.exc = None
        self.quitting = False
        self.thread = threading.Thread(target=self._main, name="c11-actor-%d" % idx, daemon=True)
        self.thread.start()
        r = self._reply()
        if r != ("started",):
            raise common.HarnessError("actor %d did not start: %r" % (idx, r))

    def _reply(self):
        try:
            return self.outq.get(timeout=REPLY_TIMEOUT)
        except queue.Empty:
            raise common.HarnessError("actor %d did not answer within %.0f s" % (self.idx, REPLY_TIMEOUT))

    def call(self, *msg):
        self.inq.put(msg)
        return self._reply()

    def quit(self):
        self.quitting = True
        self.inq.put(("quit",))
        self.thread.join(timeout=10)

    # -- thread side -----------------------------------------------------------------------
    def _main(self):
        try:
            if self.init_vals is not None:
                self.env.set_swapped_values(self.init_vals)
            self.outq.put(("started",))
            self._loop(0)
        except _Quit:
            pass
        except BaseException as e:  # noqa: BLE001
            self.outq.put(("actor-crashed", type(e).__name__, str(e)[:300]))

    def _value(self, v):
        from xonsh.environ import DELETE_VAR

        if v is MASK:
            return DELETE_VAR
        if v is BAD:
            return "abc"
        if isinstance(v, list):
            return list(v)
        return v

    def _loop(self, depth):
        env = self.env
        while True:
            if self.quitting:
                raise _Quit()
            msg = self.inq.get()
            kind = msg[0]
            if kind == "quit":
                raise _Quit()
            try:
                if kind == "enter":
                    self._enter(msg, depth)
                elif kind == "exit":
                    how = msg[1]
                    if depth == 0:
                        self.outq.put(("error", "exit without a scope"))
                        continue
                    if how == "return":
                        return
                    self.exc = _Boom("c11") if how == "raise" else _BaseBoom("c11")
                    raise self.exc
                elif kind == "set":
                    env[msg[1]] = self._value(msg[2])
                    self.outq.put(("ok",))
                elif kind == "del":
                    del env[msg[1]]
                    self.outq.put(("ok",))
                elif kind == "ovset":
                    self.ovs[-1][msg[1]] = self._value(msg[2])
                    self.outq.put(("ok",))
                elif kind == "ovdel":
                    self.ovs[-1].pop(msg[1], None)
                    self.outq.put(("ok",))
                elif kind == "getswapped":
                    self.outq.put(("vals", env.get_swapped_values()))
                elif kind == "obs":
                    self.outq.put(("obs", self._observe(msg[1], msg[2])))
                else:
                    self.outq.put(("error", "unknown message %r" % (kind,)))
            except (_Boom, _BaseBoom, _Quit):
                raise
            except Exception as e:  # noqa: BLE001
                self.outq.put(("exc", type(e).__name__, str(e)[:200]))

    def _enter(self, msg, depth):
        _, d, kw, ov, alias = msg
        env = self.env
        other = None if d is None else {k: self._value(v) for k, v in d}
        kwargs = {k: self._value(v) for k, v in kw}
        if alias is not None:
            # ProcProxyThread.run
            kwargs["__ALIAS_STACK"] = env.get("__ALIAS_STACK", "") + ":" + alias
        overlay = None if ov is None else {k: self._value(v) for k, v in ov}
        entered = False
        self.exc = None
        try:
            with env.swap(other, overlay=overlay, **kwargs):
                entered = True
                if overlay is not None:
                    self.ovs.append(overlay)
                self.outq.put(("entered",))
                self._loop(depth + 1)
            res = ("exited", "return")
        except _Quit:
            raise
        except (_Boom, _BaseBoom) as e:
            if e is self.exc:
                res = ("exited", "raise" if isinstance(e, _Boom) else "base")
            else:
                res = ("exit-raised", type(e).__name__, "a different exception object left the scope")
        except BaseException as e:  # noqa: BLE001
            if self.quitting:
                raise _Quit()
            res = ("exit-raised" if entered else "enter-raised", type(e).__name__, str(e)[:200])
        if entered and overlay is not None:
            self.ovs.pop()
        self.exc = None
        self.outq.put(res)

    def _observe(self, phase, reset):
        env = self.env
        out = {}
        if phase in ("detype", "all"):
            if reset:
                env._detyped = None
            pre = getattr(env, "_detyped", None)
            try:
                d = env.detype()
                out["hit"] = pre is not None and d is pre
                out["populated"] = pre is None and getattr(env, "_detyped", None) is d
                out["result_id"] = id(d)
                out["detype"] = {k: d[k] for k in KEYS if k in d}
                out["detype_foreign_ok"] = {k: v for k, v in d.items() if k not in POOL} == self.base["detype"]
                out["detype_nonstr"] = sorted(repr(k) for k, v in d.items()
                                              if not (isinstance(k, str) and isinstance(v, str)))[:5]
            except Exception as e:  # noqa: BLE001
                out["detype_exc"] = "%s: %s" % (type(e).__name__, str(e)[:200])
        if phase in ("rest", "all"):
            env._detyped = None
            try:
                d = env.detype_all()
                out["detype_all"] = {k: d[k] for k in KEYS if k in d}
                out["detype_all_foreign_ok"] = ({k: v for k, v in d.items() if k not in POOL}
                                                == self.base["detype_all"])
                out["detype_all_nonstr"] = sorted(repr(k) for k, v in d.items()
                                                  if not (isinstance(k, str) and isinstance(v, str)))[:5]
            except Exception as e:  # noqa: BLE001
                out["detype_all_exc"] = "%s: %s" % (type(e).__name__, str(e)[:200])
            try:
                ks = list(env)
                out["iter"] = sorted(k for k in set(ks) if k in POOL)
                out["iter_dups"] = len(ks) != len(set(ks))
                out["iter_foreign_ok"] = {k for k in ks if k not in POOL} == self.base["iter"]
            except Exception as e:  # noqa: BLE001
                out["iter_exc"] = "%s: %s" % (type(e).__name__, str(e)[:200])
            per = {}
            for k in KEYS:
                o = {}
                try:
                    o["item"] = ["ok", canon(env[k])]
                except KeyError:
                    o["item"] = ["KeyError"]
                except Exception as e:  # noqa: BLE001
                    o["item"] = ["exc", type(e).__name__]
                try:
                    o["in"] = k in env
                except Exception as e:  # noqa: BLE001
                    o["in"] = "exc:" + type(e).__name__
                try:
                    g = env.get(k, _MISSING)
                    o["get"] = ["absent"] if g is _MISSING else ["ok", canon(g)]
                except Exception as e:  # noqa: BLE001
                    o["get"] = ["exc", type(e).__name__]
                per[k] = o
            out["keys"] = per
            c = getattr(env, "_detyped", None)
            out["cache_left"] = None if c is None else [id(c), {k: c[k] for k in KEYS if k in c}]
        return out


# ----------------------------------------------------------------------------------------
# comparison of one actor's observation with a model's views


def compare(obs, views, raw_detype_excused=False):
    """-> (problems [(key, view-name, text)], weak count).  key None = not tied to a pool variable."""
    probs = []
    weak = 0
    for name in ("detype_exc", "detype_all_exc", "iter_exc"):
        if name in obs:
            probs.append((None, name, "%s: %s" % (name, obs[name])))
    for name in ("detype_nonstr", "detype_all_nonstr"):
        if obs.get(name):
            probs.append((None, name, "non-str entries in the mapping children receive: %s" % obs[name]))
    for name, what in (("detype_foreign_ok", "detype()"), ("detype_all_foreign_ok", "detype_all()"),
                       ("iter_foreign_ok", "iteration")):
        if obs.get(name) is False:
            probs.append((None, name, "%s changed for variables outside the pool" % what))
    if obs.get("iter_dups"):
        probs.append((None, "iter_dups", "iteration yields a key twice"))
    dt = obs.get("detype")
    da = obs.get("detype_all")
    it = obs.get("iter")
    per = obs.get("keys")
    for k in KEYS:
        vw = views[k]
        if vw is ANY:
            continue
        if vw is ABSENT:
            if per is not None:
                o = per[k]
                if o["item"] != ["KeyError"]:
                    probs.append((k, "item", "env[%r] gave %r, model: KeyError (absent)" % (k, o["item"])))
                if o["in"] is not False:
                    probs.append((k, "in", "%r in env is %r, model: False" % (k, o["in"])))
                if o["get"] != ["absent"]:
                    probs.append((k, "get", "env.get(%r) gave %r, model: the default argument" % (k, o["get"])))
            if it is not None and k in it:
                probs.append((k, "iter", "%r is yielded by iteration, model: absent" % k))
            if dt is not None and k in dt and not raw_detype_excused:
                probs.append((k, "detype", "detype() exports %s=%r, model: not exported (absent)" % (k, dt[k])))
            if da is not None and k in da:
                probs.append((k, "detype_all", "detype_all() has %s=%r, model: absent" % (k, da[k])))
            continue
        _, v, explicit, via_ov = vw
        cv = canon(v)
        if per is not None:
            o = per[k]
            if o["item"] != ["ok", cv]:
                probs.append((k, "item", "env[%r] gave %r, model: %r" % (k, o["item"], cv)))
            if o["in"] is not True:
                probs.append((k, "in", "%r in env is %r, model: True" % (k, o["in"])))
            if o["get"] != ["ok", cv]:
                probs.append((k, "get", "env.get(%r) gave %r, model: %r" % (k, o["get"], cv)))
        if it is not None and k not in it:
            if via_ov:
                weak += 1
            else:
                probs.append((k, "iter", "%r is not yielded by iteration, model: present" % k))
        want = ref_detype(k, v)
        if dt is not None and not raw_detype_excused:
            if explicit and dt.get(k) != want:
                probs.append((k, "detype", "detype()[%r] is %r, model: %r" % (k, dt.get(k), want)))
            if not explicit and k in dt:
                probs.append((k, "detype", "detype() exports %s=%r, model: only a default, not exported"
                              % (k, dt[k])))
        if da is not None and da.get(k) != want:
            probs.append((k, "detype_all", "detype_all()[%r] is %r, model: %r" % (k, da.get(k), want)))
    return probs, weak


def fingerprint(obs, raw):
    """Per-key snapshot of everything one actor sees (used for the before/after-scope comparison)."""
    fp = {}
    for k in KEYS:
        o = obs["keys"][k]
        fp[k] = (json.dumps(o["item"]), o["in"], json.dumps(o["get"]), k in obs.get("iter", ()),
                 None if raw else obs.get("detype", {}).get(k), obs.get("detype_all", {}).get(k))
    return fp


# ----------------------------------------------------------------------------------------
# one history

_state = {}


def _setup(scratch):
    if _state:
        return _state
    from vlib import session

    session.get_execer()
    _state["scratch"] = scratch
    return _state


class History:
    """Runs operations against a fresh Env with three actor threads; raises Mismatch on the first
    disagreement that is not a tolerated open finding."""

    def __init__(self, open_ids=(), cfg=None):
        from vlib import session

        self.open_ids = set(open_ids)
        self.cfg = dict(cfg or {"cache": "reset"})
        self.raw = self.cfg.get("cache") == "raw"
        self.ops = []
        self.labels = set()
        self.nontrivial = False
        self.tolerated = {}
        self.weak = 0
        self.steps = 0
        self.actors = []
        XSH = session.load_session(_state["scratch"], **{k: (list(v) if isinstance(v, list) else v)
                                                        for k, v in INIT_GLOBAL.items()})
        env = self.env = XSH.env
        # generator self-check: the pool is what the model assumes
        for k, dv in DEFAULTS.items():
            var = env._vars.get(k)
            if var is None or var.default != dv or callable(var.default):
                raise common.HarnessError("pool variable %s is not registered with plain default %r" % (k, dv))
            twin = SYNC.get(k) or {v: x for x, v in SYNC.items()}.get(k)
            if (getattr(var, "sync", None) or None) != twin:
                raise common.HarnessError("pool variable %s: sync twin is %r, model says %r" % (k, var.sync, twin))
            if bool(getattr(var, "deprecated", False)) != (k in READONLY):
                raise common.HarnessError("pool variable %s: deprecation differs from the model" % k)
        for k in KEYS:
            if k not in DEFAULTS and k in env._vars:
                raise common.HarnessError("pool variable %s is unexpectedly registered" % k)
            if (k in env._d) != (k in INIT_GLOBAL):
                raise common.HarnessError("pool variable %s: initial set-ness differs from the model" % k)
        if self.cfg.get("registry", "small") != "full":
            # Env.deregister (public API): drop registered variables that play no part here, so that the
            # three whole-environment views (iteration, detype, detype_all) cost microseconds, not
            # milliseconds; one history in eight keeps the complete registry
            from xonsh.environ import VarPattern

            for name in list(env._vars):
                var = env._vars[name]
                if name in POOL or name in env._d or name in ("__THREAD_LOCAL__", "UPDATE_OS_ENVIRON") \
                        or isinstance(var.default, VarPattern):
                    continue
                env.deregister(name)
        # materialise callable defaults once so that the foreign part of every view is constant
        env.detype_all()
        env._detyped = None
        d, da = env.detype(), env.detype_all()
        self.base = {"detype": {k: v for k, v in d.items() if k not in POOL},
                     "detype_all": {k: v for k, v in da.items() if k not in POOL},
                     "iter": {k for k in env if k not in POOL}}
        env._detyped = None
        self.im = Ideal(INIT_GLOBAL)
        self.am = AsBuilt(INIT_GLOBAL)
        self.depth = [0] * N_ACTORS
        self.frames = [[] for _ in range(N_ACTORS)]   # per actor: [{'snap': fp, 'written': set, 'keys': set}]
        self.cache_owner = None                       # (id of the cached mapping, actor whose call made it, its pool part)
        self.last_fp = [None] * N_ACTORS
        self.pending_snap = None
        self.forked = [None] * N_ACTORS
        try:
            self.actors = [Actor(env, i, self.base) for i in range(N_ACTORS)]
            self.observe_all(0, {"op": "init"})
        except BaseException:
            self.close()
            raise

    def close(self):
        for a in self.actors:
            try:
                a.quit()
            except Exception:  # noqa: BLE001
                pass
        self.actors = []

    # -- failure plumbing ------------------------------------------------------------------
    def case(self):
        return {"cfg": dict(self.cfg), "ops": list(self.ops)}

    def bad(self, kind, detail, finding=None, bucket=None):
        raise Mismatch(Failure(kind, self.case(), detail, finding=finding, bucket=bucket or finding or kind))

    def settle(self, kind, detail, fids, bucket=None):
        """fids: finding ids that explain the disagreement completely ([] / None = unexplained)."""
        fids = [f for f in (fids or []) if f]
        if fids and all(f in self.open_ids for f in fids):
            for f in set(fids):
                self.tolerated[f] = self.tolerated.get(f, 0) + 1
            return
        fid = None
        for f in fids:
            if f not in self.open_ids:
                fid = f
                break
        self.bad(kind, detail, finding=fid, bucket=bucket)

    # -- admissibility (generation only; replays execute what they contain) -------------------
    def admissible(self, op):
        """-> (ok, finding id whose shape was avoided | None)"""
        kind = op["op"]
        a = op.get("a", 0)
        if kind == "enter":
            if self.depth[a] >= MAX_DEPTH:
                return False, None
            d = op.get("d") or []
            kw = list(op.get("kw") or [])
            if op.get("alias") is not None:
                if self.im.view(a, "__ALIAS_STACK") is ANY or any(k == "__ALIAS_STACK" for k, _ in kw):
                    return False, None
                kw = kw + [["__ALIAS_STACK", ""]]
            if any(k in READONLY for k, _ in list(d) + kw):
                return False, None
            if any(k in SYNC and self.im.unconstrained(a, SYNC[k]) for k, _ in list(d) + kw):
                return False, None
            if any(dec(v) is BAD for _, v in list(d) + kw) and F4 in self.open_ids:
                return False, F4
            if F8 in self.open_ids and any(
                    k in SYNC and dec(v) is not MASK and self.am._capture(self.am.T[a], k)[0] in (NI, MASK)
                    for k, v in list(d) + kw):
                return False, F8
            if {k for k, _ in d} & {k for k, _ in kw} and F5 in self.open_ids:
                return False, F5
            return True, None
        if kind == "exit":
            return self.depth[a] > 0, None
        if kind in ("set", "del"):
            k = op["k"]
            if k in READONLY or self.im.unconstrained(a, k) or \
                    (k in SYNC and self.im.unconstrained(a, SYNC[k])):
                return False, None
            own = self.im.owner(a, k)
            deleting = kind == "del" or dec(op["v"]) is MASK
            if own is not None and deleting:
                if isinstance(own, IThread):
                    return False, None          # inherited values are not deleted (assumption)
                if F6 in self.open_ids and self.am.would_raise_on_exit(a, k):
                    return False, F6
            return True, None
        if kind in ("ovset", "ovdel"):
            return self.im.top_overlay(a) is not None, None
        if kind in ("spawn", "fork"):
            frm = op.get("from")
            if kind == "fork" and frm is None:
                return False, None
            return self.depth[a] == 0 and frm != a, None
        if kind == "start":
            return self.depth[a] == 0 and self.forked[a] is not None, None
        return False, None

    # -- execution -------------------------------------------------------------------------
    def step(self, op):
        kind = op["op"]
        a = op.get("a", 0)
        act = self.actors[a]
        self.ops.append(op)
        self.steps += 1
        self.labels.add("op:" + kind)
        im, am = self.im, self.am
        if kind == "enter":
            d = None if op.get("d") is None else [(k, dec(v)) for k, v in op["d"]]
            kw = [(k, dec(v)) for k, v in (op.get("kw") or [])]
            ov = None if op.get("ov") is None else [(k, dec(v)) for k, v in op["ov"]]
            alias = op.get("alias")
            kw_i, kw_a = list(kw), list(kw)
            if alias is not None:
                vi, va = im.view(a, "__ALIAS_STACK"), am.view(a, "__ALIAS_STACK")
                kw_i.append(("__ALIAS_STACK", (vi[1] if vi[0] == "present" else "") + ":" + alias))
                kw_a.append(("__ALIAS_STACK", (va[1] if va[0] == "present" else "") + ":" + alias))
            snap = self.last_fp[a]
            want = im.enter(a, d, kw_i, ov)
            twin = am.enter(a, d, kw_a, ov)
            got = act.call("enter", d, kw, ov, alias)
            touched = {k for k, _ in (d or [])} | {k for k, _ in kw_i} | {k for k, _ in (ov or [])}
            touched |= {SYNC[k] for k in touched if k in SYNC}
            self._result(op, got, want, twin, touched)
            if got[0] == "entered":
                self.depth[a] += 1
                self.frames[a].append({"snap": snap, "written": set(), "keys": touched})
                self._label_enter(a, d, kw, ov, alias, touched)
        elif kind == "exit":
            how = op["how"]
            want = im.exit(a, how)
            twin = am.exit(a, how)
            got = act.call("exit", how)
            fr = self.frames[a].pop()
            self.depth[a] -= 1
            self._result(op, got, want, twin, fr["keys"])
            self.labels.add("exit:" + how)
            self.pending_snap = (a, fr)
        elif kind in ("set", "del"):
            k = op["k"]
            v = dec(op["v"]) if kind == "set" else None
            own = im.owner(a, k)
            if kind == "set":
                want, twin = im.set(a, k, v), am.set(a, k, v)
                got = act.call("set", k, v)
            else:
                want, twin = im.delete(a, k), am.delete(a, k)
                got = act.call("del", k)
            self._result(op, got, want, twin, {k})
            for frs in self.frames:
                for fr in frs:
                    fr["written"].add(k)
                    if k in SYNC:
                        fr["written"].add(SYNC[k])
            self.labels.add("plain-%s:%s" % (kind, "own-swapped-key" if own is not None else
                                             ("inside-scope" if self.depth[a] else "outside-scope")))
            if own is None and any(im.owner(u, k) is not None for u in range(N_ACTORS) if u != a):
                self.labels.add("plain-write-while-another-thread-has-it-swapped")
        elif kind in ("ovset", "ovdel"):
            k = op["k"]
            if kind == "ovset":
                v = dec(op["v"])
                im.ovset(a, k, v)
                am.ovset(a, k, v)
                got = act.call("ovset", k, v)
            else:
                im.ovdel(a, k)
                am.ovdel(a, k)
                got = act.call("ovdel", k)
            if got != ("ok",):
                raise common.HarnessError("overlay mutation failed in the harness: %r" % (got,))
            for fr in self.frames[a]:
                fr["written"].add(k)
        elif kind in ("spawn", "fork", "start"):
            # fork  = the parent-side half of ProcProxyThread/PopenThread.__init__ (get_swapped_values);
            # start = the child-side half, run() (set_swapped_values), possibly many steps later;
            # spawn = both at once
            frm = op.get("from")
            if kind in ("spawn", "fork"):
                self.forked[a] = None
                if frm is not None:
                    r = self.actors[frm].call("getswapped")
                    if r[0] != "vals":
                        self.bad("handover-failed", "get_swapped_values() in actor %d: %r" % (frm, r))
                    # the object is kept as returned, like ProcProxyThread.original_swapped_values
                    self.forked[a] = (r[1], im.snapshot(frm), am.snapshot(frm), frm)
                    if self.depth[frm] > 0:
                        self.labels.add("spawn:inherit-from-inside-scope")
            if kind in ("spawn", "start"):
                fk = self.forked[a]
                self.forked[a] = None
                self.actors[a].quit()
                self.actors[a] = Actor(self.env, a, self.base, init_vals=None if fk is None else fk[0])
                im.start(a, None if fk is None else fk[1])
                am.start(a, None if fk is None else fk[2])
                self.last_fp[a] = None
                if kind == "start":
                    self.labels.add("start-after-fork")
                    if self.im.snapshot(fk[3]) != fk[1]:
                        self.labels.add("start-after-parent-changed")
                frm = None if fk is None else fk[3]
            if kind == "fork":
                self._note_nontrivial()
                self.observe_all(a, op)
                return
            if self.cache_owner is not None and self.cache_owner[1] == a:
                self.cache_owner = (self.cache_owner[0], -1, self.cache_owner[2])   # made by a thread that has ended
            self.labels.add("spawn:" + ("inherit" if frm is not None else "fresh"))
        else:
            raise common.HarnessError("unknown op %r" % (op,))
        self._note_nontrivial()
        self.observe_all(a, op)

    def _result(self, op, got, want, twin, keys):
        def same(x, y):
            return x[0] == y[0] and (len(y) < 2 or tuple(x[1:2]) == tuple(y[1:2]))

        if same(got, want):
            return
        if got[0] in ("actor-crashed", "error"):
            raise common.HarnessError("actor problem on %r: %r" % (op, got))
        fids = None
        if same(got, twin):
            fids = [self.am.taint.get(k) for k in keys if self.am.taint.get(k)] or None
            if got[0] == "exit-raised" and fids:
                fids = [F6] if F6 in fids else fids
        kind = {"enter-raised": "entry-raised", "exit-raised": "exit-raised", "exc": "operation-raised",
                "exited": "wrong-exit", "ok": "operation-did-not-raise",
                "entered": "entry-did-not-raise"}.get(got[0], "op-result")
        self.settle(kind, "%s answered %r, model: %r" % (json.dumps(op), got, want), fids[:1] if fids else None,
                    bucket="%s:%s" % (kind, op["op"]))

    def _label_enter(self, a, d, kw, ov, alias, touched):
        form = ("alias" if alias is not None else
                "+".join(x for x, on in (("dict", d is not None), ("kw", bool(kw)), ("overlay", ov is not None)) if on)
                or "empty")
        self.labels.add("enter:" + form)
        vals = [v for _, v in list(d or []) + list(kw)]
        if any(v is MASK for v in vals):
            self.labels.add("enter:swap-mask")
        if ov and any(v is MASK for _, v in ov):
            self.labels.add("enter:overlay-mask")
        self.labels.add("depth:%d" % self.depth[a])
        for k in touched:
            if POOL[k] == "path":
                self.labels.add("swap-envpath")
            if k in DEFAULTS and k not in self.im.G:
                self.labels.add("swap-defaulted-unset")
        if any(fr["keys"] & touched for fr in self.frames[a][:-1]):
            self.labels.add("nested-same-key")

    def _note_nontrivial(self):
        inside = sum(1 for x in self.depth if x > 0)
        if inside >= 2:
            self.nontrivial = True
            self.labels.add("nontrivial:two-actors-inside-scopes")
        for frs in self.frames:
            seen = set()
            for fr in frs:
                if fr["keys"] & seen:
                    self.nontrivial = True
                    self.labels.add("nontrivial:nested-on-same-key")
                seen |= fr["keys"]

    # -- observation -----------------------------------------------------------------------
    def observe_all(self, first, op):
        order = [(first + i) % N_ACTORS for i in range(N_ACTORS)]
        obs = {}
        foreign = {}

        def ask(a, phase, reset):
            r = self.actors[a].call("obs", phase, reset)
            if r[0] != "obs":
                raise common.HarnessError("observation failed: %r" % (r,))
            return r[1]

        if self.raw:
            # the cache is left alone for detype(): all actors call it back to back, the acting one first
            for a in order:
                o = obs[a] = ask(a, "detype", False)
                co = self.cache_owner
                if o.get("populated"):
                    self.cache_owner = (o["result_id"], a, dict(o.get("detype", {})))
                elif o.get("hit") and co is not None and co[0] == o["result_id"] and co[1] != a \
                        and o.get("detype") == co[2]:
                    foreign[a] = co[1]      # the mapping is the very object another thread's call cached
            for a in order:
                o = ask(a, "rest", False)
                obs[a].update(o)
                if o.get("cache_left"):
                    self.cache_owner = (o["cache_left"][0], a, o["cache_left"][1])
                else:
                    self.cache_owner = None
        else:
            for a in order:
                obs[a] = ask(a, "all", True)
        for a in order:
            o = obs[a]
            excused = a in foreign       # that mapping says nothing about this actor's own view
            if excused:
                p0, _ = compare({"detype": o["detype"]}, self.im.views(a))
                if p0:
                    self.labels.add("raw-cache:foreign-mapping-returned")
                    self.settle("detype-cache-leak",
                                "after %s: actor %d's detype() returned the mapping cached by the call of %s: %s"
                                % (json.dumps(op), a, "actor %d" % foreign[a] if foreign[a] >= 0 else
                                   "a thread that has ended", p0[0][2]), [F7], bucket=F7)
            probs, weak = compare(o, self.im.views(a), raw_detype_excused=excused)
            self.weak += weak
            if probs:
                self._classify(a, op, o, probs, excused)
        for a in order:
            self.last_fp[a] = fingerprint(obs[a], self.raw)
        # model-independent: snapshot before the scope == snapshot after it, for keys nobody assigned
        ps = getattr(self, "pending_snap", None)
        self.pending_snap = None
        if ps is not None and ps[1]["snap"] is not None:
            a, fr = ps
            now = self.last_fp[a]
            diff = [k for k in KEYS if k not in fr["written"] and now[k] != fr["snap"][k]
                    and self.im.view(a, k) is not ANY]
            if diff:
                k = diff[0]
                fids = [self.am.taint.get(x) for x in diff]
                self.settle("not-restored",
                            "after %s: actor %d's view of %s is %r, before the scope it was %r and nobody assigned it "
                            "meanwhile" % (json.dumps(op), a, k, now[k], fr["snap"][k]),
                            fids if all(fids) else None, bucket="not-restored")

    def _classify(self, a, op, o, probs, excused):
        """The reference model disagrees.  Tolerable only if the as-built twin agrees with xonsh on this
        actor's whole observation and every disputed variable carries the taint of a recorded mechanism."""
        aprobs, _ = compare(o, self.am.views(a), raw_detype_excused=excused)
        fids = None
        if not aprobs:
            fids = [self.am.taint.get(k) if k is not None else None for k, _, _ in probs]
            if not all(fids):
                fids = None
        k, vname, text = probs[0]
        others = len({p[0] for p in probs}) - 1
        kind = "view-differs" if k is not None else "foreign-or-shape"
        where = "inside" if self.depth[a] else "outside"
        leak = (op.get("a") != a and op.get("op") in ("enter", "exit", "ovset", "ovdel"))
        if leak:
            kind = "cross-thread-leak"
        self.settle(kind, "after %s: actor %d (%s scopes) %s%s" % (
            json.dumps(op), a, where, text, " (+%d more variables)" % others if others else ""),
            fids, bucket="%s:%s:%s" % (kind, vname, op.get("op")))


def check_history(case, open_ids=()):
    """Re-execute {'cfg':..., 'ops': [...]} without Hypothesis.  -> Failure | None"""
    h = None
    try:
        try:
            h = History(open_ids, case.get("cfg"))
            for op in case["ops"]:
                ok, _ = h.admissible(op)
                if not ok and not _replayable(h, op):
                    continue
                h.step(op)
        except Mismatch as e:
            return e.failure
    finally:
        if h is not None:
            h.close()
    return None


def _replayable(h, op):
    """A replay may contain the shapes generation avoids for open findings; it may not contain
    operations that are impossible in the current state (no scope to leave, ...)."""
    saved = h.open_ids
    h.open_ids = set()
    try:
        return h.admissible(op)[0]
    finally:
        h.open_ids = saved


def minimize_ops(failure, open_ids=()):
    """Greedy one-at-a-time removal of operations while the same bucket still fails."""
    best = failure
    cfg = failure.case.get("cfg")
    ops = list(failure.case["ops"])
    changed = True
    rounds = 0
    while changed and rounds < 6:
        changed = False
        rounds += 1
        i = len(ops) - 1
        while i >= 0:
            trial = ops[:i] + ops[i + 1:]
            g = check_history({"cfg": cfg, "ops": trial}, open_ids)
            if g is not None and g.bucket == failure.bucket and g.kind == failure.kind and \
                    len(g.case["ops"]) <= len(trial):
                ops = list(g.case["ops"])
                best = g
                changed = True
                i = min(i, len(ops))
            i -= 1
    return best


# ----------------------------------------------------------------------------------------
# Hypothesis state machine

_ctx = {}


def value_strategy(st, k, masks=True, bad=False):
    t = POOL[k]
    if t == "str":
        base = st.sampled_from(["a", "b", "c", "", "x y"])
    elif t == "path":
        base = st.sampled_from([["/p"], ["/p", "/q"], [], ["/r", "/p"]])
    elif t == "bool":
        base = st.booleans()
    else:
        base = st.integers(0, 9)
    alts = [base, base]
    if masks:
        alts.append(st.just({"del": 1}))
    if bad and t == "int":
        alts.append(st.just({"bad": 1}))
    return st.one_of(*alts)


def make_machine():
    from hypothesis import strategies as st
    from hypothesis.stateful import RuleBasedStateMachine, initialize, rule

    actors = st.integers(0, N_ACTORS - 1)
    # a skewed key distribution makes overlapping keys (nesting, cross-thread) the common case
    keys = st.sampled_from([k for k in KEYS if k not in READONLY] + ["VA", "VB", "VB", "XPATH", "AUTO_CD", "VA"])

    @st.composite
    def pairs(draw, max_size=3, masks=True, bad=False):
        ks = draw(st.lists(keys, max_size=max_size, unique=True))
        return [[k, draw(value_strategy(st, k, masks, bad))] for k in ks]

    @st.composite
    def kv(draw, masks=True):
        k = draw(keys)
        return k, draw(value_strategy(st, k, masks))

    class SwapMachine(RuleBasedStateMachine):
        def __init__(self):
            super().__init__()
            self.h = None

        @initialize(cache=st.sampled_from(["reset", "reset", "reset", "raw"]),
                    registry=st.sampled_from(["small"] * 7 + ["full"]))
        def start(self, cache, registry):
            try:
                self.h = History(_ctx["open_ids"], {"cache": cache, "registry": registry})
            except Mismatch:
                _ctx["failed"] = True
                raise

        def teardown(self):
            h = self.h
            if h is None:
                return
            h.close()
            stats = _ctx["stats"]
            if _ctx.get("failed") or not h.ops:
                return
            stats.case(("history", json.dumps(h.case(), sort_keys=True)), h.nontrivial,
                       ["history", "cache:" + h.cfg["cache"], "registry:" + h.cfg.get("registry", "small")]
                       + (["history-nontrivial"] if h.nontrivial else []),
                       sample=({"cfg": h.cfg, "ops": h.ops[:12], "of": len(h.ops)} if h.nontrivial else None),
                       max_per_label=2)
            stats.hist["steps"] += h.steps
            stats.hist["actor-observations"] += (h.steps + 1) * N_ACTORS
            stats.hist["weak:overlay-key-missing-from-iteration"] += h.weak
            for lab in h.labels:
                stats.hist[lab] += 1
            for fid, n in h.tolerated.items():
                stats.excluded_known[fid] += 1
                stats.hist["tolerated-observations:" + fid] += n

        def do(self, op):
            h = self.h
            ok, avoided = h.admissible(op)
            if not ok:
                if avoided and not _ctx.get("failed"):
                    _ctx["stats"].excluded_known[avoided] += 1
                return
            try:
                h.step(op)
            except Mismatch:
                _ctx["failed"] = True
                raise

        @rule(a=actors, form=st.sampled_from(["kw", "kw", "dict", "dict", "both", "kw+ov", "dict+ov", "ov"]),
              p1=pairs(bad=True), p2=pairs(max_size=2, bad=True), ov=pairs(max_size=2))
        def enter(self, a, form, p1, p2, ov):
            op = {"op": "enter", "a": a, "d": None, "kw": [], "ov": None}
            if form in ("kw", "kw+ov"):
                op["kw"] = p1
            elif form in ("dict", "dict+ov"):
                op["d"] = p1
            elif form == "both":
                if F5 in _ctx["open_ids"]:
                    both = {k for k, _ in p1}
                    if any(k in both for k, _ in p2) and not _ctx.get("failed"):
                        _ctx["stats"].excluded_known[F5] += 1
                    p2 = [x for x in p2 if x[0] not in both]
                op["d"], op["kw"] = p1, p2
            if form.endswith("ov"):
                op["ov"] = ov
            self.do(op)

        @rule(a=actors, p=pairs(max_size=2), name=st.sampled_from(["al", "be"]))
        def enter_alias(self, a, p, name):
            p = [x for x in p if x[0] != "__ALIAS_STACK"]
            self.do({"op": "enter", "a": a, "d": p, "kw": [], "ov": [], "alias": name})

        @rule(a=actors, how=st.sampled_from(["return", "return", "raise", "raise", "base"]))
        def exit(self, a, how):
            self.do({"op": "exit", "a": a, "how": how})

        @rule(a=actors, how=st.sampled_from(["return", "raise"]))
        def exit_again(self, a, how):
            self.do({"op": "exit", "a": a, "how": how})

        @rule(a=actors, how=st.sampled_from(["return", "raise", "base"]))
        def unwind(self, a, how):
            while self.h.depth[a] > 0:
                self.do({"op": "exit", "a": a, "how": how})

        @rule(a=actors, x=kv())
        def plain_set(self, a, x):
            self.do({"op": "set", "a": a, "k": x[0], "v": x[1]})

        @rule(a=actors, k=keys)
        def plain_del(self, a, k):
            self.do({"op": "del", "a": a, "k": k})

        @rule(a=actors, x=kv())
        def overlay_set(self, a, x):
            self.do({"op": "ovset", "a": a, "k": x[0], "v": x[1]})

        @rule(a=actors, k=keys)
        def overlay_del(self, a, k):
            self.do({"op": "ovdel", "a": a, "k": k})

        @rule(a=actors, frm=st.one_of(st.none(), actors, actors))
        def spawn(self, a, frm):
            self.do({"op": "spawn", "a": a, "from": frm})

        @rule(a=actors, frm=actors)
        def fork(self, a, frm):
            self.do({"op": "fork", "a": a, "from": frm})

        @rule(a=actors)
        def start_forked(self, a):
            self.do({"op": "start", "a": a})

        @rule(a=actors, frm=actors, how=st.sampled_from(["return", "raise"]), p=pairs(max_size=2))
        def handover_race(self, a, frm, how, p):
            # a proxy thread is created inside a scope and starts running after its creator left the scope
            self.do({"op": "enter", "a": frm, "d": p, "kw": [], "ov": None})
            self.do({"op": "fork", "a": a, "from": frm})
            self.do({"op": "exit", "a": frm, "how": how})
            self.do({"op": "start", "a": a})

    return SwapMachine


def worker_machine(arg):
    seed, n_examples, steps, scratch, open_ids = arg
    _setup(scratch)
    stats = Stats()
    _ctx.clear()
    _ctx.update(open_ids=set(open_ids), stats=stats, failed=False)
    exc = common.run_machine(make_machine(), seed, n_examples, steps, shrink=True, shrink_seconds=20)
    f = common.machine_failure(exc, "C11 swap machine")
    if f is not None:
        g = check_history(f.case, open_ids)
        if g is None:
            stats.notes.append("shrunk history did not fail again on replay (kept the original failure): %s"
                               % json.dumps(f.case)[:300])
            stats.fail(f)
        else:
            stats.fail(minimize_ops(g, open_ids))
    return stats


# ----------------------------------------------------------------------------------------
# a small fixed family: every enter form x every exit kind on every kind of variable, alone and nested
# under a mask / an overlay, seen from a second thread (cheap, deterministic, independent of the seed)


def fixed_cases():
    vals = {"VA": "a", "VB": "b", "XPATH": ["/p", "/q"], "YPATH": ["/p"], "AUTO_CD": True,
            "COMPLETIONS_MENU_ROWS": 7, "INDENT": "", "XONSH_SHOW_TRACEBACK": True, "VC": "c",
            "__ALIAS_STACK": "x", "XONSH_SUBPROC_CMD_RAISE_ERROR": True}
    for cache in ("reset", "raw"):
        for k in vals:
            for v in (vals[k], {"del": 1}):
                for how in ("return", "raise", "base"):
                    for form in ("kw", "dict", "ov"):
                        ent = {"op": "enter", "a": 0, "d": None, "kw": [], "ov": None}
                        ent[{"kw": "kw", "dict": "d", "ov": "ov"}[form]] = [[k, v]]
                        yield {"cfg": {"cache": cache}, "ops": [ent, {"op": "exit", "a": 0, "how": how}]}
                    # nested on the same key under a mask, with a second actor inside its own scope
                    yield {"cfg": {"cache": cache}, "ops": [
                        {"op": "enter", "a": 1, "d": None, "kw": [[k, vals[k]]], "ov": None},
                        {"op": "enter", "a": 0, "d": [[k, {"del": 1}]], "kw": [], "ov": None},
                        {"op": "enter", "a": 0, "d": None, "kw": [[k, v]], "ov": None},
                        {"op": "spawn", "a": 2, "from": 0},
                        {"op": "exit", "a": 0, "how": how},
                        {"op": "exit", "a": 1, "how": "return"},
                        {"op": "exit", "a": 0, "how": how},
                    ]}


def worker_fixed(arg):
    shard, nshards, scratch, open_ids = arg
    _setup(scratch)
    stats = Stats()
    for i, case in enumerate(fixed_cases()):
        if i % nshards != shard:
            continue
        h = None
        try:
            h = History(open_ids, case["cfg"])
            try:
                for op in case["ops"]:
                    ok, avoided = h.admissible(op)
                    if not ok:
                        if avoided:
                            stats.excluded_known[avoided] += 1
                        continue
                    h.step(op)
            except Mismatch as e:
                stats.fail(e.failure)
                continue
            stats.case(("fixed", json.dumps(case, sort_keys=True)), h.nontrivial, ["fixed-family"], sample=None)
            stats.hist["steps"] += h.steps
            for fid, n in h.tolerated.items():
                stats.excluded_known[fid] += 1
                stats.hist["tolerated-observations:" + fid] += n
        finally:
            if h is not None:
                h.close()
    return stats


# ----------------------------------------------------------------------------------------


def main(run):
    _setup(run.scratch)
    common.replay_tier(run, lambda case: check_history(case, ()))
    open_ids = sorted(run.known_open)
    nw = 8 if run.tier == "quick" else 16
    common.pool_map(run, __name__, "worker_fixed", [(i, nw, os.path.join(run.scratch, "f%d" % i), open_ids)
                                                    for i in range(nw)], procs=nw)
    total = run.n(1600, 60000)
    steps = run.n(40, 60)
    per = total // nw
    common.pool_map(run, __name__, "worker_machine",
                    [(common.worker_seed(run.seed, w), per, steps, os.path.join(run.scratch, "w%d" % w), open_ids)
                     for w in range(nw)], procs=nw)
    h = run.stats.hist
    nsteps = h.get("steps", 0)
    run.extra["steps_executed"] = nsteps
    run.extra["weak_class_overlay_key_missing_from_iteration"] = h.get("weak:overlay-key-missing-from-iteration", 0)
    if not run.stats.failures:
        nh = h.get("history", 0)
        floors = [("history-nontrivial", nh // 3), ("nontrivial:nested-on-same-key", nh // 5),
                  ("nontrivial:two-actors-inside-scopes", nh // 5), ("exit:raise", nh // 5), ("exit:base", nh // 10),
                  ("exit:return", nh // 5), ("enter:swap-mask", nh // 5), ("enter:overlay-mask", nh // 20),
                  ("enter:alias", nh // 10), ("swap-envpath", nh // 5), ("swap-defaulted-unset", nh // 5),
                  ("spawn:inherit-from-inside-scope", nh // 20), ("plain-set:inside-scope", nh // 8),
                  ("plain-del:inside-scope", nh // 10), ("op:ovset", nh // 10), ("depth:3", nh // 20),
                  ("plain-write-while-another-thread-has-it-swapped", nh // 20), ("cache:raw", nh // 10),
                  ("start-after-parent-changed", nh // 20), ("plain-set:own-swapped-key", nh // 40),
                  ("registry:full", nh // 20)]
        low = ["%s=%d<%d" % (k, h.get(k, 0), v) for k, v in floors if h.get(k, 0) < v]
        if low:
            raise common.HarnessError("generator incomplete, under the floor: " + ", ".join(low))
    run.assumptions += [
        "the schedule is owned by the harness: actors run one operation at a time in lock-step, so truly "
        "simultaneous execution of two Env methods (data races inside one method) is not explored",
        "overlays shadow swapped and global values (docstring of Env.swap), also for a swap entered inside the "
        "overlay's scope; overlays are not inherited by a spawned thread (ProcProxyThread creates its own)",
        "an unmasked key visible only through an overlay may be missing from iteration (weaker class, counted, "
        "never a violation); a variable assigned by another thread while this thread had it swapped may afterwards "
        "show either value in this thread (two readings of 'exactly as before')",
        "after `del` of the swapped variable inside its scope the thread's view of that variable is unconstrained "
        "until the scope ends, and the thread does not assign it again before that; inherited (handed-over) values "
        "are not deleted by the child",
        "values have the variable's type (no string-to-type conversion except list -> EnvPath); variables with "
        "callable defaults, `sync` twins or deprecation are not in the pool; $UPDATE_OS_ENVIRON is False",
        "C11-F7 is avoided in 3 of 4 histories by resetting Env._detyped before each observed detype(); "
        "detype_all() is always observed with a reset cache",
    ]


def replay(run, path):
    with open(path) as f:
        d = json.load(f)
    case = d.get("case", d)
    _setup(run.scratch)
    f = check_history(case, ())
    if f is None:
        print("replay: property holds on this case")
        return 0
    print("VIOLATION property=%s replay=%s kind=%s %s" % (PROP, path, f.kind, common._oneline(f.detail)))
    return 1

"""Value domain of C10 (typed environment round trip).

Every typed value is described by a JSON-able *spec* (so that a failing case can be replayed
without Hypothesis); `decode` turns a spec into the real Python object handed to xonsh.  The
reference string forms (`ref_detype`) and the reference conversions (`ref_convert`) are written
from the documentation of the variable types (docs/env.rst, docs/envvars, the docstrings of the
settings), not by calling xonsh.tools.

kind       typed values                                   string form handed to children
---------  ---------------------------------------------  -----------------------------------------
bool       True / False                                   '1' / ''
bool_or_none  True / False / None                         '1' / '' / 'None'
debug      bool or int                                    bool as above, int as decimal
int, shlvl int                                            decimal
float      float (no NaN)                                 repr
str ...    str                                            itself
envpath    list of str / pathlib.Path entries             entries joined by os.pathsep, ~ expanded
upper_seq  list of upper-case str                         joined by os.pathsep
strset     set of str                                     comma separated (any order)
histsize   (number, 'commands'|'files'|'s'|'b')           '<number> <unit>'
dyncwd     (float, 'c'|'%')                               '<float>' or '<float>%'
logfile    None / '' / path string                        '' / path
abspath    None / pathlib.Path                            '' / absolute path
untyped    (unregistered name) str, int, float, bool,     str(value)
           pathlib.Path, list
opaque     anything (variable registered as not           absent
           exportable)
"""

from __future__ import annotations

import os
import pathlib

ABSENT = ("absent",)          # the variable must not be in the child's environment
UNSPEC = ("unspecified",)     # the string form is not pinned by the documentation; only round trip is checked
OPTIONAL = ("optional",)      # either omitted (no string form) or any string that survives the round trip

FALSES = frozenset(["", "0", "n", "f", "no", "none", "false", "off"])

MUTABLE_KINDS = ("envpath", "strset", "lscolors", "tokdict", "pylist")


# ----------------------------------------------------------------------------------------
# numbers in JSON


def enc_num(x):
    if isinstance(x, float) and (x != x or x in (float("inf"), float("-inf"))):
        return {"f": repr(x)}
    return x


def dec_num(x):
    if isinstance(x, dict) and "f" in x:
        return float(x["f"])
    return x


# ----------------------------------------------------------------------------------------
# kind of a variable, decided from what xonsh has registered for the name


def _fname(f):
    return None if f is None else getattr(f, "__name__", repr(f))


BY_VALIDATOR = {
    "is_bool": "bool",
    "is_bool_or_none": "bool_or_none",
    "is_int": "int",
    "is_float": "float",
    "is_string": "str",
    "is_string_or_callable": "str_or_callable",
    "is_env_path": "envpath",
    "is_nonstring_seq_of_strings": "upper_seq",
    "is_string_set": "strset",
    "is_history_tuple": "histsize",
    "is_dynamic_cwd_width": "dyncwd",
    "is_logfile_opt": "logfile",
    "is_regex": "regex",
    "is_history_backend": "backend",
    "is_completions_display_value": "compdisplay",
    "is_completion_mode": "compmode",
    "is_breakpoint_engine": "bpengine",
    "is_tok_color_dict": "tokdict",
    "is_lscolors": "lscolors",
    "is_var_pattern": "varpattern",
    "is_valid_shlvl": "shlvl",
    "callable": "opaque_callable",
}
BY_CONVERTER = {            # variables whose validator is always_false (converter runs on every assignment)
    "to_debug": "debug",
    "to_ptk_cursor_shape": "cursor",
    "lc_converter": "locale",
    "ptk2_color_depth_setter": "colordepth",
    "intensify_colors_on_win_setter": "intensify",
}
BY_NAME = {"XONSH_SUBPROC_TRACE": "trace"}
SIDE_EFFECT_KINDS = ("debug", "locale", "colordepth", "intensify")


def kind_of_var(name, var):
    """kind of a registered variable (xonsh.environ.Var)"""
    if name in BY_NAME:
        return BY_NAME[name]
    v, c, d = _fname(var.validate), _fname(var.convert), _fname(var.detype)
    if v == "is_path":
        return "abspath" if c == "str_to_abs_path" else "path"
    if v in BY_VALIDATOR:
        return BY_VALIDATOR[v]
    if v == "always_false" and c in BY_CONVERTER:
        return BY_CONVERTER[c]
    if v == "always_true":
        return "opaque" if var.detype is None else "anystr"
    return None


def kind_of(env, name):
    if name in env._vars:
        return kind_of_var(name, env._vars[name])
    v = _fname(env.get_validator(name))
    if v == "is_env_path":
        return "envpath"
    if v == "always_true":
        return "untyped"
    return None


KIND_OF_REGISTER_TYPE = {"bool": "bool", "str": "str", "int": "int", "float": "float", "env_path": "envpath",
                         "path": "path"}


# ----------------------------------------------------------------------------------------
# spec -> object


def _entry(e):
    if isinstance(e, dict) and "path" in e:
        return pathlib.Path(e["path"])
    return e


def verif_callable():       # a callable value (prompt function, tracer ...)
    return "verif"


class VerifBackend:         # a class value ($XONSH_HISTORY_BACKEND accepts a class)
    pass


def decode(kind, spec):
    """Fresh Python object for a spec."""
    if isinstance(spec, dict):
        if "callable" in spec:
            return verif_callable
        if "class" in spec:
            return VerifBackend
        if "mask" in spec:
            from xonsh.environ import DELETE_VAR

            return DELETE_VAR
        if "obj" in spec:
            return {"opaque-object": spec["obj"]}
        if "f" in spec:
            return float(spec["f"])
        if "path" in spec:
            return pathlib.Path(spec["path"])
        if "list" in spec:
            return list(spec["list"])
        if "raw" in spec:            # a string the converter must translate
            return spec["raw"]
    if kind == "envpath":
        from xonsh.environ import EnvPath

        return EnvPath([_entry(e) for e in spec])
    if kind == "upper_seq":
        return list(spec)
    if kind == "strset":
        return set(spec)
    if kind in ("histsize", "dyncwd"):
        return (dec_num(spec[0]), spec[1])
    if kind == "lscolors":
        from xonsh.environ import LsColors

        if "from" in spec:
            return LsColors.fromstring(spec["from"])
        return LsColors({k: (v if isinstance(v, str) else tuple(v)) for k, v in spec["map"].items()})
    if kind == "tokdict":
        if spec.get("keys") == "token":
            from pygments.token import string_to_tokentype

            return {string_to_tokentype(k): v for k, v in spec["d"].items()}
        return dict(spec["d"])
    if kind == "varpattern":
        if spec is None:
            return None
        from xonsh.environ import VarPattern

        return VarPattern(spec["varpattern"][0], spec["varpattern"][1], spec["varpattern"][2])
    return spec


# ----------------------------------------------------------------------------------------
# reference string forms


def expand_user(s, home):
    if s == "~":
        return home
    if s.startswith("~/"):
        return home + s[1:]
    return s


def _entry_str(e, home):
    if isinstance(e, dict):
        return expand_user(str(pathlib.PurePosixPath(e["path"])), home)
    return expand_user(e, home)


def _b(x):
    return "1" if x else ""


def ref_detype(kind, spec, home):
    """Reference string form of a typed value -> str | ABSENT | UNSPEC | ('set', frozenset)."""
    if isinstance(spec, dict) and ("callable" in spec or "class" in spec):
        return ABSENT               # untranslatable: must be omitted, not garbled
    if kind == "opaque":
        return ABSENT
    if kind in ("bool", "intensify"):
        return _b(spec)
    if kind == "bool_or_none":
        return "None" if spec is None else _b(spec)
    if kind == "debug":
        return _b(spec) if isinstance(spec, bool) else str(spec)
    if kind in ("int", "shlvl"):
        return str(spec)
    if kind == "float":
        return repr(float(dec_num(spec)))
    if kind in ("str", "str_or_callable", "regex", "backend", "compdisplay", "compmode", "bpengine", "colordepth"):
        return spec
    if kind == "envpath":
        return os.pathsep.join(_entry_str(e, home) for e in spec)
    if kind == "upper_seq":
        return os.pathsep.join(spec).upper()
    if kind == "strset":
        return ("set", frozenset(spec))
    if kind == "histsize":
        return "%s %s" % (dec_num(spec[0]), spec[1])
    if kind == "dyncwd":
        return repr(float(dec_num(spec[0]))) + ("%" if spec[1] == "%" else "")
    if kind == "logfile":
        return "" if spec is None else spec
    if kind in ("abspath", "path"):
        if spec is None:
            return ""
        p = spec["path"]
        if kind == "abspath" and not p.startswith("/"):
            p = os.path.join(os.getcwd(), p)
        return str(pathlib.PurePosixPath(p))
    if kind == "anystr":
        if spec is None:
            return ""
        return spec if isinstance(spec, str) else UNSPEC
    if kind == "varpattern":
        return OPTIONAL
    if kind == "tokdict":
        if spec.get("keys") == "token":
            return OPTIONAL if spec["d"] else ""
        return repr(dict(spec["d"])) if spec["d"] else ""
    if kind == "lscolors":
        # the colour-name <-> escape-code tables are xonsh's; the reference is a *fresh* object built from the
        # model (so caching / staleness of the environment is still decided independently)
        return decode(kind, spec).detype()
    if kind == "pylist":
        return repr(list(spec["list"]))
    if kind == "untyped":
        if isinstance(spec, dict):
            if "path" in spec:
                return str(pathlib.PurePosixPath(spec["path"]))
            if "list" in spec:
                return repr(list(spec["list"]))
            if "f" in spec:
                return repr(float(spec["f"]))
        if isinstance(spec, float):
            return repr(spec)
        return str(spec) if spec is not None else ""
    return UNSPEC


def same_string(ref, got):
    """Does the string xonsh produced agree with the reference form?"""
    if ref is UNSPEC:
        return isinstance(got, str)
    if ref is OPTIONAL:
        return got is None or isinstance(got, str)
    if ref is ABSENT:
        return got is None
    if not isinstance(got, str):
        return False
    if isinstance(ref, tuple) and ref[0] == "set":
        toks = got.split(",") if got else []
        return len(toks) == len(ref[1]) and frozenset(toks) == ref[1]
    return ref == got


def show_ref(ref):
    if ref is ABSENT:
        return "<absent>"
    if ref is UNSPEC:
        return "<any str>"
    if ref is OPTIONAL:
        return "<absent or any str>"
    if isinstance(ref, tuple) and ref[0] == "set":
        return "csv of %r" % (sorted(ref[1]),)
    return repr(ref)


def ref_convert(kind, raw):
    """What assigning the *string or number* `raw` to a variable of this kind means (documented converters).
    Returns a spec, or raises ValueError when the documentation does not define it."""
    if kind in ("untyped", "anystr"):
        return raw
    if kind == "bool":
        if isinstance(raw, str):
            return raw.lower() not in FALSES
        return bool(raw)
    if kind == "int":
        return int(raw)
    if kind == "float":
        return enc_num(float(raw))
    if kind == "str":
        return str(raw)
    if kind == "envpath":
        if isinstance(raw, str):
            return raw.split(os.pathsep) if raw else []
        return list(raw)
    if kind == "path":
        return {"path": raw} if raw else None
    raise ValueError(kind)


# ----------------------------------------------------------------------------------------
# equality of two typed values of one kind (parent's value, nested xonsh's value)


def _norm_env_path(v, home):
    return [expand_user(str(e), home) for e in v]


def equal(kind, a, b, home):
    try:
        if kind == "envpath":
            return _norm_env_path(a, home) == _norm_env_path(b, home)
        if kind in ("histsize", "dyncwd", "upper_seq"):
            return tuple(a) == tuple(b)
        if kind == "logfile":
            return (a or None) == (b or None)
        if kind in ("abspath", "path"):
            if a is None or b is None:
                return a is None and b is None
            return pathlib.Path(a).absolute() == pathlib.Path(b).absolute()
        if kind == "cursor":
            return type(a) is type(b) and (a == b or not hasattr(a, "value"))
        if kind == "lscolors":
            return dict(a) == dict(b) and all(a.is_target(k) == b.is_target(k) for k in a)
        if kind == "tokdict":
            return {str(k): v for k, v in a.items()} == {str(k): v for k, v in b.items()}
        if kind == "anystr":
            if a is None:
                return b in (None, "")
            if isinstance(a, bool):
                return bool(b) == a          # weakest reading: the nested shell takes the same branch
            return a == b
        if kind == "float":
            return isinstance(b, float) and a == b
        if kind in ("bool", "intensify"):
            return isinstance(b, bool) and a == b
        return a == b
    except Exception:  # noqa: BLE001
        return False


# ----------------------------------------------------------------------------------------
# value domain restrictions that are not expressed by the strategies' construction alone

MAX_EXACT_SECONDS = 2 ** 53     # every int up to here is exactly a float


def in_domain(kind, spec):
    """Is the spec a value real callers give to a variable of this kind?  (Used for saved cases; the strategies
    below never leave the domain.)"""
    if kind == "histsize" and spec[1] == "s":
        n = dec_num(spec[0])
        return not isinstance(n, int) or abs(n) <= MAX_EXACT_SECONDS
    return True


# ----------------------------------------------------------------------------------------
# strategies (Hypothesis), every one yields specs

TEXT_ALPHABET = "abcXYZ019 _-./:=~$'\"\\\t\n%{}[]()*?!#&|;<>,@^+éλ雪"
PATH_ENTRIES = ["/a", "/usr/local/bin", "/opt/x y/bin", "rel/dir", ".", "..", "", "~", "~/bin", "/ünï/cödé",
                "/a", "/b/c", {"path": "/p/q"}, {"path": "rel"}, {"path": "~/y"}, "/trailing/", "//dbl"]
LS_KEYS = ["di", "ln", "ex", "fi", "*.zip", "*.tar.gz", "or", "ow", "so"]
# colour values exactly as LsColors.default_settings spells them (arbitrary combinations of colour names have no
# canonical escape sequence: ('BOLD_RED', 'RESET') -> '1;31;0' reads back differently)
LS_VALUES = [["BOLD_RED"], ["CYAN"], ["BOLD_PURPLE"], ["BACKGROUND_BLACK", "YELLOW"], ["BLACK", "BACKGROUND_RED"],
             ["BOLD_BLUE"], ["BOLD_GREEN"], ["RESET"], ["BOLD_CYAN"], ["BACKGROUND_BLACK", "RED"],
             ["BLUE", "BACKGROUND_GREEN"], ["BLACK", "BACKGROUND_YELLOW"], ["WHITE", "BACKGROUND_BLUE"],
             ["WHITE", "BACKGROUND_RED"], ["BLACK", "BACKGROUND_GREEN"]]
TOK_NAMES = ["Token.Keyword", "Token.Literal.String", "Token.Name.Builtin", "Token.Comment", "Token.Operator"]
TOK_STYLES = ["#ff0000", "bold", "bg:#000000 italic", "underline #00ff00", "noinherit", "#abc"]
HIST_WORDS = ["ignoredups", "ignoreerr", "ignorespace", "erasedups", "x", "y z"]
CURSORS = ["block", "beam", "underline", "blinking-block", "blinking-beam", "blinking-underline", "modal",
           "modal-vi-mode-only"]
COLOR_DEPTHS = ["DEPTH_1_BIT", "MONOCHROME", "DEPTH_4_BIT", "ANSI_COLORS_ONLY", "DEPTH_8_BIT", "DEFAULT",
                "DEPTH_24_BIT", "TRUE_COLOR", ""]


def text(st, max_size=10):
    return st.text(alphabet=TEXT_ALPHABET, max_size=max_size)


def envpath_specs(st, max_size=5):
    return st.lists(st.sampled_from(PATH_ENTRIES), max_size=max_size).filter(lambda l: l != [""])


def ls_code(st):
    attr = st.sampled_from(["0", "1", "4", "5", "7"])
    fg = st.integers(30, 37).map(str)
    bg = st.integers(40, 47).map(str)
    hi = st.integers(90, 97).map(str)
    c256 = st.integers(0, 255).map(lambda n: "38;5;%d" % n)
    return st.one_of(attr, fg, bg, hi, c256, st.tuples(attr, fg).map(";".join), st.tuples(bg, fg).map(";".join),
                     st.tuples(attr, fg, bg).map(";".join))


def lscolors_specs(st):
    by_map = st.dictionaries(st.sampled_from(LS_KEYS), st.sampled_from(LS_VALUES), max_size=4).map(lambda d: {"map": d})
    with_target = st.dictionaries(st.sampled_from(LS_KEYS), st.sampled_from(LS_VALUES), max_size=3).map(
        lambda d: {"map": dict(d, ln="target")})
    by_str = st.dictionaries(st.sampled_from(LS_KEYS), ls_code(st), max_size=4).map(
        lambda d: {"from": ":".join("%s=%s" % kv for kv in d.items())})
    return st.one_of(by_map, by_str, with_target)


def strategy(kind, st, scratch="/var/tmp", shapes=True):
    """Strategy of specs of *valid* values of a kind.  shapes=True adds the values that are valid for the type but
    cannot be translated (callables, classes, Token-keyed dicts, pattern objects): their expectation is stated by
    the property too (omitted, or round trip)."""
    if kind in ("bool", "intensify"):
        return st.booleans()
    if kind == "bool_or_none":
        return st.sampled_from([True, False, None])
    if kind == "debug":
        return st.one_of(st.booleans(), st.integers(-3, 9))
    if kind == "trace":
        base = st.one_of(st.booleans(), st.integers(0, 3))
        return st.one_of(base, st.just({"callable": "tracer"})) if shapes else base
    if kind == "int":
        return st.one_of(st.integers(-5, 300), st.integers(-2 ** 70, 2 ** 70))
    if kind == "shlvl":
        return st.integers(0, 999)
    if kind == "float":
        return st.floats(allow_nan=False).map(enc_num)
    if kind in ("str", "regex_any"):
        return text(st)
    if kind == "str_or_callable":
        return st.one_of(text(st), text(st), st.just({"callable": "prompt"})) if shapes else text(st)
    if kind == "anystr":
        return st.one_of(text(st), st.none())
    if kind == "envpath":
        return envpath_specs(st)
    if kind == "upper_seq":
        return st.lists(st.sampled_from([".EXE", ".BAT", ".COM", "X", ".PY3"]), max_size=4)
    if kind == "strset":
        return st.lists(st.sampled_from(HIST_WORDS), max_size=4, unique=True).map(sorted)
    if kind == "histsize":
        ints = st.one_of(st.integers(-5, 10 ** 6), st.integers(0, 2 ** 64))
        # seconds are a float quantity (every seconds unit is registered with a float converter, the only consumer
        # compares them with time.time() differences); an int is accepted as shorthand for the float it equals, so
        # second counts given as int stay within +-MAX_EXACT_SECONDS (beyond it no float equals them: 285 My)
        secs = st.one_of(st.integers(-5, 10 ** 6), st.integers(0, MAX_EXACT_SECONDS),
                         st.floats(allow_nan=False, allow_infinity=False))
        return st.one_of(st.tuples(ints, st.sampled_from(["commands", "files", "b"])),
                         st.tuples(secs, st.just("s"))).map(lambda t: [enc_num(t[0]), t[1]])
    if kind == "dyncwd":
        return st.tuples(st.floats(allow_nan=False), st.sampled_from(["c", "%"])).map(lambda t: [enc_num(t[0]), t[1]])
    if kind == "logfile":
        return st.sampled_from([None, "", os.path.join(scratch, "tb.log"), os.path.join(scratch, "tb 2.log")])
    if kind in ("abspath", "path"):
        return st.one_of(st.none(), st.sampled_from(["/h/file.json", "rel/h.json", "/with space/h", "h"]).map(
            lambda p: {"path": p}))
    if kind == "regex":
        return st.sampled_from(["a.*b", "^x$", "", "[0-9]+", "(?i)secret", "a|b", "\\bpass\\b"])
    if kind == "backend":
        base = st.sampled_from(["json", "sqlite", "dummy", "mybackend"])
        return st.one_of(base, st.just({"class": "backend"})) if shapes else base
    if kind == "compdisplay":
        return st.sampled_from(["none", "single", "multi"])
    if kind == "compmode":
        return st.sampled_from(["default", "menu-complete"])
    if kind == "bpengine":
        from xonsh.debug import CANONIC_BREAKPOINT_ENGINES

        return st.sampled_from(sorted(CANONIC_BREAKPOINT_ENGINES))
    if kind == "tokdict":
        d = st.dictionaries(st.sampled_from(TOK_NAMES), st.sampled_from(TOK_STYLES), max_size=3)
        keys = st.sampled_from(["str", "str", "token"]) if shapes else st.just("str")
        return st.builds(lambda dd, k: {"keys": k, "d": dd}, d, keys)
    if kind == "lscolors":
        return lscolors_specs(st)
    if kind == "varpattern":
        return st.one_of(st.none(), st.sampled_from([
            {"varpattern": ["\\w*PATH$", "env_path", []]},
            {"varpattern": ["\\w*DIRS$", "env_path", ["JUPYTER_PLATFORM_DIRS"]]},
            {"varpattern": ["MY_\\w+$", "int", []]}]))
    if kind == "cursor":
        return st.sampled_from(CURSORS)
    if kind == "locale":
        return st.sampled_from(["C", "POSIX", "C.UTF-8"])
    if kind == "colordepth":
        return st.sampled_from(COLOR_DEPTHS)
    if kind == "opaque":
        return st.integers(0, 3).map(lambda n: {"obj": n})
    if kind == "opaque_callable":
        return st.just({"callable": "formatter"})
    if kind == "untyped":
        return st.one_of(text(st), text(st), st.integers(-9, 99), st.booleans(),
                         st.floats(allow_nan=False, width=32).map(enc_num),
                         st.sampled_from(["/p/q", "rel"]).map(lambda p: {"path": p}))
    if kind == "pylist":
        return st.lists(st.sampled_from(["a", "b", "c d"]), max_size=3).map(lambda l: {"list": l})
    raise KeyError(kind)

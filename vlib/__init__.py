"""Shared machinery for the xonsh property checks (see DESIGN.md section 1)."""

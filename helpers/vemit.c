/* vemit FILE FD CHUNK DELAY_US EXIT [LINGER_US]
   write the content of FILE to file descriptor FD in writes of CHUNK bytes, sleeping DELAY_US
   between writes, then (optionally) linger LINGER_US with the descriptor closed, exit EXIT. */
#include <stdio.h>
#include <stdlib.h>
#include <unistd.h>
#include <errno.h>
#include <signal.h>
int main(int argc, char **argv) {
    if (argc < 6) return 100;
    signal(SIGPIPE, SIG_IGN);
    FILE *f = fopen(argv[1], "rb");
    if (!f) return 101;
    int fd = atoi(argv[2]);
    size_t chunk = (size_t)atol(argv[3]);
    long delay = atol(argv[4]);
    int code = atoi(argv[5]);
    long linger = argc > 6 ? atol(argv[6]) : 0;
    if (chunk == 0) chunk = 1 << 20;
    char *buf = malloc(chunk);
    size_t n;
    while ((n = fread(buf, 1, chunk, f)) > 0) {
        size_t off = 0;
        while (off < n) {
            ssize_t w = write(fd, buf + off, n - off);
            if (w < 0) { if (errno == EINTR) continue; return 102; }
            off += (size_t)w;
        }
        if (delay > 0) usleep((useconds_t)delay);
    }
    if (linger > 0) { close(fd); usleep((useconds_t)linger); }
    return code;
}

#!/bin/sh
# MANIFEST.setup_cmd: build the framework from files on disk only (offline).
set -e
cd "$(dirname "$0")"
PY=/venv/bin/python
WHEELS=/opt/veriftools/wheels
if ! $PY -c "import hypothesis" 2>/dev/null; then
    /venv/bin/pip install --no-index --find-links $WHEELS hypothesis
fi
mkdir -p .work/bin .deps
if ! PYTHONPATH=.deps $PY -c "import atheris" 2>/dev/null; then
    /venv/bin/pip install -q --no-index --find-links $WHEELS --target .deps atheris \
        || echo "setup: atheris not installable; fuzz tiers fall back to Hypothesis-only" >&2
fi
CC=$(command -v cc || command -v gcc || command -v clang || true)
if [ -n "$CC" ]; then
    for src in helpers/*.c; do
        name=$(basename "$src" .c)
        $CC -O1 -o ".work/bin/$name" "$src"
    done
else
    echo "setup: no C compiler; python fallbacks for helpers will be used" >&2
fi
# parser tables for the current /repo working tree
$PY -c "import sys; sys.path.insert(0,'.'); from vlib import tables; print('tables:', tables.ensure_built())"
echo "setup ok"

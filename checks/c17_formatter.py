"""C17 - `xonsh format` never changes what a program means, and is idempotent.

Generators : (a) vlib.pygen programs rendered by CPython's unparser and restyled by vlib.stylist
             (indent units tab/1/2/3/8, comments in every position, blank-line runs, semicolons,
             one-line compounds, continuation lines), with multi-line string / f-string literals
             (trailing blanks, blank-looking lines, `{{`/`}}`, backslash-newline) injected;
             (b) xonsh sources from vlib.c17_xgen: command lines over an awkward word alphabet
             (`k=v` `a,b` `a:b` `x==1` `a#b`, flags, strings, `$X`, `${..}`, `@(..)`, `$(..)`,
             search paths, redirects, env prefixes, pipes, && / ||, `&`, backslash continuations),
             alias / function / block macros, captures nested in Python, `![..]` with odd spacing; one piece of raw
             alias- or function-macro text in six holds a token that spans several physical lines (triple-quoted
             string / f-string with any prefix, 2-5 lines, or a backslash-continued string; starting at any column)
             followed on its closing line by blanks and more raw text (`echo! a   '''x<newline>y'''   tail  x`);
             (c) mixtures of (a) and (b) in nested blocks at every indent depth;
             (d) real text: every *.xsh under the repository, the xonsh code blocks of docs/*.rst,
             the inputs of xonsh's own parser and formatter tests, and a sample of stdlib statements;
             (e) untokenisable inputs (unterminated triple-quoted string / f-string, unclosed
             bracket, inconsistent dedent) appended to or injected into valid programs;
             (f) characters that str.splitlines() takes for a line end and xonsh's tokenizer does not (form feed -
             also as a ^L page-break line -, VT, FS, GS, RS, NEL, U+2028, U+2029) inside a comment, string literal,
             docstring or f-string literal part, *followed* by text that the formatter copies from its cache of raw
             source lines (continuation lines inside brackets, f-string literal parts with `{{`/`}}`, alias-macro
             text): one generated xonsh text in eleven (vlib.c17_xgen.exotic_program) and one family-(a) text in ten.
Oracle     : precondition: the input parses with xonsh's context-aware entry `Execer.parse(src, ctx)`
             (the same entry and the same ctx for input and output).  ctx=set() for xonsh text
             (families b, d-if-not-Python): every statement that can be a command is one; for plain
             Python (families a, stdlib, Python snippets of d) every identifier of the source is a
             known name - the reading CPython gives it - because under ctx=set() xonsh turns
             expression statements, and/or/not operands and multi-line calls of Python programs
             into commands and often drops parts of them; mixtures (c) know the identifiers of the
             embedded Python.  Family (a) additionally passes the C01 oracle and holds no recorded
             C01 shape.  Inputs whose tree does not account for every identifier of the text
             (xonsh's recovery dropped part of a statement) are skipped and counted.  Then
             out = format_source(src) must (1) parse, (2) to the same location-free canonical tree
             (vlib.astcanon: every constant compared by type and repr, so string contents,
             subprocess argument strings and macro bodies are compared byte for byte; only the text
             of a `( ... )` subshell, itself a xonsh program, is compared by its own tree), (3) with
             the same sequence of comment texts (xonsh's tokenizer), (4) format_source(out) == out.
             For (e): format_source raises FormatError, `xonsh.formatter.cli.main` returns 123 and
             leaves the file byte-identical; --check / --diff never write and return the documented
             codes; the default mode and `-` write exactly format_source's result.
Attribution: a failing (src, out) pair is delta-debugged over the formatter's own edits
             (vlib.c17_analysis): which edits have to be taken back for the rest to be right (maximal
             passing subset by bisection; the indentation of all logical lines is one unit); every
             such edit is described as (formatter rule class, shape, lexical context).  Recorded
             findings are narrow predicates over that description (vlib.c17_findings); an edit that
             cannot matter under any reading (one run of blanks replaced by another, blanks removed
             at a line end, ...) but changes xonsh's tree is the parser's blank-sensitivity, counted
             and sampled in the notes, not a formatter failure; so is the indentation unit when the tokenizer reports
             the same INDENT/DEDENT structure for both texts (the parser's reading depends on the indentation's width).
             The lexical context of an edit does not rely on the tree's line numbers alone (they are off by one after a
             command line that holds a multi-line string): the logical line is also parsed on its own.
"""

from __future__ import annotations

import io
import json
import os
import re
import signal
import sys

from vlib import astcanon, common
from vlib import c17_analysis as A
from vlib.common import Failure, Stats

PROP = "C17"
LEVEL = "exploration"
HOOKS = False
RULE = ("source text from (a) generated Python ASTs in random surface styles with injected multi-line literals, (b) generated "
        "xonsh command lines / macros / captures, (c) both mixed in nested blocks with random indent units, blank-line runs and "
        "comments, (d) repository *.xsh files, docs code blocks, xonsh parser/formatter test inputs and stdlib statements, "
        "(e) untokenisable variants + the command line's write discipline, (f) a character that only str.splitlines() takes for a "
        "line end (FF VT FS GS RS NEL U+2028 U+2029) in a comment / literal in front of text the formatter copies from its raw line "
        "cache; each input that xonsh's Execer.parse accepts (ctx=set() "
        "for xonsh text, all identifiers known for plain Python) is formatted and the output must parse to the same canonical tree "
        "with the same comment sequence and be a fixed point; non-trivial = the formatter changed the text and the source has >= 2 "
        "logical lines (family (e): the tokenizer really rejects the text, or the formatter would change the file); "
        "distinct = hash of the source text")

CASE_SECONDS = 20
_state = {}


class _Timeout(Exception):
    pass


class _Unjudgeable(Exception):
    """the input has no definite meaning to compare with (e.g. a subshell whose text does not parse)"""


def _alarm(signum, frame):
    raise _Timeout()


def _setup(scratch):
    if _state:
        return _state
    from vlib import session

    session.load_session(scratch)
    ex = session.get_execer()
    from xonsh.formatter import FormatError, format_source
    from xonsh.parsers import tokenize as xtok

    _state.update(ex=ex, fmt=format_source, FormatError=FormatError, xtok=xtok, scratch=scratch)
    _state["open"] = {e["id"] for e in common.load_known(PROP) if e.get("status") == "open"}
    signal.signal(signal.SIGALRM, _alarm)
    return _state


# ----------------------------------------------------------------------------------------
# the oracle


def xparse(src):
    """xonsh's context-aware entry; the set of known names is fixed per case (see `reading`)."""
    if _state.get("stand_ins"):
        src = _stand_ins(src)
    return _state["ex"].parse(src, ctx=set(_state.get("names", ())), filename="<verif>")


# The characters that str.splitlines() takes for line ends and xonsh's tokenizer does not (vlib.c17_xgen.EXOTIC_SEPARATORS).
# xonsh's *parser* cuts text out of source.splitlines() in several places (the line-wise command recovery of the Execer, the
# raw text of `f!(...)` arguments and `with!` bodies, the text of a self-documenting f-string field `{x=}`), so behind such a
# character it reads `s = f'{x=}'` as the text ' :' of another line, or a command line as Python.  That is the parser's defect
# and would hide what the formatter does.  For a text that holds such characters, meaning is therefore compared on a copy in
# which every one of them is replaced by a private-use character of its own (inside comments and literals; a form feed
# outside them by a blank) - in the input and in the output alike; the formatter always gets the real text.
_STAND_IN = {c: chr(0xE000 + i) for i, c in enumerate(["\x0b", "\x1c", "\x1d", "\x1e", "\x85", "\u2028", "\u2029", "\x0c"])}
_STAND_IN_RX = re.compile("[%s]" % "".join(_STAND_IN))


def _stand_ins(text):
    if not _STAND_IN_RX.search(text):
        return text
    if "\x0c" in text:
        # a form feed outside comments and literals is white space: a blank stands in for it
        xtok = _state["xtok"]
        inside = []
        try:
            inside = [(t.a, t.b) for t in A.real_tokens(text) if t.type in (xtok.COMMENT, xtok.STRING, xtok.FSTRING_MIDDLE)]
        except Exception:  # noqa: BLE001
            pass
        chars = list(text)
        for i, c in enumerate(chars):
            if c == "\x0c" and not any(a <= i < b for a, b in inside):
                chars[i] = " "
        text = "".join(chars)
    return _STAND_IN_RX.sub(lambda m: _STAND_IN[m.group(0)], text)


def reading(src, ctx):
    """The names xonsh is told are known while it parses the input and the output of one case.
    "empty": none (ctx=set()): every statement that can be read as a command is one - used for xonsh text;
    "all"  : every identifier of the source plus the builtins - used for plain Python, which is thereby read
             the way CPython reads it (under ctx=set() xonsh turns expression statements, `and`/`or`/`not`
             operands and multi-line calls of Python programs into commands, often dropping part of them);
    a list : exactly these names plus the builtins (mixtures: the identifiers of the embedded Python)."""
    import builtins

    if ctx == "empty" or ctx is None:
        return frozenset()
    names = set(dir(builtins))
    if ctx == "all":
        try:
            names |= {t.string for t in A.tokenize(src) if t.type == _state["xtok"].NAME}
        except Exception:  # noqa: BLE001
            pass
    else:
        names |= set(ctx)
    return frozenset(names)


def _is_exec_list(n):
    import ast

    return isinstance(n, ast.List) and n.elts and isinstance(n.elts[0], ast.Attribute) and n.elts[0].attr == "executable" \
        and isinstance(n.elts[0].value, ast.Call) and isinstance(n.elts[0].value.func, ast.Name) and n.elts[0].value.func.id == "__import__"


def canon_tree(tree, depth=0, strict=False):
    """astcanon.root_canon, with one refinement: the text of a `( ... )` subshell (xonsh hands it as a
    raw string to `xonsh -c`) is itself a xonsh program, so it is compared by *its* canonical tree,
    not byte for byte (when it does not parse, the raw text is compared).  The tree is left unchanged."""
    import ast

    undo = []
    try:
        if tree is not None and depth < 5:
            for node in ast.walk(tree):
                if not (isinstance(node, ast.BinOp) and isinstance(node.op, ast.Add) and isinstance(node.right, ast.List)):
                    continue
                r = node.right
                if len(r.elts) != 2 or not all(isinstance(e, ast.Constant) for e in r.elts) or r.elts[0].value != "-c" \
                        or not isinstance(r.elts[1].value, str):
                    continue
                left = node.left
                if not (_is_exec_list(left) or (isinstance(left, ast.BinOp) and _is_exec_list(left.right))):
                    continue
                try:
                    inner = canon_tree(xparse(r.elts[1].value), depth + 1, strict)
                except (_Timeout, _Unjudgeable):
                    raise
                except Exception:  # noqa: BLE001
                    if strict:
                        raise _Unjudgeable("subshell text does not parse")
                    continue
                undo.append((r.elts[1], r.elts[1].value))
                r.elts[1].value = ("<subshell>", inner)
        return astcanon.root_canon(tree)
    finally:
        for node, val in undo:
            node.value = val


_KW = None
_WORD = re.compile(r"[A-Za-z_][A-Za-z0-9_]*")
_ESC = re.compile(r"\\[ntrfvx0]")


_LITERAL_WORDS = {}


def _literal_words(tok):
    """identifier-like words of a string literal's value, written the way ast.unparse (repr) writes it"""
    import ast
    import warnings

    hit = _LITERAL_WORDS.get(tok)
    if hit is not None:
        return hit
    try:
        with warnings.catch_warnings():
            warnings.simplefilter("ignore")       # invalid escape sequences
            v = ast.literal_eval(tok)
    except Exception:  # noqa: BLE001  (a xonsh-only prefix, e.g. p'...')
        v = None
    if isinstance(v, bytes):
        text = repr(v)[2:-1]
    elif isinstance(v, str):
        text = repr(v)[1:-1]
    else:
        text = tok[re.match(r"[A-Za-z]*", tok).end():]
    words = _WORD.findall(_ESC.sub(" ", text))
    if len(_LITERAL_WORDS) > 4000:
        _LITERAL_WORDS.clear()
    _LITERAL_WORDS[tok] = words
    return words


def _accounts_for_names(src, tree):
    """Precondition on the parser's reading of a text: every identifier of the text (outside comments;
    keywords aside) occurs in the tree at least as often as in the text.  xonsh's line-wrapping recovery
    sometimes turns a statement into a command made of a part of it and silently drops the rest
    (`x-y z || tar` parses to the command `tar`; a multi-line call `f(a,<newline>b)` in a block to the
    command `f`); such a tree has no definite meaning to preserve (C02/C03 territory)."""
    import ast
    import keyword
    import re
    from collections import Counter

    global _KW
    if _KW is None:
        _KW = set(keyword.kwlist) | set(keyword.softkwlist) | {"print"}
    xtok = _state["xtok"]
    if tree is None:
        return True
    if _state.get("stand_ins"):
        src = _stand_ins(src)         # the text that was parsed (see xparse)
    try:
        toks = A.tokenize(src)
    except Exception:  # noqa: BLE001
        return True
    want = Counter(t.string for t in toks if t.type == xtok.NAME and t.string not in _KW and t.string.isascii())
    # a backslash-newline glued to a word joins it with the next one (`a\<newline>b` is the word `ab`)
    # ... and inside [ ] xonsh glues the words of a command argument together (`[ a   b ]` is `[ab]`)
    joined = set()
    # The words inside string literals end up in the tree as well (a constant, or a command argument): they are
    # counted on both sides.  Counted on the tree's side only, the `a` and `b` of an unrelated `'a  b'` would
    # stand in for identifiers that the recovery dropped (`x = (a<newline> and b<newline> or c)` after a command
    # line is read as `x = ![x =] or c`).
    text_toks = [t for t in toks if t.type not in (xtok.NL, xtok.COMMENT)]
    for i, t in enumerate(text_toks):
        if t.type == xtok.STRING:
            words = _literal_words(t.string)
        elif t.type == xtok.FSTRING_MIDDLE:
            words = _WORD.findall(_ESC.sub(" ", repr(t.string)[1:-1]))
        else:
            continue
        words = [w for w in words if w not in _KW]
        want.update(words)
        # adjacent literals are one constant to Python (`'a' 'b'` is 'ab'), a literal glued to a word is part of
        # that word to a command (`a'b c'd`): such words only have to occur as substrings
        p = text_toks[i - 1] if i else None
        n = text_toks[i + 1] if i + 1 < len(text_toks) else None
        strs = (xtok.STRING, xtok.FSTRING_START, xtok.FSTRING_END)
        if (p is not None and (p.type in strs or p.end == t.start)) or (n is not None and (n.type in strs or n.start == t.end)):
            joined.update(words)
            if p is not None and p.end == t.start and p.type == xtok.NAME:
                joined.add(p.string)
            if n is not None and n.start == t.end and n.type == xtok.NAME:
                joined.add(n.string)
    if not want:
        return True
    sq = 0
    for i, t in enumerate(toks):
        if t.type == xtok.ERRORTOKEN and t.string.endswith("\n"):
            if i > 0 and toks[i - 1].end == t.start:
                joined.add(toks[i - 1].string)
            if i + 1 < len(toks) and toks[i + 1].start[1] == 0:
                joined.add(toks[i + 1].string)
        elif t.type == xtok.OP and t.string == "[":
            sq += 1
        elif t.type == xtok.OP and t.string == "]":
            sq = max(0, sq - 1)
        elif t.type == xtok.NAME and sq and i + 1 < len(toks) and toks[i + 1].type in (xtok.NAME, xtok.NUMBER):
            joined.add(t.string)
            joined.add(toks[i + 1].string)
    try:
        text = ast.unparse(tree)
    except Exception:  # noqa: BLE001
        return True
    text = re.sub(r"__xonsh__\.\w+|__import__|globals\(\)|locals\(\)|in_boolop=True|\\[ntrfvx0]", " ", text)
    have = Counter(re.findall(r"[A-Za-z_][A-Za-z0-9_]*", text))
    for name, n in want.items():
        if have.get(name, 0) < n and not (name in joined and text.count(name) >= n):
            return False
    return True


def scan(src):
    """(comment texts, number of logical lines) from xonsh's tokenizer in the formatter's mode."""
    xtok = _state["xtok"]
    coms, nlog = [], 0
    for t in A.tokenize(src):
        if t.type == xtok.COMMENT:
            coms.append(t.string.strip(" \t\x0c"))
        elif t.type == xtok.NEWLINE:
            nlog += 1
    return coms, nlog


class Ref:
    """what the output is compared with"""

    def __init__(self, src, tree, canon, comments):
        self.src, self.tree, self.canon, self.comments = src, tree, canon, comments


def verdict(ref, cand):
    """None when `cand` means the same as ref.src, else (kind, detail)."""
    try:
        t2 = xparse(cand)
    except SyntaxError as e:
        return "output-unparsable", "the formatted text is rejected by the parser: %s" % (str(e)[:160],)
    except _Timeout:
        raise
    except RecursionError:
        return "output-unparsable", "RecursionError while parsing the formatted text"
    except Exception as e:  # noqa: BLE001
        return "output-unparsable", "the parser raises %s on the formatted text: %s" % (type(e).__name__, str(e)[:120])
    c2 = canon_tree(t2)
    if c2 != ref.canon:
        if not _accounts_for_names(cand, t2):
            return "parser-drops-tokens", "the parser's tree for the formatted text does not mention every identifier of that text"
        verdict.flags = A.diff_flags(ref.canon, c2)
        return "tree-differs", astcanon.first_diff(ref.canon, c2) or "?"
    try:
        k2, _ = scan(cand)
    except Exception as e:  # noqa: BLE001
        return "output-untokenisable", "%s: %s" % (type(e).__name__, e)
    if k2 != ref.comments:
        # xonsh's tokenizer switches to its subprocess comment rule (`a#b` holds no comment) for the rest of the text at
        # the first physical line that starts with `![` `$[` `$(` `!(` (F15/F16/F17).  When that line is another one in
        # the output - e.g. a continuation line `$[ls] ...` that got its indent - unchanged lines further down tokenise
        # differently, which says nothing about their text: both texts are then compared under that rule from the start.
        if _sticky_onset(ref.src) != _sticky_onset(cand):
            try:
                if _forced_comments(ref.src) == _forced_comments(cand):
                    return None
            except Exception:  # noqa: BLE001
                pass
        return "comments-differ", "comment texts %r became %r" % (_first_diff(ref.comments, k2))
    return None


def _sticky_onset(text):
    """the first physical line that puts xonsh's tokenizer into its subprocess mode (None: no such line)"""
    for ln in text.split("\n"):
        if ln[:2] in ("![", "$[", "$(", "!("):
            return ln.rstrip(" \t")
    return None


def _forced_comments(text):
    """comment texts with the tokenizer in subprocess mode from the first line on"""
    xtok = _state["xtok"]
    if text and not text.endswith("\n"):
        text += "\n"
    return [t.string.strip(" \t\x0c") for t in xtok.tokenize(io.BytesIO(text.encode("utf-8", "surrogatepass")).readline, tolerant=False, is_subproc=True)
            if t.type == xtok.COMMENT]


def _first_diff(a, b):
    for i, (x, y) in enumerate(zip(a, b)):
        if x != y:
            return x, y
    return (a[len(b):][:1], b[len(a):][:1])


def _jsonctx(ctx):
    return ctx if isinstance(ctx, str) or ctx is None else sorted(ctx)


class Result:
    def __init__(self):
        self.status = "ok"          # ok | skip:<why> | fail
        self.out = None
        self.failures = []          # list[Failure]
        self.labels = []
        self.nontrivial = False
        self.nlog = 0
        self.notes = []
        self.tolerated = {}         # finding id -> 1 when a recorded shape was put back and tolerated


def _norm(src):
    return src if (not src or src.endswith("\n")) else src + "\n"


def check_source(src, family="?", reduce=True, want_labels=True, tolerate=True, ctx="empty"):
    """Run the whole oracle on one source text."""
    from vlib import c17_findings

    st = _state
    res = Result()
    st["names"] = reading(src, ctx)
    st["ctx"] = ctx
    st["stand_ins"] = bool(_STAND_IN_RX.search(src))
    # (re-armed every 5 s: an exception raised inside a garbage-collection callback is swallowed by the interpreter)
    signal.setitimer(signal.ITIMER_REAL, CASE_SECONDS, 5)
    try:
        try:
            tree = xparse(src)
        except SyntaxError:
            res.status = "skip:input-unparsable"
            return res
        except RecursionError:
            res.status = "skip:input-too-deep"
            return res
        except Exception:  # noqa: BLE001  (a crash of the parser on the *input* belongs to C01/C03)
            res.status = "skip:input-parser-crash"
            return res
        try:
            out = st["fmt"](src)
        except st["FormatError"]:
            res.status = "skip:formatter-rejects-parsable-input"
            return res
        except RecursionError:
            res.status = "skip:input-too-deep"
            return res
        except Exception as e:  # noqa: BLE001
            res.status = "fail"
            res.failures.append(Failure("crash", {"src": src, "family": family, "ctx": _jsonctx(ctx)},
                                        "format_source raises %s: %s (the CLI only handles FormatError and OSError)" % (type(e).__name__, str(e)[:200]),
                                        bucket="crash:" + type(e).__name__))
            return res
        res.out = out
        if not _accounts_for_names(src, tree):
            res.status = "skip:parser-drops-tokens"
            return res
        try:
            canon = canon_tree(tree, strict=True)
            coms, nlog = scan(src)
        except RecursionError:
            res.status = "skip:input-too-deep"
            return res
        except _Unjudgeable:
            res.status = "skip:subshell-text-unparsable"
            return res
        res.nlog = nlog
        nsrc = _norm(src)
        res.nontrivial = out != nsrc and nlog >= 2
        ref = Ref(nsrc, tree, canon, coms)
        v = verdict(ref, out)
        if want_labels or v is not None:
            try:
                script = A.edit_script(nsrc, out)
            except RecursionError:
                script = []
        if want_labels:
            try:
                sig, _ = A.signature(nsrc, script, tree)
                res.labels = ["rule:%s" % r for r in sorted({s[0] for s in sig})]
            except Exception:  # noqa: BLE001
                res.labels = ["rule:?"]
        if v is not None and v[0] == "parser-drops-tokens":
            # xonsh's reading of the formatted text leaves out part of that text: nothing to compare with
            res.status = "skip:parser-drops-tokens-of-output"
            return res
        if v is not None:
            _attribute(res, ref, out, script, family, c17_findings, tolerate)
        else:
            try:
                o2 = st["fmt"](out)
            except Exception as e:  # noqa: BLE001
                res.failures.append(Failure("second-pass-raises", {"src": src, "family": family, "ctx": _jsonctx(ctx)},
                                            "format_source(out) raises %s: %s" % (type(e).__name__, str(e)[:160]),
                                            bucket="second-pass-raises:" + type(e).__name__))
                o2 = out
            if o2 != out:
                sc2 = A.edit_script(out, o2)
                try:
                    t2 = xparse(out)
                except Exception:  # noqa: BLE001
                    t2 = None
                sig, det = A.signature(out, sc2, t2, probe=_probe_subproc)
                fid = c17_findings.classify("not-idempotent", sig, det, st["open"])
                if fid is None and det and "C17-F03" in st["open"] and _sticky_onset(nsrc) != _sticky_onset(out) \
                        and all(c17_findings.edit_finding(d) == "C17-F03" for d in det):
                    # the second pass pads a `#` glued to a command word (F03).  The first pass did not, because the
                    # tokenizer was in its sticky subprocess mode (`a#` is no comment there) from a line on that no
                    # longer starts with `$[` ... in the output (a continuation line that got its indent)
                    fid = "C17-F03"
                res.failures.append(Failure("not-idempotent", {"src": src, "family": family, "ctx": _jsonctx(ctx)},
                                            "format_source(out) != out; edits of the second pass: %s" % (A.brief(det)[:4],),
                                            finding=fid, bucket=fid or "not-idempotent:%s" % (sig[:3],)))
        if res.failures:
            res.status = "fail"
        return res
    except _Timeout:
        res.status = "inconclusive"
        return res
    finally:
        signal.setitimer(signal.ITIMER_REAL, 0)


def _probe_subproc(text):
    """Is this logical line, parsed on its own under the reading of the current case, a command?
    (vlib.c17_analysis.signature asks when the line numbers of the tree do not say so.)"""
    for cand in (text + "\n", text + "\n    pass\n"):
        try:
            t = xparse(cand)
        except _Timeout:
            raise
        except Exception:  # noqa: BLE001
            continue
        return bool(A.subproc_lines(t))
    return False


def _units(script, det):
    """The formatter's edits as independently revertible units: every edit on its own, except the
    indentation of logical lines, which only makes sense as a whole (one unit)."""
    from vlib import c17_findings

    units, indent = [], []
    for e, d in zip(script, det):
        if d["rule"] == "indent" or (d["rule"] == "continuation-indent" and c17_findings.hash_before_continuation(d)):
            # (the second: a statement start to the parser, a continuation line to the tokenizer - recorded as C17-F17)
            indent.append((e, d))
        else:
            units.append([(e, d)])
    if indent:
        units.append(indent)
    return units


def _apply(src, units):
    return A.apply_edits(src, [e for u in units for e, _ in u])


def _culprits(ref, units):
    """Maximal set of units that can be applied without breaking the oracle (delta debugging by
    bisection); returns (applied, withheld).  Every withheld unit breaks the oracle when added to the
    applied ones."""
    applied, withheld = [], []

    def add(chunk):
        if not chunk:
            return
        if verdict(ref, _apply(ref.src, applied + chunk)) is None:
            applied.extend(chunk)
            return
        if len(chunk) == 1:
            withheld.append(chunk[0])
            return
        mid = len(chunk) // 2
        add(chunk[:mid])
        add(chunk[mid:])

    add(list(units))
    return applied, withheld


def _attribute(res, ref, out, script, family, c17_findings, tolerate=True):
    """`out` fails.  Which of the formatter's edits have to be taken back for the rest to be right?
    First tolerate exactly the recorded findings: withhold every edit that satisfies the narrow
    predicate of an open finding (counted in excluded_known) and judge the rest; what still fails is
    bisected.  One case in sixteen is bisected with the recorded shapes left in, so the attribution
    path itself stays exercised."""
    src = ref.src
    open_ids = _state["open"]
    _, det = A.signature(src, script, ref.tree, probe=_probe_subproc)
    if len(det) != len(script):
        res.failures.append(Failure("tree-differs", {"src": src, "family": family, "ctx": _jsonctx(_state.get("ctx"))}, "source could not be re-tokenised for attribution",
                                    bucket="unattributable"))
        return
    units = _units(script, det)
    known_units, rest = [], []
    for u in units:
        fid = c17_findings.unit_finding([d for _, d in u])
        if fid is not None and fid in open_ids:
            known_units.append((u, fid))
        else:
            rest.append(u)
    if tolerate and known_units and common.h64(src)[-1] != "0":     # deterministic 15-in-16, no draw outside Hypothesis
        for fid in {f for _, f in known_units}:
            res.tolerated[fid] = res.tolerated.get(fid, 0) + 1
        v_rest = verdict(ref, _apply(src, rest))
        if v_rest is None:
            return
        if v_rest[0] == "parser-drops-tokens":
            res.labels.append("exempt:parser-drops-tokens-of-the-formatted-text")
            return
        # something else is wrong too: attribute the whole script (recorded shapes included), the validated path
    applied, withheld = _culprits(ref, units)
    groups = {}
    for u in withheld:
        sig = tuple(sorted({(d["rule"], d["shape"], d["ctx"]) for _, d in u}))
        fid = c17_findings.unit_finding([d for _, d in u])
        groups.setdefault(fid if (fid is not None and fid in open_ids) else sig, []).append(u)
    for key, us in groups.items():
        text = _apply(src, applied + us)
        verdict.flags = set()
        v = verdict(ref, text)
        if v is None:
            continue
        if v[0] == "tree-differs":
            # the indentation of all logical lines is one unit; where it matters is told by where the tree differs
            eff = "macro-block" if "macro" in verdict.flags else "subproc" if "subproc" in verdict.flags else "python"
            for u in us:
                if len(u) > 1 and all(d["rule"] == "indent" for _, d in u):
                    for _, d in u:
                        d["ctx"] = eff
        if v[0] == "tree-differs" and "macro" in verdict.flags:
            # the indentation unit (atomic) reaches into the raw body of a `with!` block and the difference is in a macro string
            for u in us:
                if len(u) > 1 and any(d["ctx"] == "macro-block" for _, d in u):
                    for _, d in u:
                        d["ctx"] = "macro-block"
        if v[0] == "tree-differs" and "b-subproc" in verdict.flags and not (verdict.flags & {"subproc", "macro"}):
            # the input reads the place as Python, only the output as a command
            glued_hash = all(d["rule"] == "comment-pad" and d["shape"] == "insert" for u in us for _, d in u)
            for u in us:
                for _, d in u:
                    if glued_hash:
                        d["ctx"] = "subproc"      # a `#` glued to a word: separated from it, the line is a command (shape of F03)
                    elif d["ctx"] == "subproc":
                        d["ctx"] = "python"
        if v[0] == "tree-differs" and "subproc" in verdict.flags and "macro" not in verdict.flags:
            # the difference shows inside (or is) a subprocess call: the edited text is subprocess text, whatever
            # the statement's reported line number suggested
            for u in us:
                for _, d in u:
                    if d["ctx"] == "python":
                        d["ctx"] = "subproc"
        _emit(res, ref, v[0], v[1], us, text, family, c17_findings)


def _emit(res, ref, kind, detail, units, text, family, c17_findings):
    det = [d for u in units for _, d in u]
    sig = tuple(sorted({(d["rule"], d["shape"], d["ctx"]) for d in det}))
    why = "parser-drops-tokens-of-the-formatted-text" if kind == "parser-drops-tokens" else _exempt(ref, sig, det, text, c17_findings)
    if why:
        res.labels.append("exempt:" + why)
        res.notes.append({"why": why, "src": ref.src[:300], "edits": A.brief(det)[:3]})
        return
    fid = c17_findings.classify(kind, sig, det, _state["open"])
    res.failures.append(Failure(kind, {"src": ref.src, "family": family, "ctx": _jsonctx(_state.get("ctx"))},
                                "%s | formatter edits that have to be taken back: %s" % (detail, json.dumps(A.brief(det)[:4])),
                                finding=fid, bucket=fid or "%s:%s" % (kind, "+".join("%s/%s/%s" % x for x in sig[:3]))))


def _same_block_structure(a, b):
    """xonsh's tokenizer (the formatter's mode) reports the same tokens, INDENTs, DEDENTs and NEWLINEs in the
    same order for both texts (the width of an INDENT, blank lines and comments aside)."""
    xtok = _state["xtok"]
    loose = (xtok.INDENT, xtok.DEDENT, xtok.NEWLINE)

    def seq(text):
        return [(t.type, "" if (t.type in loose or not t.string.strip(" \t\x0c")) else t.string)
                for t in A.tokenize(text) if t.type not in (xtok.NL, xtok.COMMENT)]

    try:
        return seq(a) == seq(b)
    except Exception:  # noqa: BLE001
        return False


def _one_physical_line(d):
    """the logical line that holds this edit is written on one physical line"""
    t = d["next"] if d["next"] is not None else d["prev"]
    if t is None:
        return True
    return all(k.line == t.sline for k in d["toks"] if k.sline == t.sline) and "\n" not in d["removed"] and "\n" not in d["inserted"]


def _exempt(ref, sig, det, text, c17_findings):
    """Reasons for which a tree difference is not the formatter's doing (see run.assumptions)."""
    import ast as pyast
    import builtins

    from vlib import pyoracle

    if c17_findings.parser_blank_sensitivity(sig, det):
        return "parser-sensitive-to-width-of-a-blank-run"
    if sig and all(rule == "indent" and ctx in ("subproc", "python") for rule, _, ctx in sig) and _same_block_structure(ref.src, text):
        # only the indentation unit has to be taken back, although xonsh's own tokenizer reports the same tokens in the
        # same INDENT/DEDENT structure for both texts: the parser's reading depends on the *width* of the indentation
        # (`if c:<newline><tab>tar - $HOME || x y` holds the Python expression `tar - $HOME`, indented by two or
        # more columns the command `tar - $HOME`).  Raw `with!` bodies (ctx macro-block, F04) and statements that only
        # the parser sees (F17) are not of this kind.
        return "parser-sensitive-to-width-of-the-indentation"
    pythonish = all(ctx in ("python", "token", "fstring") for _, _, ctx in sig)
    # CPython as referee for text that is plain Python.  Same CPython tree => as Python the formatter kept the
    # meaning; what is left is xonsh reading the text as a command (no name is known under ctx=set()).  That
    # reading is only judged where it is coherent: edits inside subprocess text of a statement written on ONE
    # physical line (xonsh's recovery of multi-line Python statements as commands drops parts of them, C02/C03).
    if "\r" not in ref.src and "\x0c" not in ref.src:
        try:
            c1 = astcanon.root_canon(pyoracle.cpy_parse(ref.src))
        except (SyntaxError, ValueError, RecursionError, MemoryError):
            c1 = None
        if c1 is not None:
            try:
                c2 = astcanon.root_canon(pyoracle.cpy_parse(text))
            except (SyntaxError, ValueError, RecursionError, MemoryError):
                c2 = None
            if c2 is None or c1 != c2:
                return None
            if pythonish:
                return "cpython-parses-input-and-output-alike"
            if all(ctx == "subproc" for _, _, ctx in sig) and all(_one_physical_line(d) for d in det):
                return None
            if all(ctx in ("subproc", "python", "token", "fstring") for _, _, ctx in sig):
                return "cpython-parses-alike-and-command-reading-of-a-multi-line-statement"
            return None
    if not pythonish:
        return None
    # not Python: a statement that was Python in the input and is a command in the output only because
    # no name is known (ctx=set()); with every name known both parse alike
    if all(ctx == "python" for _, _, ctx in sig):
        names = set(dir(builtins))
        try:
            names |= {t.string for t in A.real_tokens(ref.src) if t.type == _state["xtok"].NAME}
            t1 = _state["ex"].parse(ref.src, ctx=set(names), filename="<verif>")
            t2 = _state["ex"].parse(text, ctx=set(names), filename="<verif>")
            if canon_tree(t1) == canon_tree(t2):
                return "python-statement-becomes-command-only-under-empty-context"
        except _Timeout:
            raise
        except Exception:  # noqa: BLE001
            return None
    return None


# ----------------------------------------------------------------------------------------
# input reduction (only for failures that no recorded finding explains)


def reduce_source(src, same, seconds=5.0):
    """Greedy reduction of `src` (whole lines, then tokens) while same(text) holds."""
    import time

    t0 = time.time()
    cur = src
    improved = True
    while improved and time.time() - t0 < seconds:
        improved = False
        lines = cur.split("\n")
        n = len(lines)
        size = max(1, n // 2)
        while size >= 1 and time.time() - t0 < seconds:
            i = 0
            while i < len(lines) and time.time() - t0 < seconds:
                cand_lines = lines[:i] + lines[i + size:]
                cand = "\n".join(cand_lines)
                if cand.strip() and cand != cur and same(cand):
                    lines = cand_lines
                    cur = cand
                    improved = True
                else:
                    i += size
            size //= 2
        # dedent everything by one level when possible
        try:
            import textwrap

            d = textwrap.dedent(cur)
            if d != cur and same(d):
                cur = d
                improved = True
        except Exception:  # noqa: BLE001
            pass
        # token deletion
        try:
            toks = A.real_tokens(_norm(cur))
        except Exception:  # noqa: BLE001
            toks = []
        base = _norm(cur)
        for t in reversed(toks):
            if time.time() - t0 >= seconds:
                break
            for a, b in ((t.a, t.b + (1 if base[t.b:t.b + 1] == " " else 0)), (t.a, t.b)):
                cand = base[:a] + base[b:]
                if cand.strip() and same(cand):
                    base = cand
                    improved = True
                    break
        cur = base
    return cur


_reduced = {}


def settle(st, res, src, family, reduce=True, ctx="empty"):
    if os.environ.get("C17_NOREDUCE"):
        reduce = False
    """Move a Result's failures into Stats; reduce the inputs of unattributed ones (the first two of
    every bucket in this worker; the rest is reported unreduced and deduplicated by bucket)."""
    for f in res.failures:
        if f.finding is None and reduce and f.kind != "crash" and _reduced.get(f.bucket, 0) < 1 and sum(_reduced.values()) < 4:
            _reduced[f.bucket] = _reduced.get(f.bucket, 0) + 1
            want = f.bucket

            def same(text, _want=want):
                r = check_source(text, family, reduce=False, want_labels=False, ctx=ctx)
                return any(g.bucket == _want for g in r.failures)

            try:
                small = reduce_source(src, same)
            except _Timeout:
                small = src
            if small != src:
                r2 = check_source(small, family, reduce=False, want_labels=False, ctx=ctx)
                for g in r2.failures:
                    if g.bucket == want:
                        g.case["original"] = src[:2000]
                        f = g
                        break
        st.fail(f)
    for n in res.notes:
        if len(st.notes) < 6:
            st.notes.append("parser (not formatter) is sensitive to the width of a blank run: %s" % json.dumps(n)[:400])


def record(st, src, family, extra_labels=(), reduce=True, ctx="empty"):
    res = check_source(src, family, ctx=ctx)
    if res.status == "inconclusive":
        st.inconclusive += 1
        return res
    if res.status.startswith("skip:"):
        st.discards += 1
        st.hist[res.status] += 1
        st.hist["discard:" + family] += 1
        return res
    labels = [family] + list(extra_labels) + res.labels
    labels.append("changed" if res.out != _norm(src) else "unchanged")
    st.case(src, res.nontrivial, labels, sample={"family": family, "src": src} if res.nontrivial else None, max_per_label=2)
    for fid, n in res.tolerated.items():
        st.excluded_known[fid] += n
    if res.failures or res.notes:
        settle(st, res, src, family, reduce=reduce, ctx=ctx)
    return res


# ----------------------------------------------------------------------------------------
# family (a): generated Python in random styles, with injected multi-line literals

ML_LINES = ["a", "a  ", "", "   ", "\t", "text \\", "# not a comment  ", "    indented", "it's", "{x}  ", "$HOME ", "x = 1 ", "{{b}}", "}}{{ ",
            "tail\t", "ünï ", "\\n", "'q'  ", '"d" ', "![ls]  ", "a # b "]


def ml_literal(rnd, allow_trailing_blank):
    """A statement holding a multi-line string or f-string literal; (text, has_trailing_blank)."""
    q = ['"""', "'''"][rnd.randrange(2)]
    n = 1 + rnd.randrange(4)
    lines = [ML_LINES[rnd.randrange(len(ML_LINES))] for _ in range(n + 1)]
    if rnd.randrange(4) == 0:
        at = rnd.randrange(len(lines) + 1)
        lines[at:at] = [""] * (2 + rnd.randrange(4))          # a run of empty lines inside the literal
    fstr = rnd.randrange(3) == 0
    if fstr:
        lines = [ln.replace("{x}", "{x}").replace("\\", "") for ln in lines]
    else:
        lines = [ln for ln in lines]
    if not allow_trailing_blank:
        lines = [ln.rstrip(" \t") for ln in lines[:-1]] + [lines[-1]]
    body = "\n".join(lines)
    if q[0] in body:
        body = body.replace(q[0], "")
    if body.endswith("\\"):
        body += " "
    prefix = ["", "", "r", "b", "u", "R"][rnd.randrange(6)] if not fstr else ["f", "F", "rf", "fr"][rnd.randrange(4)]
    if prefix.lower() == "b":
        body = body.encode("ascii", "ignore").decode("ascii")
    if "r" not in prefix.lower():
        body = body.replace("\\n", "\\\\n") if rnd.randrange(2) else body
    if fstr:
        # keep the replacement fields well-formed: only {x} and doubled braces survive
        body = body.replace("{{", "\0").replace("}}", "\1").replace("{x}", "\2").replace("{", "").replace("}", "")
        body = body.replace("\0", "{{").replace("\1", "}}").replace("\2", "{x}")
    lit = prefix + q + body + q
    shape = rnd.randrange(6)
    has_tb = any(ln != ln.rstrip(" \t") for ln in body.split("\n")[:-1])
    if shape == 0:
        return lit, has_tb
    if shape == 1:
        return "s = " + lit, has_tb
    if shape == 2:
        return "f(" + lit + ", 1)", has_tb
    if shape == 3:
        return "s = [" + lit + ",\n     2]", has_tb
    if shape == 4:
        return "def g():\n    " + lit + "\n    return 1", has_tb
    return "s = " + lit + ".strip()  # c", has_tb


def _py_case(rnd, st, budget):
    """One family-(a) text or None (discard / excluded, already counted)."""
    import ast

    from vlib import c01_findings, pygen, pyoracle, stylist

    _py_case.labels = []
    g = pygen.Gen(rnd, budget=budget)
    shape = rnd.randrange(6)
    if shape == 0:
        tree = ast.Module(body=[ast.Expr(value=g.expr(4))], type_ignores=[])
    elif shape == 1:
        tree = ast.Module(body=[g.stmt(2)], type_ignores=[])
    else:
        tree = g.program(max_stmts=3, depth=2)
    src = pygen.render(tree)
    if src is None:
        st.discards += 1
        return None
    try:
        pyoracle.cpy_parse(src)
    except (SyntaxError, ValueError, RecursionError, MemoryError):
        st.discards += 1
        st.hist["gen-selfcheck-failed"] += 1
        return None
    sty = stylist.Styler(rnd)
    try:
        text = sty.restyle(src)
    except SystemError:
        # CPython 3.12.1's tokenize module raises `SystemError: Negative size passed to PyUnicode_New` on some of the
        # stylist's candidate texts (an interpreter bug, seen at seed 49); not a statement about xonsh
        st.discards += 1
        st.hist["discard:cpython-tokenize-SystemError"] += 1
        return None
    for t in sty.applied:
        st.hist["style:" + t] += 1
    if rnd.randrange(3) == 0:
        from vlib import c17_findings

        allow_tb = not c17_findings.leak(rnd, "C17-F01", _state["open"])
        if not allow_tb:
            st.excluded_known["C17-F01"] += 1
        lit, has_tb = ml_literal(rnd, allow_tb)
        pieces = text.rstrip("\n").split("\n")
        # insert at top level only (between top-level statements): find lines that start a top-level statement
        try:
            tops = [n.lineno for n in pyoracle.cpy_parse(text).body]
        except Exception:  # noqa: BLE001
            tops = [1]
        pos = (tops + [len(pieces) + 1])[rnd.randrange(len(tops) + 1)] - 1
        for d in getattr(pyoracle.cpy_parse(text), "body", []):
            if getattr(d, "decorator_list", None) and d.lineno - 1 == pos:
                pos = min(x.lineno for x in d.decorator_list) - 1
        text = "\n".join(pieces[:pos] + lit.split("\n") + pieces[pos:]) + "\n"
        st.hist["injected-multiline-literal"] += 1
    if rnd.randrange(10) == 0:
        # a line in front that holds a character which only str.splitlines() takes for a line end (see c17_xgen)
        from vlib import c17_xgen

        xg = c17_xgen.XGen(rnd)
        text = xg.exotic_head() + "\n" + text
        _py_case.labels = sorted(set(xg.labels))
        st.hist["injected-exotic-separator"] += 1
    r = pyoracle.compare(text, "exec")
    if r.kind == "invalid":
        st.discards += 1
        st.hist["discard:python-invalid"] += 1
        return None
    if r.failed:
        st.discards += 1
        st.hist["skip:c01-oracle-fails"] += 1
        return None
    ex = c01_findings.features(pyoracle.prep(text, "exec"), r.ctree)
    if ex:
        st.discards += 1
        st.hist["skip:c01-recorded-shape"] += 1
        return None
    return text


def worker_py(arg):
    seed, n, budget, scratch = arg
    from hypothesis import strategies as hs

    _setup(scratch)
    st = Stats()

    def body(rnd):
        text = _py_case(rnd, st, budget)
        if text is not None:
            record(st, text, "python-generated", extra_labels=_py_case.labels, ctx="all")

    common.run_given(hs.randoms(use_true_random=False), body, seed, n)
    return st


# ----------------------------------------------------------------------------------------
# families (b), (c): generated xonsh, mixtures


def worker_xsh(arg):
    seed, n, scratch = arg
    from hypothesis import strategies as hs

    from vlib import c17_findings, c17_xgen

    _setup(scratch)
    st = Stats()

    def body(rnd):
        avoid = c17_findings.avoid_switches(rnd, _state["open"])
        g = c17_xgen.XGen(rnd, avoid=avoid)
        ctx = "empty"
        shape = rnd.randrange(11)
        if shape < 6:
            src, fam = g.one_line(), "xonsh-line"
        elif shape < 8:
            src, fam = g.program(), "xonsh-program"
        elif shape == 10:
            # a character that only str.splitlines() takes for a line end, then text the formatter copies from the raw lines
            src, fam = g.exotic_program(), "xonsh-exotic-separator"
        else:
            pynames = set()
            g.py_source = lambda: _py_stmt(rnd, st, pynames)
            src, fam = g.program(), "mixture"
            ctx = sorted(pynames)
        for k, v in g.avoided.items():
            st.excluded_known[k] += v
        record(st, src, fam, extra_labels=sorted(set(g.labels)), ctx=ctx)

    common.run_given(hs.randoms(use_true_random=False), body, seed, n)
    return st


def _spans_lines(text):
    """a bracket or a string literal of this Python text is open across a line break"""
    import tokenize

    depth = 0
    try:
        for t in tokenize.generate_tokens(io.StringIO(text).readline):
            if t.type == tokenize.OP and t.string in "([{":
                depth += 1
            elif t.type == tokenize.OP and t.string in ")]}":
                depth -= 1
            elif t.type == tokenize.NL and depth > 0:
                return True
            elif t.start[0] != t.end[0] and t.type not in (tokenize.NEWLINE, tokenize.NL):
                return True
    except (tokenize.TokenError, IndentationError, SyntaxError):
        return True
    return False


def _py_stmt(rnd, st, names):
    """A generated Python statement (text, may span lines) for the mixtures; None when unavailable.
    Its identifiers are added to `names` (they are known names while the mixture is parsed)."""
    import ast

    from vlib import c01_findings, pygen, pyoracle, stylist

    g = pygen.Gen(rnd, budget=12)
    tree = ast.Module(body=[g.stmt(1)], type_ignores=[])
    src = pygen.render(tree)
    if src is None:
        return None
    try:
        ast.parse(src)
    except (SyntaxError, ValueError, RecursionError, MemoryError):
        return None
    try:
        text = stylist.Styler(rnd).restyle(src, max_transforms=2)
    except SystemError:      # CPython 3.12.1 tokenize bug, see _py_case
        st.hist["discard:cpython-tokenize-SystemError"] += 1
        return None
    # every physical line a complete logical line: xonsh's line-wise recovery garbles Python statements that span
    # lines once they sit between command lines (multi-line Python is family (a)'s business)
    if "\\\n" in text or _spans_lines(text):
        st.hist["mixture:python-statement-skipped-multiline"] += 1
        return None
    # the same precondition as family (a): the C01 oracle holds and no recorded C01 shape occurs
    r = pyoracle.compare(text, "exec", do_compile=False)
    if r.kind != "ok" or c01_findings.features(pyoracle.prep(text, "exec"), r.ctree):
        st.hist["mixture:python-statement-skipped-c01"] += 1
        return None
    for node in ast.walk(tree):
        if isinstance(node, ast.Name):
            names.add(node.id)
    return text.rstrip("\n")


# ----------------------------------------------------------------------------------------
# family (d): real text


def repo_texts():
    """[(name, text)] : *.xsh files, docs code blocks, parser / formatter test inputs."""
    import ast
    import re

    out = []
    repo = common.REPO
    for root, dirs, files in os.walk(repo):
        dirs[:] = sorted(d for d in dirs if d not in (".git", "__pycache__", "node_modules", ".tox", "build", "dist"))
        for f in sorted(files):
            if f.endswith(".xsh") or f.endswith(".xonshrc"):
                p = os.path.join(root, f)
                try:
                    with open(p, encoding="utf-8") as fh:
                        out.append(("file:" + os.path.relpath(p, repo), fh.read()))
                except (OSError, UnicodeDecodeError):
                    pass
    docs = os.path.join(repo, "docs")
    for root, dirs, files in os.walk(docs):
        dirs[:] = sorted(dirs)
        for f in sorted(files):
            if not f.endswith(".rst"):
                continue
            try:
                with open(os.path.join(root, f), encoding="utf-8") as fh:
                    lines = fh.read().split("\n")
            except (OSError, UnicodeDecodeError):
                continue
            i = 0
            while i < len(lines):
                m = re.match(r"^(\s*)\.\. code-block::\s*(xonshcon|xonsh)\s*$", lines[i])
                if not m:
                    i += 1
                    continue
                base = len(m.group(1))
                kind = m.group(2)
                j = i + 1
                block = []
                while j < len(lines) and (not lines[j].strip() or len(lines[j]) - len(lines[j].lstrip()) > base):
                    block.append(lines[j])
                    j += 1
                import textwrap

                text = textwrap.dedent("\n".join(block)).strip("\n")
                name = "docs:%s:%d" % (f, i + 1)
                if kind == "xonsh":
                    if text:
                        out.append((name, text + "\n"))
                else:
                    cur = None
                    for ln in text.split("\n"):
                        if ln.startswith(("@ ", ">>> ")):
                            if cur:
                                out.append((name, "\n".join(cur) + "\n"))
                            cur = [ln[2:] if ln.startswith("@ ") else ln[4:]]
                        elif cur is not None and (ln.startswith("  ") or ln.startswith("... ")) and ln.strip():
                            cur.append(ln[2:] if ln.startswith("  ") else ln[4:])
                        else:
                            if cur:
                                out.append((name, "\n".join(cur) + "\n"))
                            cur = None
                    if cur:
                        out.append((name, "\n".join(cur) + "\n"))
                i = j
    for sub in ("tests/parsers", "tests/format", "tests/test_execer.py", "tests/test_integrations.py"):
        p = os.path.join(repo, sub)
        paths = []
        if os.path.isdir(p):
            paths = [os.path.join(p, f) for f in sorted(os.listdir(p)) if f.endswith(".py")]
        elif os.path.exists(p):
            paths = [p]
        for path in paths:
            try:
                with open(path, encoding="utf-8") as fh:
                    tree = ast.parse(fh.read())
            except (OSError, SyntaxError, UnicodeDecodeError):
                continue
            seen = set()
            for node in ast.walk(tree):
                if isinstance(node, ast.Constant) and isinstance(node.value, str) and 2 <= len(node.value) <= 1500 and node.value not in seen:
                    seen.add(node.value)
                    out.append(("test-input:" + os.path.relpath(path, repo), node.value))
    return out


def worker_texts(arg):
    items, family, scratch = arg
    _setup(scratch)
    st = Stats()
    import ast

    for name, text in items:
        try:
            ast.parse(text)
            ctx = "all"           # plain Python (e.g. a Python snippet of the docs or of the parser tests)
        except (SyntaxError, ValueError, RecursionError, MemoryError):
            ctx = "empty"
        record(st, text, family, extra_labels=[name.split(":")[0], "reading:" + ctx], ctx=ctx)
    return st


def worker_corpus(arg):
    files, scratch = arg
    from vlib import c01_findings, corpus, pyoracle

    _setup(scratch)
    st = Stats()
    for path in files:
        src = corpus.read_source(path)
        if not src:
            continue
        try:
            tree = corpus.cpy_parse(src)
        except (SyntaxError, ValueError, RecursionError, MemoryError):
            continue
        for text in corpus.split_statements(src, tree, max_chars=1500):
            if len(text) > 1500:
                continue
            r = pyoracle.compare(text, "exec", do_compile=False)
            if r.kind != "ok":
                st.discards += 1
                st.hist["skip:c01-oracle-fails" if r.failed else "discard:python-invalid"] += 1
                continue
            if c01_findings.features(pyoracle.prep(text, "exec"), r.ctree):
                st.discards += 1
                st.hist["skip:c01-recorded-shape"] += 1
                continue
            record(st, text, "stdlib-statement", ctx="all")
    return st


# ----------------------------------------------------------------------------------------
# family (e): untokenisable input, and the command line's write discipline

BREAKERS = [
    ("unterminated-triple-string", lambda s: s + 'x = """never closed\nmore\n'),
    ("unterminated-triple-string-1", lambda s: s + "y = '''\n"),
    ("unterminated-fstring", lambda s: s + 'z = f"""a {b}\n c\n'),
    ("unclosed-paren", lambda s: s + "w = (1,\n  2\n"),
    ("unclosed-bracket", lambda s: s + "v = [\n"),
    ("unclosed-capture", lambda s: s + "u = $(ls\n"),
    ("bad-dedent", lambda s: s + "if q:\n        a1 = 1\n    a2 = 2\n"),
    ("bad-dedent-nested", lambda s: s + "def k():\n    if q:\n            a1 = 1\n        a2 = 2\n"),
    ("leading-unterminated", lambda s: '"""\n' + s),
    ("unclosed-brace-first", lambda s: "t = {\n" + s),
]


def tokenizer_rejects(src):
    """The reference for family (e): xonsh's tokenizer itself, called directly."""
    xtok = _state["xtok"]
    try:
        for _ in A.tokenize(src):
            pass
    except (xtok.TokenError, IndentationError) as e:
        return type(e).__name__
    except Exception as e:  # noqa: BLE001
        return "other:" + type(e).__name__
    return None


def run_cli(argv, stdin_text=None):
    """(exit code, stdout, stderr) of xonsh.formatter.cli.main(argv), in process."""
    from xonsh.formatter import cli

    old = sys.stdout, sys.stderr, sys.stdin
    sys.stdout, sys.stderr = io.StringIO(), io.StringIO()
    if stdin_text is not None:
        sys.stdin = io.StringIO(stdin_text)
    try:
        try:
            rc = cli.main(list(argv))
        except SystemExit as e:
            rc = "SystemExit(%r)" % (e.code,)
        except Exception as e:  # noqa: BLE001
            rc = "raised %s: %s" % (type(e).__name__, str(e)[:160])
        return rc, sys.stdout.getvalue(), sys.stderr.getvalue()
    finally:
        sys.stdout, sys.stderr, sys.stdin = old


def _read(p):
    with open(p, "rb") as f:
        return f.read()


def _write(p, text):
    with open(p, "wb") as f:
        f.write(text.encode("utf-8", "surrogatepass"))


def check_cli(case):
    """case = {'good': text, 'bad': text-or-None, 'breaker': name}.  Returns (Failure|None, nontrivial, labels)."""
    st = _state
    d = os.path.join(st["scratch"], "cli-%d" % os.getpid())
    os.makedirs(d, exist_ok=True)
    good, bad = case["good"], case.get("bad")
    labels = []
    problems = []
    nontrivial = False
    try:
        want = st["fmt"](good)
    except st["FormatError"]:
        want = None
    except Exception as e:  # noqa: BLE001
        return Failure("crash", case, "format_source raises %s: %s" % (type(e).__name__, e), bucket="crash:" + type(e).__name__), False, ["cli"]
    gp, bp = os.path.join(d, "good.xsh"), os.path.join(d, "bad.xsh")
    if bad is not None:
        why = tokenizer_rejects(bad)
        if why is None:
            return None, False, ["cli", "breaker-still-tokenisable:" + case.get("breaker", "?")]
        labels.append("untokenisable:" + why)
        labels.append("breaker:" + case.get("breaker", "?"))
        nontrivial = True
        try:
            st["fmt"](bad)
            problems.append("format_source accepts text that xonsh's tokenizer rejects (%s)" % why)
        except st["FormatError"]:
            pass
        except Exception as e:  # noqa: BLE001
            problems.append("format_source raises %s instead of FormatError on untokenisable text" % type(e).__name__)
        for flags in ([], ["--check"], ["--diff"], ["-q"], ["--check", "--diff"]):
            _write(bp, bad)
            before = _read(bp)
            rc, so, se = run_cli(flags + [bp])
            if _read(bp) != before:
                problems.append("`xonsh format %s` rewrote a file that cannot be tokenised" % " ".join(flags))
            if rc != 123:
                problems.append("`xonsh format %s` on an untokenisable file returned %r, documented 123" % (" ".join(flags), rc))
        if want is not None:
            # a good and a bad file in one invocation: the bad one untouched, the good one formatted, exit 123
            _write(gp, good)
            _write(bp, bad)
            before = _read(bp)
            order = [gp, bp] if len(good) % 2 else [bp, gp]
            rc, so, se = run_cli(order)
            if _read(bp) != before:
                problems.append("a multi-file run rewrote the untokenisable file")
            if rc != 123:
                problems.append("a multi-file run with one untokenisable file returned %r, documented 123" % (rc,))
            if _read(gp) != want.encode("utf-8", "surrogatepass"):
                problems.append("a multi-file run did not write format_source's result for the tokenisable file")
            labels.append("cli:multi-file")
    if want is not None:
        changed = want != good
        labels.append("cli:would-change" if changed else "cli:already-formatted")
        for flags in (["--check"], ["--diff"], ["--check", "-q"], ["--diff", "--check"]):
            _write(gp, good)
            before = _read(gp)
            rc, so, se = run_cli(flags + [gp])
            if _read(gp) != before:
                problems.append("`xonsh format %s` wrote to the file" % " ".join(flags))
            if rc != (1 if changed else 0):
                problems.append("`xonsh format %s` returned %r, documented %d" % (" ".join(flags), rc, 1 if changed else 0))
            if "--diff" in flags and "--check" not in flags:
                if changed and not so:
                    problems.append("--diff printed nothing for a file that would change")
                if not changed and so:
                    problems.append("--diff printed a diff for a file that would not change")
        _write(gp, good)
        rc, so, se = run_cli([gp])
        if rc != 0:
            problems.append("default mode returned %r for a tokenisable file, documented 0" % (rc,))
        if _read(gp) != want.encode("utf-8", "surrogatepass"):
            problems.append("default mode did not leave format_source's result in the file")
        rc, so, se = run_cli(["-"], stdin_text=good)
        if so != want:
            problems.append("`xonsh format -` did not print format_source's result")
        nontrivial = nontrivial or changed
    if problems:
        return Failure("cli", case, "; ".join(problems[:4]), bucket="cli:" + problems[0][:50]), nontrivial, ["cli"] + labels
    return None, nontrivial, ["cli"] + labels


def worker_cli(arg):
    seed, n, scratch = arg
    from hypothesis import strategies as hs

    from vlib import c17_xgen

    _setup(scratch)
    st = Stats()

    def body(rnd):
        g = c17_xgen.XGen(rnd)
        good = g.program() if rnd.randrange(3) else g.one_line()
        if rnd.randrange(5) == 0:
            good = ["", "\n", "   \n", "# only\n", "x = 1"][rnd.randrange(5)]
        case = {"good": good}
        if rnd.randrange(4) != 0:
            name, fn = BREAKERS[rnd.randrange(len(BREAKERS))]
            base = good if good.endswith("\n") or not good else good + "\n"
            case["bad"] = fn(base)
            case["breaker"] = name
        f, nt, labels = check_cli(case)
        st.case(("cli", case.get("bad"), good), nt, labels, sample=case if nt else None, max_per_label=1)
        if f is not None:
            st.fail(f)

    common.run_given(hs.randoms(use_true_random=False), body, seed, n)
    # one minimised representative per bucket
    seen = {}
    for f in st.failures:
        seen.setdefault(f.bucket, f)
    st.failures = list(seen.values())
    return st


# ----------------------------------------------------------------------------------------


def _replay_case(case):
    if "good" in case:
        return check_cli(case)[0]
    res = check_source(case["src"], case.get("family", "replay"), reduce=False, tolerate=False, ctx=case["ctx"] if case.get("ctx") is not None else "empty")
    if not res.failures:
        return None
    want = case.get("finding")
    for f in res.failures:
        if want and f.finding == want:
            return f
    return res.failures[0]


def main(run):
    import random

    from vlib import corpus

    _setup(run.scratch)
    astcanon.self_test()
    common.replay_tier(run, _replay_case)
    thorough = run.tier == "thorough"
    nw = int(os.environ.get("C17_NW", 16))          # number of generator streams (part of what a seed means)
    procs = max(1, min(16, int(os.environ.get("VERIF_PROCS") or 16)))      # worker processes that run them
    # (d) real text
    import time

    t_phase = time.time()
    phases = {}

    def lap(name):
        nonlocal t_phase
        phases[name] = round(time.time() - t_phase, 1)
        t_phase = time.time()

    texts = repo_texts()
    run.extra["repo_texts"] = len(texts)
    common.pool_map(run, __name__, "worker_texts", [(texts[i::nw], "repo-text", run.scratch) for i in range(nw) if texts[i::nw]], procs=procs)
    lap("repo-text")
    files = corpus.all_files()
    rnd = random.Random(run.seed)        # lays out which stdlib files are sampled; not inside a property
    rnd.shuffle(files)
    files = files[:run.n(45, 900)]
    common.pool_map(run, __name__, "worker_corpus", [(files[i::nw], run.scratch) for i in range(nw) if files[i::nw]], procs=procs)
    lap("stdlib")
    # (a) generated Python
    npy = run.n(int(os.environ.get("C17_NPY", 220)), 9000)
    common.pool_map(run, __name__, "worker_py",
                    [(common.worker_seed(run.seed, w), npy, 20 + 8 * (w % 4), run.scratch) for w in range(nw)], procs=procs)
    lap("python-generated")
    # (b), (c) generated xonsh and mixtures
    nx = run.n(int(os.environ.get("C17_NX", 380)), 8000)
    common.pool_map(run, __name__, "worker_xsh", [(common.worker_seed(run.seed, 100 + w), nx, run.scratch) for w in range(nw)], procs=procs)
    lap("xonsh-generated")
    # (e) untokenisable input and the CLI
    nc = run.n(60, 1500)
    common.pool_map(run, __name__, "worker_cli", [(common.worker_seed(run.seed, 200 + w), nc, run.scratch) for w in range(8)], procs=procs)
    lap("cli")
    run.extra["phase_seconds"] = phases
    st = run.stats
    tot = st.evaluations + st.discards
    generated_discards = sum(v for k, v in st.hist.items() if k in ("discard:xonsh-line", "discard:xonsh-program", "discard:mixture"))
    generated = sum(v for k, v in st.hist.items() if k in ("xonsh-line", "xonsh-program", "mixture")) + generated_discards
    ex_ok, ex_dis = st.hist.get("xonsh-exotic-separator", 0), st.hist.get("discard:xonsh-exotic-separator", 0)
    run.extra["exotic_separator_cases_judged"] = sum(v for k, v in st.hist.items() if k.startswith("exotic:U+"))
    if ex_ok + ex_dis >= 50 and ex_ok < 0.3 * (ex_ok + ex_dis):
        raise common.HarnessError("exotic-separator generator: only %d of %d texts judged (generator out of tune)" % (ex_ok, ex_ok + ex_dis))
    run.extra["generated_xonsh_discard_rate"] = round(generated_discards / max(1, generated), 3)
    if generated and generated_discards / generated > 0.35:
        raise common.HarnessError("xonsh generator: %d of %d texts rejected by the parser (generator out of tune)" % (generated_discards, generated))
    if tot and st.hist.get("skip:formatter-rejects-parsable-input", 0) > 0.2 * tot:
        raise common.HarnessError("the formatter rejects more than 20%% of the parsable inputs: the run says nothing")
    run.assumptions += [
        "meaning = xonsh's own parse through Execer.parse(src, ctx), same ctx for input and output: ctx=set() for xonsh text (every "
        "name unknown, so every statement that can be read as a command is one - the reading under which blanks matter most); all "
        "identifiers of the source known for text that CPython accepts (plain Python is read as Python); the identifiers of the "
        "embedded Python statements known for mixtures",
        "inputs the parser rejects or crashes on, inputs whose tree does not mention every identifier of the text (xonsh's recovery "
        "dropped part of a statement, e.g. `x-y z || tar` -> command `tar`), Python inputs failing the C01 oracle or containing a "
        "recorded C01 shape, and parsable inputs the formatter refuses with FormatError are skipped and counted, not judged; the same "
        "token accounting is applied to xonsh's tree of the formatted text",
        "a tree difference whose only necessary formatter edits cannot matter under any reading of the syntax (a non-empty run of "
        "blanks between two tokens of a line replaced by another, blanks removed at a line end, blank lines removed, a comment-only "
        "line re-indented; outside macro bodies, strings and f-strings) is a blank-sensitivity of the parser (e.g. a tab before a "
        "trailing comment on a command line), not a formatter defect: counted under 'exempt:*', samples in notes",
        "likewise, when only the indentation of the logical lines has to be taken back although xonsh's tokenizer reports the same "
        "tokens in the same INDENT/DEDENT structure for input and output (outside raw `with!` bodies), the parser's reading depends on "
        "the width of the indentation (`if c:<newline><tab>tar - $HOME || x y`: the Python expression `tar - $HOME` when indented by one "
        "column, a command when indented by two or more): counted under 'exempt:parser-sensitive-to-width-of-the-indentation'",
        "the words inside string literals are part of the token accounting on both sides (text and tree)",
        "for text CPython accepts, CPython's parser is the referee when xonsh's two parses disagree although the edits are in Python text",
        "the text of a `( ... )` subshell is compared by its own tree (it is a xonsh program handed to `xonsh -c`), not byte for byte",
        "carriage returns, BOMs and non-UTF-8 files are out of domain (the CLI reads with universal newlines); form feeds are only "
        "generated outside indentation (a page-break line, a line end, in front of a comment, inside comments and literals)",
        "behind a character that only str.splitlines() takes for a line end, xonsh's parser itself cuts the raw text of `f!(...)` "
        "arguments and `with!` bodies out of the wrong lines (it splits the source with splitlines()) and its line-wise command "
        "recovery mostly fails: family (f) holds no such macros, and what the parser rejects or garbles there is skipped and counted "
        "like everywhere else",
        "comment text is compared after stripping blanks at both ends (the formatter documents trailing-blank removal)",
    ]


def replay(run, path):
    with open(path) as f:
        d = json.load(f)
    case = d.get("case", d)
    if d.get("finding") and "finding" not in case:
        case = dict(case, finding=d["finding"])
    _setup(run.scratch)
    if "good" in case:
        fails = [f for f in [_replay_case(case)] if f is not None]
    else:
        res = check_source(case["src"], case.get("family", "replay"), reduce=False, tolerate=False,
                           ctx=case["ctx"] if case.get("ctx") is not None else "empty")
        fails = res.failures
        if res.status.startswith("skip:") or res.status == "inconclusive":
            print("replay: case not judged (%s): outside the property's domain" % res.status)
            return 0
        for lab in res.labels:
            if lab.startswith("exempt:"):
                print("replay: %s" % lab)
    if not fails:
        print("replay: property holds on this case")
        return 0
    rc = 0
    for f in fails:
        if f.finding and f.finding in _state["open"]:
            # a recorded finding reproduces on this case: that is not a violation
            print("KNOWN-FINDING: property=%s %s kind=%s %s" % (PROP, f.finding, f.kind, common._oneline(f.detail)))
        else:
            print("VIOLATION property=%s replay=%s kind=%s %s" % (PROP, path, f.kind, common._oneline(f.detail)))
            rc = 1
    return rc

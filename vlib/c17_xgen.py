"""Constructive generator of xonsh source text for C17 (the formatter must not change meaning).

`XGen(rnd)` draws every choice from `rnd` (the object Hypothesis' st.randoms(use_true_random=False)
hands out).  It builds programs out of

  * subprocess command lines: command word, plain words over a deliberately awkward alphabet
    (`a,b`  `a:b`  `k=v`  `x==1`  `a#b`  `user@host`  `http://h/p?q=1`  numbers, globs, paths),
    flags (`-x` `--long` `--k=v` `--k = v`), strings, `$NAME`, `${..}`, `@(..)`, `@$(..)`,
    `$(..)`, backtick search paths, redirects, env prefixes `$X=1 cmd`, pipes, `&&`/`||`/and/or,
    trailing `&`, backslash-newline continuations, trailing comments;
  * macros: `name! raw   text`, `f!(raw,  text)`, `with! ctx:` blocks with raw bodies, macros
    inside captures;
  * Python statements that embed xonsh: `x = $(cmd)`, `for l in !(cmd):`, `$X = 1`, `![ cmd ]`,
    `print($X)`, `g`*.py``, help `ls?` ...;
  * plain Python simple statements (a fixed pool in many spacings; richer Python comes from
    vlib.pygen x vlib.stylist in the check);
  * block structure at every depth with the indentation unit chosen per program or per block
    (tab, 1/2/3/4/8 blanks), blank-line runs, blank-looking lines, comments in every position.

Validity is never assumed: the check discards (and counts) every text that xonsh's own parser
rejects.  `avoid` is a set of finding ids (vlib.c17_findings.FINDINGS); an id in it keeps the
generator away from the shape of that recorded finding (word classes, macro positions, f-string
shapes, block-macro bodies ...), and every avoided draw is counted in `self.avoided`."""

from __future__ import annotations

from collections import Counter

CMDS = ["echo", "ls", "git", "grep", "cat", "pip", "python3", "cd", "make", "docker", "rm", "x-y", "a.out", "tar", "curl", "ssh"]
ODD_CMDS = ["./run.sh", "/bin/ls", "~/bin/x", "../up", "@(cmd)", "$CMD", "@('a b')", "$HOME/bin/x", "/usr/bin/env",
            "sudo", "time", "nice"]
NAMES = ["a", "b", "x", "y", "foo", "name", "files", "out", "err", "i", "line", "res", "ctx", "cfg"]
SIMPLE_WORDS = ["a", "b", "hi", "foo", "file.txt", "src/main.py", "/tmp/x", "..", ".", "./a", "~/x", "~", "README", "x1", "a_b", "a-b",
                "1", "2.5", "007", "0x1f", "1e5", "1_0", "HEAD", "origin/main", "v1.2.3", "*.py", "**/*.txt", "file?.c", "[ab]*", "a.b.c",
                "ünï", "файл", "中", "-", "--", "%s", "100%", "+x", "a+b", "HEAD^", "HEAD~2", "user@host", "a.b@c.d", "//x", "/"]
SEP_WORDS = ["a,b", "a:b", "x,", ",x", "k:", ":k", "a;b", "http://h.io/p?q=1", "host:/path", "1:2:3", "a,b,c", "C:/x", "::1",
             "a->b", "x:=1", "a+=1", "n-=2", "a*=b", "a/=b", "x//=2", "a%=b", "a**=2", "a@=b", "a^=b", "x==1", "pkg==1.0", "a!=b",
             "pkg>=1", "->", "==", "!=", ":=", "+=", ":", ",", "a, b", "a , b", "a ,b", "a: b", "a :b", "a == b", "x ==1", "x== 1",
             "a += b", "a -> b", "a := b"]
EQ_WORDS = ["k=v", "a=b", "KEY=value", "x=1", "a= b", "a =b", "a = b", "--k=v", "--key=val", "-k=v", "--k = v", "--k= v", "-D a=b",
            "--opt=a,b", "--x=y=z", "=", "a==", "=x"]
HASH_WORDS = ["a#b", "x#", "a#b#c", "issue#12"]
BANG_WORDS = ["hi!", "a!b", "!x"]
KW_WORDS = ["if", "not", "in", "is", "for", "import", "from", "as", "with", "def", "class", "lambda", "return",
            "in[1]", "lambda x: y", "del", "else", "try", "while", "yield", "None", "True", "match", "case", "type"]
BRACKET_WORDS = ["[a-z]*", "a[1]", "a[ 1 ]", "x[1:2]", "x[1 : 2]", "[1,2]", "[ 1, 2 ]", "[]", "[ a   b ]", "x[a,b]", "[ab][cd]", "a[ b ]c",
                 "[k=v]", "[ k = v ]", "x[-1]", "x[ - 1 ]"]
SUBSHELLS = ["(ls  -l)", "( echo a  b )", "(cd /tmp && ls)", "( echo a,b )", "(echo k=v)", "( x = 1 )", "(echo a) | cat", "(ls) && (pwd)",
             "( echo  'a  b' )"]
STR_WORDS = ["'a  b'", '"a  b"', 'r"\\d+  x"', "'#nocomment'", '"a,b"', "'k = v'", '"$HOME  x"', "f'{x}  y'", 'f"{ x }"',
             "'''tri  ple'''", '"""a\n  b  \nc"""', "a'b c'd", "--msg='a  b'", "-m \"x , y\"", "b'by  tes'", "p'/tmp/x'", "''",
             'f"{a}:{b}"', 'f"{a!r:>{w}}"', "f'{{x}}  {y}'", "f'''{x}\n  {y}  \n'''", "'a \\\n  b'"]
DOLLAR_WORDS = ["$HOME", "$HOME/bin", "$X", "${'HOME'}", "${ 'HOME' }", "${x}", "$( ls )", "$(ls  -l)", "$(echo a | grep b)",
                "$[ls]", "@(x)", "@( x )", "@(x + 1)", "@(x ,y)", "@([1, 2])", "@(f(a, k=1))", "@$(which ls)",
                "@$( which  ls )", "pre@(x)post", "@(x).txt", "a$HOME", "$(echo $(pwd))", "@(x if y else z)", "@(lambda: 1)",
                "@('a  b')", "@(d['k'])", "@(d[1:2])", "@({'a': 1})", "$(echo a,b)", "$(echo k=v)", "$(echo a:b)", "$(echo x==1)"]
BACKTICK_WORDS = ["`a.*`", "g`*.py`", "r`\\d+`", "`a  b`", "g`**/*.x`", "p`.*`", "gp`*`", "@foo`bar`"]
REDIRS = ["> out.txt", ">out.txt", ">> log", "2> err", "2>&1", "e>o", "a> f", "o>> f", "< in.txt", "<in", "&> all", "err> e.log",
          "all>b", "1>2", "o> x", "e>> y", "err>out", "2>1", ">  spaced", "e>&1"]
ENVPREFIX = ["$X=1", "$FOO='a b'", "$A=1 $B=2", "$PATH=@(p)", "$X=$Y", "$E=\"x  y\"", "$N=1.5"]
CHAINS = [" && ", " || ", "&&", "||", " and ", " or ", "  &&  ", "  ||  ", " &&", "|| "]
PIPES = [" | ", "|", "  |  ", " |", "| ", " e| ", " a| ", " err| ", " all| "]
COMMENTS = ["# c", "#c", "#", "#!x", "# $HOME ![ls]", "#  two", "# a  b  ", "#\tt", "# 'q", "# (", "#:", "#= 1", "# x = 1"]
MACRO_RAW = ["a", "a   b", "  a b  ", "x = 1", "x=1", "a,  b", "a ,b", "k : v", "a == b", "a==b", "1 +  2", "'q  q'", "\"d , d\"",
             "(a  b)", "[1,  2]", "{k:  v}", "f(x  ,y)", "a # b", "a#b", "$HOME  x", "@(x)  y", "$(ls  -l)", "a\tb", "-x  --y=1",
             "if  x", "not  y", "lambda x:  x", "a  =  b", "ünï  中", "a;b", "a ;  b", "a | b", "a  &&  b", "> f", "http://x  y",
             "x:=1", "a->b", "*  ?", "`r  e`", "a.b  .c", "1.  .5", "a!b", "a !  b"]
PY_SIMPLE = ["x = 1", "x=1", "x  =  1", "x= 1", "x =1", "y = x+1", "y = x + 1", "y=x +1", "a, b = b, a", "a,b=b,a", "a , b = 1 , 2",
             "x += 1", "x+=1", "x -=1", "x **= 2", "x //=2", "x @= y", "x |= 1", "x <<= 2", "f(a, b)", "f(a,b)", "f( a , b )",
             "f(a, k=1)", "f(a, k = 1)", "f(*a, **k)", "f(* a, ** k)", "print(x)", "print( x )", "print (x)", "d = {'a': 1, 'b': 2}",
             "d = {'a':1,'b':2}", "d = { 'a' : 1 }", "l = [1, 2, 3]", "l = [1,2,3]", "l = [ 1 , 2 ]", "t = (1,)", "t = 1,",
             "s = x[1:2]", "s = x[1 : 2]", "s = x[::2]", "s = x[a:b, c:d]", "s = x[ 1 ]", "z = x if y else w", "z = not x",
             "z = x and y or w", "z = x == y", "z = x==y", "z = x != y", "z = x<=y", "z = x >= y", "z = x<y", "z = x >y",
             "z = x is not None", "z = x not in y", "z = -x", "z = - x", "z = x ** -y", "z = x**y", "z = ~x", "z = a @ b",
             "z = a@b", "g = lambda: 0", "g = lambda x: x", "g = lambda x=1: x", "g = lambda x = 1 : x", "g = lambda *a, **k: (a, k)",
             "g = lambda x, y=2: x+y", "x: int = 1", "x:int=1", "x : int", "x: 'T' = None", "del x", "del x, y", "del(x)",
             "assert x", "assert x, 'm'", "assert(x)", "pass", "import os", "import os, sys", "import os.path as p",
             "from os import path", "from os import (path,\n    sep)", "from . import x", "from .. import y", "from .m import *",
             "raise E", "raise E('m') from e", "raise", "global g1", "x = y = 1", "x=y=1", "(x) = 1", "x = (1 +\n     2)",
             "x = [\n    1,\n    2,\n]", "x = {\n  'a': 1,\n      'b': 2}", "x = f(\n        a,\n  b)", "x = 1 + \\\n    2",
             "x = 1 \\\n  + 2", "if x: y = 1", "if x : y=1", "for i in x: pass", "while x: break", "x = 1; y = 2", "x=1;y=2",
             "x = 1 ; y = 2", "x = 1;", "s = 'a  b'", "s = \"a  b\"", "s = 'it\\'s'", "s = r'\\d  +'", "s = b'by'", "s = f'{x}'",
             "s = f'{ x }'", "s = f'{x!r}'", "s = f'{x:>10}'", "s = f'{x:{w}}'", "s = f'{x: {w}}'", "s = f'{x=}'", "s = f'{x = }'",
             "s = f'{{x}}'", "s = f'{ {1: 2}[1] }'", "s = f'{x}:{y}'", "s = f'{x} : {y}'", "s = f'{a[1:2]}'", "s = f'{d[\"k\"]}'",
             "s = f'{x:%Y-%m-%d}'", "s = f'{x:,}'", "s = f'{x:, }'", "s = f\"{x!r:^{w}.{p}}\"", "s = f'{lambda: 1}'",
             "s = f'{(lambda x: x)(1)}'", "s = f'a{x}b{y}c'", "s = 'a' 'b'", "s = 'a'  'b'", "s = ('a'\n     'b')",
             "s = '''a\nb'''", "s = '''a  \n  b  \n'''", "s = \"\"\"\n  x  \n\n\t\ny \"\"\"", "s = f'''{x}  \n  {y}'''",
             "s = f'''a  \n{x}\n  b  '''", "s = '''\\\na \\\n  b'''", "s = 'a \\\n   b'", "s = '# not a comment'", "s = '''\n# nc  \n'''",
             "x = 1  # c", "x = 1 # c", "x = 1# c", "x = 1 #c", "x = 1\t# c", "x = [1,  # one\n     2]  # two", "x = (  # open\n    1)",
             "yield_ = 1", "x = a if b else(c)", "x = a or(b)", "x = not(a)", "x = a in(b)", "x = a is(b)", "print(a)if b else c",
             "x = 1if a else 2", "x = [i for i in y if i]", "x = [i for(i)in y]", "x = {k: v for k, v in d}", "x = {*a, *b}",
             "x = {**a, 'k': 1}", "x = a[b][c]", "x = a.b.c", "x = a . b", "x = a.b(c).d", "x = (yield)", "x = await_", "x = ...",
             "x = 1_000", "x = 0x_ff", "x = 1e-3", "x = 1.", "x = .5", "x = 1j", "x = 1 .real", "x = 1..real", "x = 1.0.real",
             "x = a<b>c", "x = a< b", "x = a if b else c if d else e", "x = a, b", "x = a,", "x = *a, b", "x = [*a]", "x = a[:, 1]",
             "x = a[..., 0]", "x = print", "x = a - b", "x = a -b", "x = a- b", "x = a-b", "x = a - -b",
             "x = a+-b", "x = a* b", "x = a *b", "x = a**-b", "x = a//b", "x = a %b", "x = a| b", "x = a &b", "x = a ^ b",
             "x = a << b", "x = a>>b", "x = (a := 1)", "x = (a:=1)", "f(a := 1)", "f(a:=1)", "x = a if (b := c) else d",
             "def g(a, b=1, *c, d, e=2, **f): pass", "def g(a,b = 1): pass", "def g(a: int = 1) -> int: pass", "def g(a:int=1)->int: pass",
             "def g(a, /, b, *, c): pass", "class A: pass", "class A(B, metaclass=M): pass", "class A( B ): x = 1",
             "async def h(): await x", "with a as b: pass", "with a as b, c as d: pass", "with (a, b): pass", "try: pass\nexcept E: pass",
             "try:\n    pass\nexcept (A, B) as e:\n    pass\nelse:\n    pass\nfinally:\n    pass", "match x:\n    case 1: pass",
             "match x:\n    case {'a': 1, **r}:\n        pass\n    case [a, *b] if a:\n        pass\n    case A(x=1) | B():\n        pass",
             "type T = int", "x = a if b else c  # c1", "@dec\ndef g(): pass", "@dec(1, k=2)\nclass A: pass", "@a.b\n@c\ndef g():\n    pass",
             "x = [\n    # lead\n    1,\n\n    2,\n]", "f(a,\n  b,\n      c)", "x = (a\n     and b\n  or c)", "x = a and \\\n      b",
             "if a and \\\n   b:\n    pass", "x = {'a':\n        1}", "x = d['a':\n      'b']", "assert x, \\\n    'msg'"]
XSH_IN_PY = ["x = $(ls)", "x = $( ls  -l )", "x=$(ls)", "x = !(ls)", "x = !( ls  -la  /tmp )", "![ls]", "![ ls   -l ]", "$[ls]", "$[ ls  x ]",
             "x = $(ls).strip()", "x = $(ls | grep a)", "x = $(ls|grep a)", "x = $(echo @(y))", "x = $(echo @( y ))", "x = $(echo $(pwd))",
             "for l in $(ls  -l).split(): pass", "for l in !(ls): print(l)", "if !(test -f x): pass", "if !(test  -f  x) and y: pass",
             "while !(true).rtn: break", "print($(ls))", "print( $( ls ) )", "f($(ls), y=!(pwd))", "f($(ls),y = !(pwd))",
             "l = [x for x in $(ls).split()]", "$X = 1", "$X=1", "$X  =  1", "$X = 'a  b'", "$X = $(ls)", "$X=$(ls)", "$X = $Y",
             "${'a'+'b'} = 1", "${ 'X' } = 2", "del $X", "$X += 1", "$X+=1", "print($X)", "print( $X )", "x = $X + '/bin'", "x = $X+'/bin'",
             "x = ${name}", "x = ${ name }", "x = ${'HOME'}", "'a' in $X", "$PATH.append('x')", "$PATH.append( 'x' )", "$PATH[0]",
             "$PATH[ 0 ]", "x = $PATH[1:2]", "x = g`*.py`", "x = `re.*`", "x = `a  b`", "for f in g`*.py`: pass", "x = p'/tmp'",
             "x = pf'{y}/z'", "x = f\"{$HOME}\"", "x = f\"{$HOME}/{ $USER }\"", "x = f'{$(ls)}'", "x = $(ls) + $(pwd)", "x = $(ls)+$(pwd)",
             "x = [$(ls), $(pwd)]", "x = {'k': $(ls)}", "x = {'k':$X}", "x = $(ls) if $X else !(pwd)", "x = @.env", "x = @.imp.json",
             "x = $(git log --pretty=format:%h -n 1)", "x = $(echo a=b c==d e,f g:h)", "x = !(echo a , b)", "x = $(echo 'a  b')",
             "x = $(echo \"q\" 2>&1)", "x = $(cat < in > out)", "x = $(echo -n  x)",
             "x = $(echo --k=v)", "x = $(echo --k = v)", "x = $(echo k = v)", "x = $(echo *.py)", "x = $(echo a[1])", "x = $(echo (a))",
             "x = $(\n  ls\n)", "x = $(ls \\\n   -l)", "x = !(ls -l |\n  grep x)", "aliases['ll'] = 'ls  -l'", "x = $(echo a)  # c",
             "ls?", "x??", "len?", "$X?", "x = $(echo! raw   text)", "![echo!  a   b]", "x = !(cmd!  r  w )",
             "x = $(echo a)", "x = $(echo @$(which ls))", "x = $(echo ${'H'})", "print(@.env['X'])"]

# Characters that str.splitlines() takes for a line end and xonsh's tokenizer (which reads lines with
# readline, i.e. up to "\n") does not.  A formatter that keeps a cache of the source lines next to the token
# stream must split both the same way; whatever it copies from that cache (leading blanks of continuation
# lines inside brackets, literal parts of f-strings, raw macro text) comes from the wrong line otherwise.
# (A lone "\r" is the ninth such character; the command line reads files with universal newlines, so it never
# reaches format_source.)
EXOTIC_SEPARATORS = ["\x0c", "\x0b", "\x1c", "\x1d", "\x1e", "\x85", "\u2028", "\u2029"]
# statements whose text the formatter copies from the raw source lines (all free of the recorded shapes)
RAW_COPIED = ["y = (1,\n     2)", "def f(a,\n      b):\n    return g(\n        a,\n        b,\n    )", "z = [\n    1,\n  2,\n]",
              "x = {\n  'a': 1,\n      'b': 2}", "f(a,\n  b,\n      c)", "x = [1,  # one\n     2]  # two", "from os import (path,\n    sep)",
              "x = (a\n     and b\n  or c)", "w = f'{{a}} {b} {{c}}'", "w = f'{{{q}}}'", "w = f'a{x}b{y}c'", "w = f'{x}:{y}'  # c",
              "z = f\'\'\'{{x}}  k\n {y} \'\'\'", "z = f\'\'\'a\n{x}\n  b\'\'\'", "s = \'\'\'a\n  b\n\'\'\'", "s = ('a'\n     'b')",
              "x = d['a':\n      'b']", "t = f(\n        a,\n  b)", "w = f\"{a!r:>{w}}\" + f'{{x}}  {y}'"]

# Physical lines of a token that spans several lines (a triple-quoted string / f-string) inside raw macro text.
# The formatter copies macro text from its source-line cache, starting where the previous token *ends*: for a token
# with embedded newlines that end has to be computed (line += newlines, column = length of the last line), and the
# text that follows the closing quotes on the same line (`"""a<newline>b"""   tail  x`) shows whether it was.
ML_TOKEN_LINES = ["a", "first", "second", "  x  y", "<p>{}</p>", "k = v", "a,b", "$HOME", "\\d+", "ünï", "", "    deep", "x == 1", "a:b",
                  "-- opt", "[1,  2]"]
ML_FTOKEN_LINES = ["a", "{x}", "  {x}  y", "{{b}}", "k = {y}", "{a},{b}", "", "{x!r:>{w}}", "ünï {n}", "    deep"]
ML_TAILS = ["tail  x", "%  ctx", "+  x", "b  c", ",   1", "|  cat", "a=b", "x", ".strip()", "*  2", "&&  ls", "-v   --k=v", "%  (a ,b)", "[0]"]

import re

_PYPART = re.compile(r"@\([^)]*\)|\$\{[^}]*\}|'[^'\n]*'|\"[^\"\n]*\"")
_OPS = r"==|!=|<=|>=|->|:=|\+=|-=|\*=|/=|%=|@=|\^="
_KW = ("and as assert async await class def del elif else except finally for from global if import in is lambda nonlocal not or "
       "raise return try while with yield").split()
_TRIGGERS = [
    ("C17-F05", re.compile(r"[ \t],|,(?=[^ \t\n])")),
    ("C17-F06", re.compile(r"[ \t]:(?!=)|:(?=[^ \t\n=])")),
    ("C17-F07", re.compile(r"(?<![ \t])(?:%s)|(?:%s)(?![ \t\n]|$)" % (_OPS, _OPS))),
    ("C17-F08", re.compile(r"(?<![\w$.-])(?:%s)(?=[^ \t\n\w:)\]},;])" % "|".join(_KW))),
    ("C17-F03", re.compile(r"(?<=[^ \t\n])#")),
    ("C17-F09", re.compile(r"!(?![=(\[])")),
]
_FSTR = [
    ("C17-F10", re.compile(r"\{[ \t]+\{|\}[ \t]+\}")),
    ("C17-F11", re.compile(r"[fF][rR]?['\"].*\{[^{}]*:\{")),
    ("C17-F12", re.compile(r"[fF][rR]?['\"].*\{[^{}]*(?:[ \t]=|=[ \t])[ \t]*[}!:]")),
    ("C17-F01", re.compile(r"[ \t]\n")),
]


def word_triggers(w):
    """ids of the recorded findings whose shape a subprocess word has"""
    bare = _PYPART.sub("Q", w)
    out = [fid for fid, rx in _TRIGGERS if rx.search(bare)]
    out += [fid for fid, rx in _FSTR if rx.search(w)]
    return out


_PLAIN_WORD = re.compile(r"^[A-Za-z0-9_./~+%-]+$")
_GLUED_HASH = re.compile(r"(?<=[^ \t\n])#")
_RECOGNISED = re.compile(r"^(?:echo|ls|git|grep|cat|pip|python3|cd|make|docker|rm|tar|curl|ssh|sudo|time|nice)[ \t]+"
                         r"(?:[A-Za-z_][A-Za-z0-9_]*(?![\w.(\[/:,=])|[0-9]+(?![\w.])|--?[A-Za-z]|\$[A-Za-z]|['\"])")


class XGen:
    py_source = None          # optional callable -> text of a generated Python statement (set by the check)

    def __init__(self, rnd, avoid=()):
        self.r = rnd
        self.avoid = set(avoid)
        self.avoided = Counter()
        self.labels = []

    # -- primitives ----------------------------------------------------------------------
    def k(self, n):
        return self.r.randrange(n)

    def pick(self, xs):
        return xs[self.r.randrange(len(xs))]

    def chance(self, a, b):
        return self.r.randrange(b) < a

    def lab(self, s):
        self.labels.append(s)

    def gap(self):
        c = self.k(10)
        if c < 6:
            return " "
        if c < 8:
            return "  "
        if c == 8:
            return "\t"
        return "    "

    # -- subprocess words ----------------------------------------------------------------
    def word(self):
        for _ in range(6):
            w = self._word()
            hit = [fid for fid in word_triggers(w) if fid in self.avoid]
            if not hit:
                return w
            for fid in hit:
                self.avoided[fid] += 1
        self.lab("w:simple")
        return self.pick(SIMPLE_WORDS[:16])

    def pool(self, xs):
        """pick from a fixed pool, staying away from entries with an avoided shape"""
        for _ in range(8):
            w = self.pick(xs)
            hit = [fid for fid in word_triggers(w) if fid in self.avoid and fid in ("C17-F01", "C17-F10", "C17-F11", "C17-F12")]
            if "!" in w and "C17-F09" in self.avoid and re.search(r"\w!(?![=(\[])", w):
                hit.append("C17-F09")
            if not hit:
                return w
            for fid in hit:
                self.avoided[fid] += 1
        return "pass"

    def _word(self):
        c = self.k(30)
        if c < 9:
            self.lab("w:simple")
            return self.pick(SIMPLE_WORDS)
        if c < 12:
            self.lab("w:flag")
            return self.pick(["-x", "-la", "--long", "--long-opt", "-1", "-vvv", "--no-x", "-f file", "--", "-"])
        if c < 15:
            self.lab("w:sep")
            return self.pick(SEP_WORDS)
        if c < 18:
            self.lab("w:eq")
            return self.pick(EQ_WORDS)
        if c == 18:
            self.lab("w:hash")
            return self.pick(HASH_WORDS)
        if c == 19:
            self.lab("w:bang")
            return self.pick(BANG_WORDS)
        if c == 20:
            self.lab("w:keyword")
            return self.pick(KW_WORDS)
        if c in (21, 22):
            self.lab("w:bracket")
            return self.pick(BRACKET_WORDS)
        if c in (23, 24):
            self.lab("w:string")
            return self.pick(STR_WORDS)
        if c in (25, 26, 27):
            self.lab("w:dollar")
            return self.pick(DOLLAR_WORDS)
        if c == 28:
            self.lab("w:backtick")
            return self.pick(BACKTICK_WORDS)
        self.lab("w:glued")
        return self.pick(SIMPLE_WORDS) + self.pick(["", "=", ":", ",", "/", ".", "-", "+", "@", "%"]) + self.pick(SIMPLE_WORDS)

    def off(self, fid):
        """True when the shape of finding `fid` may be generated; counts avoided draws."""
        if fid in self.avoid:
            self.avoided[fid] += 1
            return False
        return True

    def command(self, allow_cont=True):
        parts = []
        if self.chance(1, 12):
            self.lab("cmd:envprefix")
            parts.append(self.pick(ENVPREFIX))
        if self.chance(1, 6):
            self.lab("cmd:odd-head")
            parts.append(self.pick(ODD_CMDS))
        else:
            parts.append(self.pick(CMDS))
        for _ in range(self.k(5)):
            parts.append(self.word())
        if self.chance(1, 6):
            self.lab("cmd:redirect")
            parts.insert(1 + self.k(len(parts)), self.pick(REDIRS))
        out = parts[0]
        for p in parts[1:]:
            if allow_cont and self.chance(1, 14):
                self.lab("cmd:backslash-continuation")
                conts = [" \\\n", "  \\\n", " \\\n  ", " \\\n        ", " \\\n\t", "\\\n ", "\\\n"]
                if not self.off("C17-F13") or not _PLAIN_WORD.match(p):
                    # backslash-newline glued on both sides joins two words into one (F13); only plain words are joined:
                    # the formatter formats the second half as tokens of its own (an f-string's fields, `k = v` ...), which
                    # is F13's root cause in a shape that its predicate (the inserted indent) does not describe
                    conts = conts[:-1]
                if _GLUED_HASH.search(out[out.rfind("\n") + 1:]) and not self.off("C17-F17"):
                    out += self.gap() + p   # a `#` inside a word of a physical line that ends in a backslash
                    continue
                out += self.pick(conts) + p
            else:
                out += self.gap() + p
        return out

    def pipeline(self, allow_cont=True):
        out = self.command(allow_cont)
        for _ in range(self.pick([0, 0, 0, 1, 1, 2])):
            self.lab("cmd:pipe")
            out += self.pick(PIPES) + self.command(allow_cont)
        return out

    def cmdline(self, allow_cont=True):
        out = self.pipeline(allow_cont)
        for _ in range(self.pick([0, 0, 0, 0, 1, 2])):
            self.lab("cmd:chain")
            out += self.pick(CHAINS) + self.pipeline(allow_cont)
        if self.chance(1, 14):
            self.lab("cmd:background")
            out += self.pick([" &", "&", "  &"])
        return out

    # -- macros --------------------------------------------------------------------------
    def raw(self, ml=True):
        if ml and self.chance(1, 6):
            return self.ml_raw()
        return self.pick(MACRO_RAW)

    def ml_token(self):
        """A token that spans several physical lines: a triple-quoted string or f-string (2-4 lines, any prefix), or a
        quoted string continued with a backslash-newline.  Lines of the literal end in blanks only when F01 may show."""
        if self.chance(1, 8):
            self.lab("ml-token:backslash-continued-string")
            return self.pick(["'one \\\ntwo'", '"a  b \\\n  c"', "'x\\\ny'", "'a \\\n  b \\\nc'"])
        q = self.pick(['"' * 3, "'" * 3])
        prefix = self.pick(["", "", "", "r", "b", "u", "R", "f", "rf", "F"])
        fstr = "f" in prefix.lower()
        self.lab("ml-token:triple-quoted-" + ("fstring" if fstr else "string"))
        pool = ML_FTOKEN_LINES if fstr else ML_TOKEN_LINES
        lines = [self.pick(pool) for _ in range(2 + self.k(3))]
        if self.chance(1, 4):
            lines[0] = ""                                   # the opening quotes end their line
        if self.chance(1, 4):
            lines[-1] = self.pick(["", "    ", "  "])       # the closing quotes stand (indented) on a line of their own
        if self.chance(1, 5) and self.off("C17-F01"):
            at = self.k(len(lines) - 1)
            lines[at] += self.pick(["  ", " ", "\t"])
        body = "\n".join(lines)
        if "b" in prefix.lower():
            body = body.encode("ascii", "ignore").decode("ascii")
        if "r" not in prefix.lower():
            body = body.replace("\\d", "\\\\d")
        return prefix + q + body + q

    def ml_raw(self):
        """raw macro text that holds a multi-line token which is followed, on its closing line, by blanks and more text"""
        self.lab("macro:multi-line-token-then-text")
        pre = self.pick(["", "", "a   ", "x  =  ", "-m  ", "1 +  "])
        return pre + self.ml_token() + self.pick(["  ", "   ", " ", "\t", "    ", "  \t "]) + self.pick(ML_TAILS)

    def alias_macro(self):
        self.lab("macro:alias")
        name = self.pick(CMDS[:6] + ["m", "timeit", "bash"])
        n = self.k(4)
        if n == 0:
            return name + "!" + self.pick(["", " ", " x", "x"])
        body = self.pick(["", " ", "  ", "\t"]).join([""] + [self.raw() for _ in range(n)])
        line = name + "!" + body + self.pick(["", " ", "   "])
        c = self.k(8)
        if c < 3 and self.off("C17-F09"):
            # positions in which the formatter does not recognise the macro
            self.lab("macro:alias-not-at-line-start")
            if c == 0:
                op, cl = self.pick([("x = $(", ")"), ("![", "]"), ("y = !(", ")"), ("$[", "]"), ("print($(", "))")])
                return op + line.replace("#", "").rstrip() + cl
            if c == 1:
                return self.command(False) + self.pick([" && ", " | ", "; ", " || "]) + line
            return self.pick(["./run.sh", "type", "echo hi", "a.out"]) + "! " + body
        return line

    def func_macro(self):
        self.lab("macro:function")
        f = self.pick(["f", "m", "obj.meth", "a.b.c", "timeit"])
        args = [self.raw() for _ in range(self.k(4))]
        args = [a for a in args if "#" not in a]
        call = f + "!(" + self.pick([",", ", ", " ,  ", ",  "]).join(args) + ")"
        c = self.k(6)
        if c == 0:
            return "y = " + call
        if c == 1:
            return "y=" + call + "  +  1"
        if c == 2:
            return "print(" + call + ")"
        if c == 3:
            return "y = [" + call + " ,  2]"
        return call

    def block_macro(self, ind, unit):
        """lines of a `with!` block (already indented by `ind`)."""
        self.lab("macro:block")
        if not self.off("C17-F04"):
            # only bodies the formatter leaves byte-identical (already in its own style, one level)
            return [ind + "with! ctx:"] + [ind + unit + self.pick(["pass", "x = 1", "echo a b", "raw text", "f(a, b)"]) for _ in range(1 + self.k(3))]
        head = self.pick(["with! ctx:", "with!  ctx :", "with! ctx as y:", "with! a, b:", "with! open('f')  as  g:", "with! ctx(1 ,2):",
                          "with! Block():", "with! ctx  :  "])
        if self.chance(1, 8):
            return [ind + head.rstrip(" ").rstrip(":").rstrip() + ": " + self.raw(ml=False)]
        lines = [ind + head]
        body_unit = self.pick([unit, unit, "  ", "    ", "\t", "      "])
        n = 1 + self.k(4)
        for i in range(n):
            c = self.k(12)
            extra = ""
            if i > 0 and c == 0:
                extra = self.pick(["  ", "    ", "\t"])
            if i > 0 and c == 1:
                lines.append(self.pick(["", "", "   ", ind + body_unit]))
            t = self.pick([self.raw(ml=False), self.raw(ml=False), self.pick(PY_SIMPLE).split("\n")[0].rstrip("\\ "), self.command(False).replace("!", ""), "<tag  a='1'>", "</tag>",
                           "raw   text  here", "# only  a  comment", "x  =  1   # c"])
            lines.append(ind + body_unit + extra + t + self.pick(["", "", "", "  "]))
        return lines

    # -- statements ----------------------------------------------------------------------
    def simple(self):
        """one simple statement (may span physical lines) without indentation"""
        for _ in range(6):
            st = self._simple()
            if "C17-F02" in self.avoid and "=" in _PYPART.sub("Q", st) and self._kind == "command" and not _RECOGNISED.match(st):
                self.avoided["C17-F02"] += 1
                continue
            return st
        return "echo ok"

    def _simple(self):
        c = self.k(22)
        self._kind = "other"
        if c < 8:
            self.lab("s:command")
            self._kind = "command"
            if self.chance(1, 14):
                self.lab("s:subshell")
                return self.pick(SUBSHELLS)
            return self.cmdline()
        if c < 10:
            self._kind = "command"
            return self.alias_macro()
        if c < 12:
            return self.func_macro()
        if c < 16:
            self.lab("s:xonsh-in-python")
            return self.pool(XSH_IN_PY)
        if c < 18 and self.py_source is not None:
            t = self.py_source()
            if t:
                self.lab("s:python-generated")
                return t
        if c == 18:
            # a command where the formatter's line heuristic cannot see it: after `:` or `;`
            self.lab("s:command-after-colon-or-semicolon")
            self._kind = "command"
            return self.pick(["if x: ", "x = 1; ", "for i in y: ", "while x: ", "else_ = 1 ; "]) + self.cmdline(False)
        self.lab("s:python")
        return self.pool(PY_SIMPLE)

    def trailing_comment(self, line):
        if "\n" in line or "#" in line or self.k(7) != 0:
            return line
        self.lab("comment:trailing")
        pads = ["  ", " ", "", "\t", "    "]
        if getattr(self, "_kind", "") == "command" or "!" in line:
            # xonsh's parser mis-reads a command line whose trailing comment follows a tab (`ls -l<tab># c` -> `ls -`,
            # or a SyntaxError inside a block): not the formatter's business (the plain case is still met in real text
            # and shows up under exempt:parser-sensitive-to-width-of-a-blank-run)
            pads.remove("\t")
        if "C17-F03" in self.avoid and getattr(self, "_kind", "") == "command":
            pads.remove("")              # a `#` glued to the last word of a command is part of that word
        return line + self.pick(pads) + self.pick(COMMENTS)

    HEADS = ["if x:", "if  x :", "if x == 1:", "if x==1 :", "for i in y:", "for i in range( 3 ):", "while x:", "def f():", "def f(a, b=1):",
             "def f( a,b = 1 ) :", "class A:", "class A( B ):", "try:", "with a as b:", "with open( 'f' ) as g :", "async def h():",
             "if !(test -f x):", "for l in $(ls  -l).split():", "while !( true ):", "with ${...}.swap(A=1):",
             "if $X:", "if $X == 'a':", "for f in g`*.py`:", "def g(a=1, *b, **c):", "elif-chain", "match x:"]

    def block(self, depth, ind, unit, lines):
        head = self.pick(self.HEADS)
        if depth >= 3:
            head = self.pick(self.HEADS[:12])
        myunit = unit if self.chance(5, 6) else self.pick(["\t", "  ", "    ", "        ", " ", "   "])
        if myunit != unit:
            self.lab("indent:mixed-units")
        inner = ind + myunit
        if head == "elif-chain":
            self.lab("b:if-elif-else")
            lines.append(ind + self.pick(["if x:", "if x :", "if(x):"]))
            self.body(depth + 1, inner, unit, lines)
            for _ in range(self.k(3)):
                lines.append(ind + self.pick(["elif y:", "elif  y :", "elif(y):", "elif !(true):"]))
                self.body(depth + 1, inner, unit, lines)
            if self.chance(1, 2):
                lines.append(ind + self.pick(["else:", "else :", "else:  # e"]))
                self.body(depth + 1, inner, unit, lines)
            return
        if head == "match x:":
            self.lab("b:match")
            lines.append(ind + head)
            for _ in range(1 + self.k(2)):
                lines.append(inner + self.pick(["case 1:", "case [a, b]:", "case {'k': v}:", "case _:", "case A(x=1):", "case 1 | 2:",
                                                "case str() as s if s:"]))
                self.body(depth + 2, inner + myunit, unit, lines)
            return
        self.lab("b:" + head.split("(")[0].split(" ")[0].rstrip(":"))
        lines.append(ind + self.trailing_comment(head).replace("\t#", " #"))
        self.body(depth + 1, inner, unit, lines)
        if head == "try:":
            lines.append(ind + self.pick(["except E:", "except E as e :", "except (A ,B):", "except:", "finally:"]))
            self.body(depth + 1, inner, unit, lines)
            if self.chance(1, 3):
                lines.append(ind + "finally:" if not lines[-1].startswith(ind + "finally") else ind + "pass")
                if lines[-1].endswith(":"):
                    self.body(depth + 1, inner, unit, lines)
        elif head.startswith(("for", "while")) and self.chance(1, 5):
            lines.append(ind + "else:")
            self.body(depth + 1, inner, unit, lines)

    def body(self, depth, ind, unit, lines):
        n = 1 + self.k(2 if depth else 4)
        if len(lines) > 22:
            n = 1
        for i in range(n):
            self.filler(depth, ind, lines)
            c = self.k(10)
            if depth < 3 and c < 3 and len(lines) < 22:
                self.block(depth, ind, unit, lines)
            elif c == 3:
                lines.extend(self.block_macro(ind, unit))
            else:
                st = self.trailing_comment(self.simple())
                for ln in st.split("\n"):
                    # every physical line of a multi-line statement is shifted (compound statements need it;
                    # the content of a multi-line string changes with it, which is harmless for this property)
                    lines.append(ind + ln if ln.strip() or not ind else ln)
                if self.chance(1, 12):
                    lines[-1] += self.pick([" ", "  ", "\t"])
        if self.chance(1, 6):
            self.filler(depth, ind, lines)

    def filler(self, depth, ind, lines):
        c = self.k(12)
        if c == 0:
            self.lab("blank:run")
            for _ in range(1 + self.k(4)):
                lines.append(self.pick(["", "", "   ", "\t", ind]))
        elif c == 1:
            self.lab("comment:own-line")
            lines.append(ind + self.pick(COMMENTS))
        elif c == 2:
            self.lab("comment:odd-indent")
            lines.append(self.pick(["", " ", "  ", "    ", "\t", ind + "  ", ind[:-1] if ind else ""]) + self.pick(COMMENTS))
        elif c == 3:
            lines.append("")

    def program(self):
        self.labels = []
        unit = self.pick(["    ", "    ", "  ", "\t", "        ", " ", "   "])
        self.lab("indent:" + {"\t": "tab"}.get(unit, str(len(unit))))
        lines = []
        if self.chance(1, 12):
            lines.append(self.pick(["#!/usr/bin/env xonsh", "# -*- coding: utf-8 -*-", "#!xonsh"]))
        self.body(0, "", unit, lines)
        src = "\n".join(lines)
        c = self.k(12)
        if c == 0:
            pass                      # no trailing newline
        elif c == 1:
            src += "\n\n\n"
        elif c == 2:
            src += "\n   \n"
        else:
            src += "\n"
        return src

    # -- characters that only str.splitlines() takes for line ends -------------------------------
    def exotic_head(self):
        """One or two top-level lines holding one of EXOTIC_SEPARATORS where xonsh's grammar allows it: inside a
        comment, a string literal, a docstring, an f-string's literal part; the form feed also as a page-break line
        of its own, at the end of a statement line and in front of a comment (never inside indentation)."""
        c = self.pick(EXOTIC_SEPARATORS + ["\x0c", "\x0c"])      # the form feed has three places of its own
        self.lab("exotic:U+%04X" % ord(c))
        k = self.k(9 if c == "\x0c" else 6)
        self.lab("exotic-in:" + ["comment", "string", "docstring", "trailing-comment", "fstring-literal", "string-in-brackets",
                                 "page-break-line", "line-end", "before-comment"][k])
        if k == 0:
            return self.pick(["# sec%stion", "#%s", "# %s page", "#: a %s b  "]) % c
        if k == 1:
            return self.pick(["SEP = '%s'", "s = 'a%sb'", 's = "%s  x"', "s = r'a%sb' 'c'"]) % c
        if k == 2:
            return self.pick(["\'\'\'doc%s\nmore\'\'\'", '"""%s"""', '"""a\n%s\nb"""']) % c
        if k == 3:
            return self.pick(["x = 1  # t%s", "x = 1 # a%sb", "import os  #%s"]) % c
        if k == 4:
            return self.pick(["s = f'a%s{x}'", "s = f'{x}%s'", 's = f"{{%s}} {x}"']) % c
        if k == 5:
            return self.pick(["t = ['a%sb',\n     1]", "f('%s',\n  2)"]) % c
        if k == 6:
            return self.pick(["import os\n%s\nimport sys", "%s", "x = 1\n\n%s\n"]) % c
        if k == 7:
            return self.pick(["x = 1%s", "import os%s", "f(a)  %s"]) % c
        return self.pick(["%s# c", "%s#c  "]) % c

    def exotic_program(self):
        """A top-level program in which one of EXOTIC_SEPARATORS comes first and text that the formatter copies from
        the raw source lines (continuation lines inside brackets, f-string literal parts, macro bodies) follows."""
        self.labels = []
        lines = [self.exotic_head()]
        for _ in range(self.k(3)):
            self.filler(0, "", lines)
            lines.append(self.pool(PY_SIMPLE) if self.k(4) else self.trailing_comment(self.simple()))
        for _ in range(1 + self.k(3)):
            self.filler(0, "", lines)
            c = self.k(8)
            if c < 5:
                self.lab("raw-copied:python")
                lines.append(self.pick(RAW_COPIED))
            elif c == 5:
                self._kind = "command"
                lines.append(self.alias_macro())
            elif c == 6:
                lines.append(self.func_macro())
            else:
                lines.extend(self.block_macro("", "    "))
        if self.chance(1, 3):
            lines.append(self.exotic_head())
            lines.append(self.pick(RAW_COPIED))
        return "\n".join(lines) + self.pick(["\n", "\n", "", "\n\n"])

    def one_line(self):
        """a single statement at top level (the bulk of the subprocess / macro space)"""
        self.labels = []
        st = self.trailing_comment(self.simple())
        return st + "\n"

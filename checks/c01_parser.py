"""C01 - every valid Python program parses to CPython's syntax tree.

Generators : (a) statements and embedded program strings cut from the running interpreter's stdlib
             and test-suite and from xonsh's own parser tests; (b) token-level mutations of those
             (delete / duplicate / swap / splice / replace), kept only when CPython still accepts the
             text; (c) whitespace mutations (blanks between tokens removed or added wherever CPython's
             tokenizer yields the same tokens); (d) programs constructed by vlib.pygen and rendered in
             many surface styles by vlib.stylist.
Oracle     : differential against CPython on the same text (vlib.pyoracle.compare): must be accepted,
             must give the same location-free canonical tree (vlib.astcanon), compile() must agree; in
             exec mode and, where CPython accepts the text there, eval and single mode.
"""

from __future__ import annotations

import ast
import io
import json
import os
import tokenize

from vlib import astcanon, c01_findings, common, corpus, pygen, pymutate, pyoracle, strgen, stylist
from vlib.common import Failure, Stats

PROP = "C01"
LEVEL = "exploration"
RULE = ("program texts from (a) stdlib/test-suite statements + embedded program strings + xonsh parser-test inputs, "
        "(b) CPython-valid token mutations of them, (c) CPython-token-preserving whitespace mutations, (d) generated ASTs "
        "rendered in random surface styles; each compared with CPython's parse of the same text in every mode CPython "
        "accepts; non-trivial = CPython tree has >= 3 distinct node classes beyond Module/Interactive/Expression/Expr/Name/Load/Constant; "
        "distinct = hash of (mode, canonical tree dump)")

_TRIVIAL = {"Module", "Interactive", "Expression", "Expr", "Name", "Load", "Constant"}
MODES = ("exec", "eval", "single")


# ----------------------------------------------------------------------------------------
# known findings: narrow predicates over the *minimal* failing program


def _tokens(src):
    try:
        return [t for t in tokenize.generate_tokens(io.StringIO(src).readline)]
    except Exception:  # noqa: BLE001
        return []


_OPEN = None


def open_ids():
    global _OPEN
    if _OPEN is None:
        _OPEN = {e["id"] for e in common.load_known(PROP) if e.get("status") == "open"}
    return _OPEN


def classify(src, mode, res):
    """Return the id of the recorded finding whose predicate this minimal failure satisfies."""
    tree = res.ctree
    if tree is None:
        try:
            tree = pyoracle.cpy_parse(pyoracle.prep(src, mode), mode)
        except Exception:  # noqa: BLE001
            return None
    return c01_findings.attribute(pyoracle.prep(src, mode), tree, res.kind, res.detail, open_ids(), mode)


def excluded_shapes(src, tree, mode="exec"):
    """ids of open findings whose syntactic shape occurs in the program (generators avoid these)."""
    return [f for f in c01_findings.features(src, tree, mode) if f in open_ids()]


# ----------------------------------------------------------------------------------------


def check_text(st: Stats, src, family, modes=MODES, reduce=True):
    """Run the oracle on one text in all applicable modes; record stats and failures."""
    for mode in modes:
        r = pyoracle.compare(src, mode)
        if r.kind == "invalid":
            if mode == "exec":
                st.discards += 1
                return
            continue
        classes = astcanon.node_classes(r.ctree)
        nontrivial = len(classes - _TRIVIAL) >= 3
        key = (mode, ast.dump(r.ctree))
        st.case(key, nontrivial, [family, "mode:" + mode], sample={"mode": mode, "src": src} if nontrivial else None,
                max_per_label=2)
        for c in classes:
            st.hist["node:" + c] += 1
        if r.failed:
            record_failure(st, src, mode, r, family, reduce)


def record_failure(st, src, mode, r, family, reduce=True):
    small = src
    if reduce:
        try:
            small = pyoracle.reduce_failure(src, mode, r.kind)
        except RecursionError:
            small = src
        r2 = pyoracle.compare(small, mode)
        if r2.kind != r.kind:
            small, r2 = src, r
    else:
        r2 = r
    fid = classify(small, mode, r2)
    bucket = fid or "%s:%s" % (r2.kind, _bucket_detail(small, r2))
    st.fail(Failure(r2.kind, {"mode": mode, "src": small, "family": family, "original": src if len(src) < 1500 else src[:1500]},
                    r2.detail, finding=fid, bucket=bucket))


def _bucket_detail(src, r):
    if r.kind == "tree-differs":
        # path of the difference without indices
        import re

        return re.sub(r"\[\d+\]", "[]", r.detail.split(":")[0])[-80:]
    if r.kind == "reject":
        # the offending token text, if xonsh names it
        d = r.detail
        return d[d.find("SyntaxError"):][:60]
    return r.detail[:60]


# ----------------------------------------------------------------------------------------
# family (a): corpus


def worker_corpus(arg):
    files, want_embedded, scratch = arg
    st = Stats()
    for path in files:
        src = corpus.read_source(path)
        if not src:
            continue
        try:
            tree = corpus.cpy_parse(src)
        except (SyntaxError, ValueError, RecursionError, MemoryError):
            continue
        for text in corpus.split_statements(src, tree):
            check_text(st, text, "corpus-stmt")
        if want_embedded:
            for text in corpus.embedded_programs(tree):
                check_text(st, text, "corpus-embedded")
    return st


def worker_files(arg):
    """Whole files as single programs (exec mode): state that leaks from one statement into a later one
    (tokenizer flags, indentation stack) only shows in multi-statement texts."""
    files, scratch = arg
    st = Stats()
    for path in files:
        src = corpus.read_source(path)
        if not src or len(src) > 120000:
            continue
        r = pyoracle.compare(src, "exec", do_compile=False)
        if r.kind == "invalid":
            continue
        try:
            tree = r.ctree
            ex = excluded_shapes(pyoracle.prep(src, "exec"), tree)
        except RecursionError:
            ex = ["?"]
        if ex:
            # the file contains shapes of recorded findings: check it statement-group-wise instead (the families above do)
            for f in ex:
                st.excluded_known[f] += 1
            continue
        st.case(("file", path), True, ["whole-file", "mode:exec"], sample={"file": os.path.relpath(path, corpus.STDLIB)}, max_per_label=2)
        if r.failed:
            record_failure(st, src, "exec", r, "whole-file", reduce=True)
    return st


def worker_texts(arg):
    texts, family, scratch = arg
    st = Stats()
    for t in texts:
        check_text(st, t, family)
    return st


# ----------------------------------------------------------------------------------------
# family (c): whitespace mutations that keep CPython's token sequence


def check_generated(st, text, family, modes=("exec",)):
    """Like check_text, but first avoids the shapes of recorded findings (counted)."""
    try:
        tree = pyoracle.cpy_parse(pyoracle.prep(text, "exec"))
    except (SyntaxError, ValueError, RecursionError, MemoryError):
        st.discards += 1
        return False
    ex = excluded_shapes(pyoracle.prep(text, "exec"), tree)
    if ex:
        for f in ex:
            st.excluded_known[f] += 1
        return False
    check_text(st, text, family, modes=modes)
    return True


def worker_ws(arg):
    files, scratch = arg
    st = Stats()
    for path in files:
        src = corpus.read_source(path)
        if not src:
            continue
        try:
            tree = corpus.cpy_parse(src)
        except (SyntaxError, ValueError, RecursionError, MemoryError):
            continue
        for text in corpus.split_statements(src, tree, max_chars=1200):
            for fn, fam in ((pymutate.squeeze_all, "ws-squeezed"), (pymutate.spread_all, "ws-spread"),
                            (pymutate.break_all, "ws-broken-col0"), (lambda s: pymutate.break_all(s, 3, len(s)), "ws-broken-col0")):
                try:
                    v = fn(text)
                except RecursionError:
                    v = None
                if v is not None:
                    check_generated(st, v, fam)
    return st


# ----------------------------------------------------------------------------------------
# family (b): token mutations, Hypothesis-driven


def _statement_pool(files, max_chars=260, limit=6000):
    pool = []
    for path in files:
        src = corpus.read_source(path)
        if not src:
            continue
        try:
            tree = corpus.cpy_parse(src)
        except (SyntaxError, ValueError, RecursionError, MemoryError):
            continue
        for text in corpus.split_statements(src, tree, max_chars=max_chars):
            if 8 <= len(text) <= max_chars:
                pool.append(text)
        for text in corpus.embedded_programs(tree, max_len=max_chars):
            pool.append(text)
        if len(pool) > limit:
            break
    return sorted(set(pool))


def worker_mut(arg):
    seed, n, files, scratch = arg
    from hypothesis import strategies as hs

    st = Stats()
    pool = _statement_pool(files)
    if len(pool) < 50:
        raise common.HarnessError("mutation pool too small: %d" % len(pool))
    edit = hs.tuples(hs.sampled_from(pymutate.OPS), hs.integers(0, 400), hs.sampled_from(pymutate.POOL))
    strat = hs.tuples(hs.integers(0, len(pool) - 1), hs.lists(edit, min_size=1, max_size=3), hs.integers(0, len(pool) - 1))

    def body(v):
        idx, edits, other = v
        src = pool[idx]
        for op, i, repl in edits:
            toks = pymutate.tokens(src)
            if toks is None:
                st.discards += 1
                return
            sp = pymutate.spans(src, toks)
            if op == "replace" and repl == "a" and i % 7 == 0:
                # splice: an expression-ish chunk of another statement
                o = pool[other].strip().split("\n")[0]
                repl = "(" + o + ")" if len(o) < 80 and ":" not in o and "=" not in o else repl
            new = pymutate.apply_edit(src, sp, op, i, repl)
            if new is None:
                st.discards += 1
                return
            src = new
        if src == pool[idx]:
            st.discards += 1
            return
        check_generated(st, src, "token-mutation")

    common.run_given(strat, body, seed, n)
    return st


# ----------------------------------------------------------------------------------------
# family (d): constructed programs in random surface styles


def worker_gen(arg):
    seed, n, budget, scratch = arg
    from hypothesis import strategies as hs

    st = Stats()

    def body(rnd):
        g = pygen.Gen(rnd, budget=budget)
        shape = rnd.randrange(7)
        if shape == 6:
            text = strgen.program(rnd)
            try:
                pyoracle.cpy_parse(text)
            except (SyntaxError, ValueError):
                st.discards += 1
                st.hist["gen-selfcheck-failed"] += 1
                return
            check_generated(st, text, "generated-strings", modes=("exec",))
            return
        if shape == 0:
            tree = ast.Module(body=[ast.Expr(value=g.expr(4))], type_ignores=[])
            modes = MODES
        elif shape == 1:
            tree = ast.Module(body=[g.stmt(2)], type_ignores=[])
            modes = ("exec", "single")
        else:
            tree = g.program(max_stmts=3, depth=2)
            modes = ("exec",)
        src = pygen.render(tree)
        if src is None:
            st.discards += 1
            return
        try:
            pyoracle.cpy_parse(src)
        except (SyntaxError, ValueError, RecursionError, MemoryError):
            st.discards += 1
            st.hist["gen-selfcheck-failed"] += 1
            return
        sty = stylist.Styler(rnd)
        text = sty.restyle(src)
        for t in sty.applied:
            st.hist["style:" + t] += 1
        check_generated(st, text, "generated", modes=modes)

    common.run_given(hs.randoms(use_true_random=False), body, seed, n)
    return st


# ----------------------------------------------------------------------------------------


def _pick_files(run):
    import random

    allf = corpus.all_files()
    gf = corpus.grammar_files()
    if run.tier == "thorough":
        return allf, set(gf)
    rnd = random.Random(run.seed)          # lays out which files the quick tier samples; not inside a property
    rest = [f for f in allf if f not in set(gf)]
    rnd.shuffle(rest)
    return gf + rest[:140], set(gf)


def _replay_case(case):
    r = pyoracle.compare(case["src"], case.get("mode", "exec"))
    if not r.failed:
        return None
    return Failure(r.kind, case, r.detail, finding=classify(case["src"], case.get("mode", "exec"), r))


def main(run):
    astcanon.self_test()
    common.replay_tier(run, _replay_case)
    files, gset = _pick_files(run)
    nw = 16
    files = sorted(files, key=lambda f: (hash_name(f)))
    shards = [files[i::nw] for i in range(nw)]
    common.pool_map(run, __name__, "worker_corpus", [(sh, True, run.scratch) for sh in shards if sh])
    # (c) whitespace variants of a subset, (b) token mutations
    gfiles = sorted(gset)
    wsfiles = files if run.tier == "thorough" else gfiles[:24]
    common.pool_map(run, __name__, "worker_ws", [(wsfiles[i::nw], run.scratch) for i in range(nw) if wsfiles[i::nw]])
    nmut = run.n(1800, 60000)
    common.pool_map(run, __name__, "worker_mut",
                    [(common.worker_seed(run.seed, w), nmut, gfiles[w % 4::4], run.scratch) for w in range(nw)])
    # whole files (multi-statement programs)
    wfiles = [f for f in files if os.path.getsize(f) < 120000]
    wfiles = wfiles if run.tier == "thorough" else wfiles[:160]
    common.pool_map(run, __name__, "worker_files", [(wfiles[i::nw], run.scratch) for i in range(nw) if wfiles[i::nw]])
    ngen = run.n(900, 40000)
    common.pool_map(run, __name__, "worker_gen",
                    [(common.worker_seed(run.seed, 50 + w), ngen, 25 + 10 * (w % 4), run.scratch) for w in range(nw)])
    xin = corpus.xonsh_test_inputs()
    common.pool_map(run, __name__, "worker_texts", [(xin[i::4], "xonsh-test-inputs", run.scratch) for i in range(4)])
    run.assumptions += [
        "input convention of xonsh's own callers: exec/single text ends with a newline, eval text has none",
        "text that the running CPython rejects, encoding declarations/BOM/form feeds and type comments are out of domain",
    ]


def hash_name(f):
    return common.h64(f)


def replay(run, path):
    with open(path) as f:
        d = json.load(f)
    case = d.get("case", d)
    fail = _replay_case(case)
    if fail is None:
        print("replay: property holds on this case")
        return 0
    print("VIOLATION property=%s replay=%s kind=%s %s" % (PROP, path, fail.kind, fail.detail))
    return 1

"""C15 - alias expansion terminates and preserves the user's arguments.

Generator : alias tables over a small name pool (list / string / callable / return-command /
            decorator-led bodies; self loops, 2- and 3-cycles, diamonds, chains), an invoked line,
            a definition order and a second permutation of it.  The complete product over three
            names and a 13-element body set is enumerated (exhaustive part); larger tables are
            drawn by Hypothesis.  A third family runs recursive ExecAlias (string) tables for real.
Oracle    : a reference expander written from the property text (not from eval_alias): expand the
            leading word while it is an alias not yet expanded in this chain; the alias's own
            arguments come first, then the user's, original order; decorators are collected in
            order of appearance; a callable ends the chain.  Compared with Aliases.get() and with
            SubprocSpec.build() (cmd / alias / decorators / args), and between two definition orders.
            Termination: SIGALRM bound of 10 s per case (typical cost 0.1 ms); RecursionError or any
            other exception from resolution counts as a failure.
"""

from __future__ import annotations

import io
import itertools
import signal
import sys

from vlib import common
from vlib.common import Failure, Stats

PROP = "C15"
LEVEL = "exploration"
RULE = ("alias table + invoked line; enumerated completely for 3 names x 13 bodies x invoked name x "
        "user-arg set x leading decorator, plus Hypothesis-drawn tables over 2-7 names and real runs of "
        "recursive string aliases; non-trivial = expansion chain of length >= 2 or a cycle reachable "
        "from the invoked name; distinct = hash of (table in canonical order, invoked line)")

NAMES = ["a", "b", "c", "d", "e", "f", "g"]
PLAIN_HEADS = ["x1", "zz", "true"]
DECOS = ["@error_ignore", "@error_raise", "@thread", "@vdeco"]
ARGS = ["-1", "-2", "--k=v", "w", "p/q", "7", "-"]
# what a user passed as r'~' / @('$HOME') / r'a=~/y': by the time aliases are resolved these are plain strings and
# must be preserved verbatim - only the alias's *own* words are path-expanded
PROTECTED_ARGS = ["~", "~/x", "$HOME", "a=~/y", "$HOME/z", "x:~"]


MAX_HANGS = 4


class _Timeout(Exception):
    pass


def _alarm(signum, frame):
    raise _Timeout()


# ----------------------------------------------------------------------------------------
# reference model


def ref_expand(table, line):
    """table: dict name -> (kind, body) ; kind in list|func|ret ; returns dict describing outcome."""
    line = list(line)
    decos = []
    if len(line) > 1:
        i = 0
        while i < len(line) and line[i] in DECOS:
            decos.append(line[i])
            i += 1
        line = line[i:]
    if not line:
        return {"kind": "empty", "decos": decos}
    head = line[0]
    if head not in table:
        return {"kind": "noalias", "cmd": line, "decos": decos}
    cur = line
    expanded = set()
    chain = 0
    while True:
        name = cur[0]
        if name not in table or name in expanded:
            return {"kind": "cmd", "cmd": cur, "decos": decos, "chain": chain, "cycle": name in expanded}
        kind, body = table[name]
        if kind == "func":
            return {"kind": "func", "func": name, "args": cur[1:], "decos": decos, "chain": chain,
                    "cycle": False}
        expanded.add(name)
        chain += 1
        body = list(body)
        if len(body) > 1:
            i = 0
            while i < len(body) and body[i] in DECOS:
                decos.append(body[i])
                i += 1
            body = body[i:]
        cur = body + cur[1:]


# ----------------------------------------------------------------------------------------
# system under test


_state = {}


def _setup(scratch):
    if _state:
        return _state
    from vlib import session

    XSH = session.load_session(scratch)
    from xonsh.procs.specs import SpecAttrDecoratorAlias

    _state["XSH"] = XSH
    _state["base"] = dict(XSH.aliases._raw)
    _state["vdeco"] = SpecAttrDecoratorAlias({"vmark": True}, "verif decorator")
    signal.signal(signal.SIGALRM, _alarm)
    return _state


def _mk_func(name):
    def fn(args, stdin=None):
        return 0

    fn.__name__ = "fn_" + name
    return fn


def _mk_ret(name, body):
    body = list(body)

    def rc(args, **kw):
        return body + list(args)

    rc.__name__ = "rc_" + name
    return rc


def _install(table_items):
    """(Re)build XSH.aliases from the pristine defaults plus the generated table, in order."""
    from xonsh.aliases import Aliases

    st = _state
    al = st["XSH"].aliases
    al._raw.clear()
    al._raw.update(st["base"])
    al["@vdeco"] = st["vdeco"]
    funcs = {}
    for name, kind, body in table_items:
        if kind == "list":
            al[name] = list(body)
        elif kind == "str":
            al[name] = " ".join(body)
        elif kind == "func":
            al[name] = _mk_func(name)
            funcs[name] = al._raw[name]
        elif kind == "ret":
            al[name] = Aliases.return_command(_mk_ret(name, body))
        else:
            raise common.HarnessError("bad kind %r" % kind)
    return funcs


def _model_table(table_items):
    """What each entry *is* after insertion.  Strings are classified by xonsh itself (list vs
    ExecAlias) - classification is not part of C15 - so we read the class back."""
    al = _state["XSH"].aliases
    out = {}
    for name, kind, body in table_items:
        if kind == "str":
            raw = al._raw[name]
            if isinstance(raw, list):
                out[name] = ("list", list(raw))
            else:
                out[name] = ("func", None)
        elif kind == "ret":
            out[name] = ("ret", list(body))
        else:
            out[name] = (kind, list(body) if body else [])
    return out


def _build2(SubprocSpec, line):
    return SubprocSpec.build(line)


def test_build_frame(SubprocSpec, line):
    # SubprocSpec.resolve_stack() asserts that the frame three levels up is run_subproc() or a
    # function whose name starts with "test_" (xonsh's own allowance for direct callers)
    return _build2(SubprocSpec, line)


def _observe(line, funcs):
    """Resolve `line` through Aliases.get and SubprocSpec.build; normalise callables to names."""
    from xonsh.procs.specs import SubprocSpec

    al = _state["XSH"].aliases

    def norm(x):
        if isinstance(x, str):
            return x
        for n, f in al._raw.items():
            if f is x:
                return ("callable", n)
        return ("callable?", repr(x)[:60])

    def deco_names(ds):
        out = []
        for d in ds:
            for n, f in al._raw.items():
                if f is d:
                    out.append(n)
                    break
            else:
                out.append("?")
        return out

    obs = {}
    signal.alarm(10)
    try:
        ds = []
        r = al.get(list(line), None, decorators=ds)
        obs["get"] = None if r is None else [norm(x) for x in r]
        obs["get_decos"] = deco_names(ds)
        try:
            sp = test_build_frame(SubprocSpec, list(line))
            obs["spec_cmd"] = [norm(x) for x in sp.cmd]
            obs["spec_alias"] = (None if sp.alias is None else
                                 norm(sp.alias) if callable(sp.alias) else [norm(x) for x in sp.alias])
            obs["spec_decos"] = deco_names(sp.decorators)
            obs["spec_args"] = list(sp.args)
        except _Timeout:
            raise
        except Exception as e:  # noqa: BLE001
            obs["spec_exc"] = "%s: %s" % (type(e).__name__, e)
    finally:
        signal.alarm(0)
    return obs


def check_case(case):
    """case = {'table': [[name, kind, body], ...], 'line': [...], 'perm': [indices]}.
    Returns (failure-or-None, nontrivial, labels)."""
    if _state.get("hangs", 0) >= MAX_HANGS:
        # this worker has already reported hangs: every further one would cost the whole bound again
        return None, False, ["skipped-after-%d-hangs" % MAX_HANGS]
    items = [tuple(x) for x in case["table"]]
    line = list(case["line"])
    old_err = sys.stderr
    sys.stderr = io.StringIO()
    try:
        try:
            funcs = _install(items)
            model = _model_table(items)
            exp = ref_expand(model, line)
            obs = _observe(line, funcs)
            perm = case.get("perm")
            obs2 = None
            if perm:
                _install([items[i] for i in perm])
                obs2 = _observe(line, funcs)
        except _Timeout:
            _state["hangs"] = _state.get("hangs", 0) + 1
            return Failure("hang", case, "alias resolution did not return within 10 s"), True, ["hang"]
        except RecursionError as e:
            return Failure("recursion", case, "RecursionError during resolution: %s" % e), True, ["exc"]
        except Exception as e:  # noqa: BLE001
            return Failure("exception", case, "%s: %s" % (type(e).__name__, e),
                           bucket="exception:" + type(e).__name__), True, ["exc"]
    finally:
        sys.stderr = old_err

    nontrivial = exp.get("chain", 0) >= 2 or bool(exp.get("cycle"))
    labels = ["outcome:" + exp["kind"], "chain:%d" % min(exp.get("chain", 0), 5)]
    if exp.get("cycle"):
        labels.append("cycle")
    if exp.get("decos"):
        labels.append("decorators:%d" % min(len(exp["decos"]), 3))

    problems = []
    lead = 0
    if len(line) > 1:
        while lead < len(line) and line[lead] in DECOS:
            lead += 1
    chain_decos = exp["decos"][lead:]
    if exp["kind"] == "noalias":
        if lead == 0 and obs["get"] is not None:
            problems.append("get() returned %r for a non-alias head" % (obs["get"],))
        if "spec_exc" not in obs:
            if obs["spec_cmd"] != exp["cmd"]:
                problems.append("spec.cmd %r != %r" % (obs["spec_cmd"], exp["cmd"]))
            if obs["spec_decos"] != exp["decos"]:
                problems.append("spec.decorators %r != %r" % (obs["spec_decos"], exp["decos"]))
    elif exp["kind"] in ("cmd", "func"):
        if exp["kind"] == "cmd":
            want = list(exp["cmd"])
        else:
            want = [("callable", exp["func"])] + list(exp["args"])
        if lead == 0:
            if obs["get"] != want:
                problems.append("Aliases.get gave %r, reference %r" % (obs["get"], want))
            if obs["get_decos"] != chain_decos:
                problems.append("decorators from get %r, reference %r" % (obs["get_decos"], chain_decos))
        if "spec_exc" in obs:
            problems.append("SubprocSpec.build raised %s" % obs["spec_exc"])
        else:
            if exp["kind"] == "cmd":
                if obs["spec_cmd"] != want:
                    problems.append("spec.cmd %r, reference %r" % (obs["spec_cmd"], want))
            else:
                if obs["spec_alias"] != ("callable", exp["func"]):
                    problems.append("spec.alias %r, reference callable %r" % (obs["spec_alias"], exp["func"]))
                if obs["spec_cmd"] != list(exp["args"]):
                    problems.append("callable alias argv %r, reference %r" % (obs["spec_cmd"], exp["args"]))
            if obs["spec_decos"] != exp["decos"]:
                problems.append("spec.decorators %r, reference %r" % (obs["spec_decos"], exp["decos"]))
            if obs["spec_args"] != line:
                problems.append("spec.args %r != invoked line %r" % (obs["spec_args"], line))
    if obs2 is not None and obs2 != obs:
        problems.append("definition order changes the outcome: %r vs %r" % (obs, obs2))
    if problems:
        kind = "order-dependent" if (obs2 is not None and obs2 != obs and len(problems) == 1) else "expansion-differs"
        return Failure(kind, case, "; ".join(problems), finding=classify(case, exp, obs),
                       bucket=kind + ":" + problems[0].split(" ")[0]), nontrivial, labels
    return None, nontrivial, labels


def classify(case, exp, obs):
    """Narrow predicates of the recorded findings (evaluated on the failing case)."""
    return None


def canon_key(case):
    return (tuple(sorted((n, k, tuple(b)) for n, k, b in (tuple(x) for x in case["table"]))), tuple(case["line"]))


# ----------------------------------------------------------------------------------------
# exhaustive small scope

BODY_SET = [
    None,                           # undefined
    ("list", ["a"]), ("list", ["b"]), ("list", ["c"]),
    ("list", ["a", "-1"]), ("list", ["b", "-2"]), ("list", ["c", "-3"]),
    ("list", ["x1", "-4"]),
    ("func", []),
    ("list", ["@vdeco", "a", "-5"]), ("list", ["@error_ignore", "b"]),
    ("ret", ["c", "-6"]),
    ("list", ["@thread", "x1"]),
]


def exhaustive_cases():
    names = ["a", "b", "c"]
    for combo in itertools.product(range(len(BODY_SET)), repeat=3):
        items = []
        for n, bi in zip(names, combo):
            b = BODY_SET[bi]
            if b is not None:
                items.append([n, b[0], b[1]])
        if not items:
            continue
        perm = list(reversed(range(len(items)))) if len(items) > 1 else None
        for inv in names:
            for uargs in ([], ["u", "-v"], ["~", "$HOME"]):
                if uargs and uargs[0] == "~" and any(it[1] == "ret" for it in items):
                    # a return_command alias hands the arguments back as part of *its own* command, whose words
                    # are path-expanded like any alias body: verbatim delivery cannot be demanded there
                    continue
                for lead in ([], ["@error_raise"]):
                    line = lead + [inv] + uargs
                    yield {"table": items, "line": line, "perm": perm}


def worker_exhaustive(arg):
    shard, nshards, scratch = arg
    _setup(scratch)
    st = Stats()
    for i, case in enumerate(exhaustive_cases()):
        if i % nshards != shard:
            continue
        f, nt, labels = check_case(case)
        st.case(canon_key(case), nt, ["exhaustive"] + labels, sample=case if nt else None, max_per_label=1)
        if f is not None:
            st.fail(f)
    return st


# ----------------------------------------------------------------------------------------
# generated tables


def case_strategy():
    from hypothesis import strategies as st

    @st.composite
    def cases(draw):
        n = draw(st.integers(2, 7))
        names = NAMES[:n]
        heads = names + PLAIN_HEADS
        items = []
        for nm in names:
            kind = draw(st.sampled_from(["list", "list", "list", "str", "func", "ret", "undef"]))
            if kind == "undef":
                continue
            if kind == "func":
                items.append([nm, "func", []])
                continue
            nd = draw(st.sampled_from([0, 0, 0, 1, 2]))
            decos = [draw(st.sampled_from(DECOS)) for _ in range(nd)]
            # bias heads towards other aliases so chains and cycles are frequent
            head = draw(st.sampled_from(names + names + heads))
            # a decorator alias name that is NOT in front is an ordinary word (`find-dec = 'grep -rn @unthread'`)
            rest = draw(st.lists(st.sampled_from(ARGS + DECOS[:3]), max_size=3))
            body = decos + [head] + rest
            if kind == "str":
                # a string body goes through xonsh's own classifier/splitter; keep it to tokens
                # that the splitter returns unchanged
                body = [t for t in body if t not in ("p/q",)]
            items.append([nm, kind, body])
        if not items:
            items.append([names[0], "list", [names[-1], "-1"]])
        order = draw(st.permutations(range(len(items))))
        items = [items[i] for i in order]
        perm = list(draw(st.permutations(range(len(items))))) if len(items) > 1 else None
        lead = [draw(st.sampled_from(DECOS)) for _ in range(draw(st.sampled_from([0, 0, 0, 1, 2])))]
        inv = draw(st.sampled_from(names + names + PLAIN_HEADS))
        pool = ARGS + ["u", "v w", "a", "b"] + DECOS[:3]      # decorator names among the user's arguments are arguments
        if not any(it[1] == "ret" for it in items):
            pool = pool + PROTECTED_ARGS        # (see exhaustive_cases: not through return_command aliases)
        uargs = draw(st.lists(st.sampled_from(pool), max_size=4))
        return {"table": items, "line": lead + [inv] + uargs, "perm": perm}

    return cases()


def worker_random(arg):
    seed, n, scratch = arg
    _setup(scratch)
    st = Stats()

    def body(case):
        f, nt, labels = check_case(case)
        st.case(canon_key(case), nt, ["generated"] + labels, sample=case if nt else None, max_per_label=1)
        if f is not None:
            st.fail(f)

    common.run_given(case_strategy(), body, seed, n)
    # minimise one representative per bucket with Hypothesis' shrinker
    seen = {}
    for f in st.failures:
        seen.setdefault(f.bucket, f)
    out = []
    for b, f in seen.items():
        def still(case, _b=b):
            g, _, _ = check_case(case)
            return g is not None and g.bucket == _b
        m = common.minimize(case_strategy(), still, seed, n, seconds=20)
        if m is not None:
            g, _, _ = check_case(m)
            if g is not None:
                f = g
        out.append(f)
    st.failures = out
    return st


# ----------------------------------------------------------------------------------------
# recursive string (ExecAlias) tables, run for real


def exec_cases(seed, n):
    import random  # used only to enumerate a fixed, seed-determined family (not inside a property)

    rnd = random.Random(seed)
    names = ["p", "q", "r", "s"]
    for _ in range(n):
        k = rnd.randint(1, 4)
        tbl = {}
        for nm in names[:k]:
            parts = []
            for j in range(rnd.randint(1, 3)):
                if rnd.random() < 0.55:
                    parts.append(("call", rnd.choice(names[:k])))
                else:
                    parts.append(("rec", "%s%d" % (nm, j)))
            tbl[nm] = parts
        yield {"exec_table": tbl, "invoke": rnd.choice(names[:k])}


def _exec_expected(tbl, name, stack=()):
    """None when a cycle is reachable (then only termination is required)."""
    if name in stack:
        return None
    out = []
    for kind, x in tbl[name]:
        if kind == "rec":
            out.append(x)
        else:
            sub = _exec_expected(tbl, x, stack + (name,))
            if sub is None:
                return None
            out.extend(sub)
    return out


def check_exec_case(case):
    from vlib import session

    st = _state
    al = st["XSH"].aliases
    al._raw.clear()
    al._raw.update(st["base"])
    rec = session.Recorder()
    al["rec"] = rec.make("rec")
    tbl = case["exec_table"]
    for nm, parts in tbl.items():
        al[nm] = " && ".join(("rec " + x) if k == "rec" else (x + " 1") for k, x in parts) + " && true"
    exp = _exec_expected(tbl, case["invoke"])
    old_err = sys.stderr
    sys.stderr = io.StringIO()
    signal.alarm(20)
    exc = None
    try:
        try:
            session.xexec(case["invoke"] + " u\n")
        except _Timeout:
            return Failure("hang", case, "running a recursive string alias did not return within 20 s"), True
        except RecursionError as e:
            return Failure("recursion", case, "RecursionError: %s" % e), True
        except BaseException as e:  # noqa: BLE001
            exc = e
    finally:
        signal.alarm(0)
        sys.stderr = old_err
    got = [c[1][0] for c in rec.calls]
    if exp is not None:
        if exc is not None or got != exp:
            return Failure("exec-alias-differs", case, "ran %r (exc %r), reference %r" % (got, exc, exp)), False
        return None, False
    if exc is not None and type(exc).__name__ not in ("CalledProcessError", "XonshCalledProcessError"):
        return Failure("exception", case, "%s: %s" % (type(exc).__name__, exc),
                       bucket="exec-exception:" + type(exc).__name__), True
    return None, True


def worker_exec(arg):
    seed, n, scratch = arg
    _setup(scratch)
    import os

    # helper threads of failing aliases print tracebacks to fd 2; keep the check's output clean
    os.dup2(os.open(os.devnull, os.O_WRONLY), 2)
    st = Stats()
    for case in exec_cases(seed, n):
        r = check_exec_case(case)
        f, nt = r
        st.case(("exec", sorted(case["exec_table"].items()), case["invoke"]), nt,
                ["exec-alias", "exec-cyclic" if nt else "exec-acyclic"], sample=case, max_per_label=1)
        if f is not None:
            st.fail(f)
    return st


# ----------------------------------------------------------------------------------------


def _replay_case(case):
    if "exec_table" in case:
        return check_exec_case(case)[0]
    return check_case(case)[0]


def main(run):
    _setup(run.scratch)
    common.replay_tier(run, _replay_case)
    nsh = 8
    args = [(i, nsh, run.scratch) for i in range(nsh)]
    common.pool_map(run, __name__, "worker_exhaustive", args)
    run.extra["exhaustive_subspace"] = "3 names x 13 bodies x invoked name x 3 user-argument sets (one with ~ / $HOME) x 2 leading-decorator settings"
    nw = 8 if run.tier == "quick" else 16
    per = run.n(2500, 60000)
    common.pool_map(run, __name__, "worker_random",
                    [(common.worker_seed(run.seed, w), per, run.scratch) for w in range(nw)])
    nexec = run.n(60, 1200)
    common.pool_map(run, __name__, "worker_exec",
                    [(common.worker_seed(run.seed, 100 + w), nexec, run.scratch) for w in range(4)])
    run.assumptions += [
        "alias bodies consisting only of decorator aliases (no command word) are not generated",
        "string aliases are classified (list vs exec) by xonsh itself; only the expansion is modelled",
    ]


def replay(run, path):
    import json

    with open(path) as f:
        d = json.load(f)
    case = d.get("case", d)
    _setup(run.scratch)
    if "exec_table" in case:
        f, _ = check_exec_case(case)
    else:
        f, _, _ = check_case(case)
    if f is None:
        print("replay: property holds on this case")
        return 0
    print("VIOLATION property=%s replay=%s kind=%s %s" % (PROP, path, f.kind, f.detail))
    return 1

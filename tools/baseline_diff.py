#!/usr/bin/env python3
"""Compare a junit xml of the repository suite with BASELINE.json's stable_pass list.
usage: baseline_diff.py <junit.xml>   -> prints stable tests that did not pass; exit 1 if any."""
import json, sys, xml.etree.ElementTree as ET
base = json.load(open("/root/.vp/BASELINE.json"))
stable = set(base["stable_pass"])
passed, other = set(), {}
for tc in ET.parse(sys.argv[1]).getroot().iter("testcase"):
    name = "%s::%s" % (tc.get("classname"), tc.get("name"))
    bad = [c.tag for c in tc if c.tag in ("failure", "error", "skipped")]
    if bad:
        other[name] = bad[0]
    else:
        passed.add(name)
missing = sorted(stable - passed)
print("stable_pass:", len(stable), "passed now:", len(stable & passed), "not passed:", len(missing))
for m in missing[:80]:
    print("  ", other.get(m, "absent"), m)
sys.exit(1 if missing else 0)

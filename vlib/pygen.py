"""Constructive generator of Python programs as `ast` trees.

`Gen(rnd)` draws every choice from `rnd`, which is the object Hypothesis' `st.randoms(
use_true_random=False)` hands out - so all randomness stays inside Hypothesis (replayable from
VERIF_SEED, shrinkable), while the recursive construction itself is plain fast Python.
Every statement and expression form of the 3.12 grammar is constructed; the tree is rendered with
CPython's own `ast.unparse` and restyled by vlib.stylist.  Validity is never assumed: the caller
self-checks the text with `ast.parse` (a rejected text is a counted harness discard)."""

from __future__ import annotations

import ast

# identifiers deliberately include soft keywords and names that are redirect prefixes / commands in xonsh
NAMES = ["a", "b", "c", "x", "y", "z", "foo", "self", "match", "case", "type", "_", "e", "o", "err", "out", "all",
         "ls", "echo", "cd", "n1", "ñ", "Δ", "print", "len", "i", "j", "k"]
ATTRS = ["a", "b", "real", "x_1", "match", "e", "err", "append"]
STRS = ["", "a", "hello world", "it's", 'say "hi"', "tab\there", "nl\nline", "back\\slash", "{brace}", "$HOME", "~", "*.py",
        "a b  c", "ünï", "\U0001f600", "%s", "#nocomment", "`bt`", "!bang", "'''", '"""', "\x00\x7f", "&&", "||", "|", ">", "2>&1",
        "@(x)", "$(ls)", "![a]", "${x}", "\\", "\\n", "\r", "l1\nl2\nl3\nl4", "doc\n\n  indented\nlast\n", "ab cd ef"]
BYTES = [b"", b"ab", b"\x00\xff", b"it's", b'q"q', b"\\"]
NUMS = [0, 1, 2, 7, 10, 255, 1000000, 2 ** 70, 0.0, 1.5, 1e10, 1e-7, 3.14, 1e308, 1j, 0j, 2.5j]
SINGLETONS = [None, True, False, Ellipsis]
BINOPS = [ast.Add, ast.Sub, ast.Mult, ast.Div, ast.FloorDiv, ast.Mod, ast.Pow, ast.LShift, ast.RShift, ast.BitOr,
          ast.BitXor, ast.BitAnd, ast.MatMult]
UNOPS = [ast.UAdd, ast.USub, ast.Not, ast.Invert]
CMPOPS = [ast.Eq, ast.NotEq, ast.Lt, ast.LtE, ast.Gt, ast.GtE, ast.Is, ast.IsNot, ast.In, ast.NotIn]


class Gen:
    def __init__(self, rnd, budget=40, names=None):
        self.r = rnd
        self.budget = budget
        self.names = names or NAMES

    # -- primitives ----------------------------------------------------------------------
    def k(self, n):
        return self.r.randrange(n)

    def pick(self, xs):
        return xs[self.r.randrange(len(xs))]

    def chance(self, num, den):
        return self.r.randrange(den) < num

    def many(self, fn, lo, hi):
        return [fn() for _ in range(lo + self.k(hi - lo + 1))]

    def name(self, ctx=None):
        return ast.Name(id=self.pick(self.names), ctx=ctx or ast.Load())

    def const(self):
        c = self.k(10)
        if c < 4:
            v = self.pick(NUMS)
        elif c < 7:
            v = self.pick(STRS)
        elif c < 8:
            v = self.pick(BYTES)
        elif c < 9:
            v = self.pick(SINGLETONS)
        else:
            v = "".join(chr(self.pick([0x20, 0x41, 0x7a, 0x27, 0x22, 0x5c, 0x7b, 0x7d, 0xe9, 0x4e2d, 0x1f600, 0x0a, 0x09, 0x24]))
                        for _ in range(self.k(6)))
        return ast.Constant(value=v)

    def leaf(self):
        return self.name() if self.chance(3, 5) else self.const()

    # -- expressions ---------------------------------------------------------------------
    def expr(self, depth=3, in_func=False, in_async=False):
        self.budget -= 1
        if depth <= 0 or self.budget <= 0 or self.chance(1, 4):
            return self.leaf()
        d = depth - 1

        def e():
            return self.expr(d, in_func, in_async)

        c = self.k(24 if not in_func else 27)
        if c == 0:
            return ast.BinOp(left=e(), op=self.pick(BINOPS)(), right=e())
        if c == 1:
            return ast.UnaryOp(op=self.pick(UNOPS)(), operand=e())
        if c == 2:
            return ast.BoolOp(op=self.pick([ast.And, ast.Or])(), values=self.many(e, 2, 3))
        if c == 3:
            n = 1 + self.k(3)
            return ast.Compare(left=e(), ops=[self.pick(CMPOPS)() for _ in range(n)], comparators=[e() for _ in range(n)])
        if c == 4:
            return ast.IfExp(test=e(), body=e(), orelse=e())
        if c == 5:
            return ast.Lambda(args=self.arguments(d, in_func, in_async, annotate=False), body=e())
        if c in (6, 7):
            args = [ast.Starred(value=e(), ctx=ast.Load()) if self.chance(1, 5) else e() for _ in range(self.k(4))]
            kws, seen = [], set()
            for _ in range(self.k(3)):
                kn = None if self.chance(1, 4) else self.pick(["k", "sep", "end", "match", "e", "file"])
                if kn is not None and kn in seen:
                    continue
                seen.add(kn)
                kws.append(ast.keyword(arg=kn, value=e()))
            return ast.Call(func=e(), args=args, keywords=kws)
        if c == 8:
            return ast.Attribute(value=e(), attr=self.pick(ATTRS), ctx=ast.Load())
        if c in (9, 10):
            return ast.Subscript(value=e(), slice=self.slice(d, in_func, in_async), ctx=ast.Load())
        if c == 11:
            return ast.List(elts=[ast.Starred(value=e(), ctx=ast.Load()) if self.chance(1, 6) else e() for _ in range(self.k(4))],
                            ctx=ast.Load())
        if c == 12:
            return ast.Tuple(elts=[ast.Starred(value=e(), ctx=ast.Load()) if self.chance(1, 6) else e() for _ in range(self.k(4))],
                             ctx=ast.Load())
        if c == 13:
            return ast.Set(elts=self.many(e, 1, 3))
        if c == 14:
            n = self.k(4)
            keys = [None if self.chance(1, 5) else e() for _ in range(n)]
            return ast.Dict(keys=keys, values=[e() for _ in range(n)])
        if c == 15:
            return ast.ListComp(elt=e(), generators=self.comprehensions(d, in_func, in_async))
        if c == 16:
            return ast.SetComp(elt=e(), generators=self.comprehensions(d, in_func, in_async))
        if c == 17:
            return ast.GeneratorExp(elt=e(), generators=self.comprehensions(d, in_func, in_async))
        if c == 18:
            return ast.DictComp(key=e(), value=e(), generators=self.comprehensions(d, in_func, in_async))
        if c == 19:
            return ast.NamedExpr(target=self.name(ast.Store()), value=e())
        if c in (20, 21):
            return self.joinedstr(d, in_func, in_async)
        if c in (22, 23):
            return self.leaf()
        if c == 24:
            return ast.Yield(value=None if self.chance(1, 3) else e())
        if c == 25:
            return ast.YieldFrom(value=e())
        if c == 26:
            return ast.Await(value=e()) if in_async else self.leaf()
        return self.leaf()

    def slice(self, d, in_func, in_async):
        def e():
            return self.expr(d, in_func, in_async)

        def item():
            if self.chance(1, 3):
                return ast.Slice(lower=None if self.chance(1, 2) else e(), upper=None if self.chance(1, 2) else e(),
                                 step=None if self.chance(2, 3) else e())
            return e()
        if self.chance(1, 4):
            return ast.Tuple(elts=[item() for _ in range(2 + self.k(2))], ctx=ast.Load())
        return item()

    def comprehensions(self, d, in_func, in_async):
        out = []
        for _ in range(1 + self.k(2)):
            out.append(ast.comprehension(target=self.target(d, 1), iter=self.expr(d, in_func, in_async),
                                         ifs=[self.expr(d, in_func, in_async) for _ in range(self.k(3))],
                                         is_async=1 if (in_async and self.chance(1, 4)) else 0))
        return out

    def joinedstr(self, d, in_func, in_async):
        parts = []
        for _ in range(self.k(5)):
            if self.chance(2, 5):
                lit = self.pick(["a", " b ", "{", "}", "x=", "\n", "'", '"', "\\", "%d", ":", "!", "é", "{{", "#"])
                if parts and isinstance(parts[-1], ast.Constant):
                    parts[-1] = ast.Constant(value=parts[-1].value + lit)
                else:
                    parts.append(ast.Constant(value=lit))
            else:
                spec = None
                s = self.k(6)
                if s == 0:
                    spec = ast.JoinedStr(values=[ast.Constant(value=self.pick([">10", "x", ".2f", "^", "%Y", " ", "08.3f"]))])
                elif s == 1:
                    spec = ast.JoinedStr(values=[ast.FormattedValue(value=self.expr(d, in_func, in_async), conversion=-1, format_spec=None)])
                elif s == 2:
                    spec = ast.JoinedStr(values=[ast.Constant(value=">"),
                                                 ast.FormattedValue(value=self.expr(d, in_func, in_async), conversion=-1, format_spec=None)])
                parts.append(ast.FormattedValue(value=self.expr(d, in_func, in_async),
                                                conversion=self.pick([-1, -1, -1, 114, 115, 97]), format_spec=spec))
        return ast.JoinedStr(values=parts)

    def arguments(self, d, in_func, in_async, annotate=True):
        pool = ["p", "q", "r", "s", "t", "u", "v", "w"]
        self.r.shuffle(pool)

        def arg():
            a = ast.arg(arg=pool.pop())
            if annotate and self.chance(1, 4):
                a.annotation = self.expr(d, in_func, in_async)
            return a
        posonly = [arg() for _ in range(self.k(3) if self.chance(1, 3) else 0)]
        regular = [arg() for _ in range(self.k(3))]
        kwonly = [arg() for _ in range(self.k(3) if self.chance(1, 3) else 0)]
        vararg = kwarg = None
        if self.chance(1, 4):
            vararg = ast.arg(arg="args")
            if annotate and self.chance(1, 4):
                vararg.annotation = self.expr(d, in_func, in_async)
        if self.chance(1, 4):
            kwarg = ast.arg(arg="kw")
            if annotate and self.chance(1, 4):
                kwarg.annotation = self.expr(d, in_func, in_async)
        nd = self.k(len(posonly) + len(regular) + 1)
        defaults = [self.expr(d, in_func, in_async) for _ in range(nd)]
        kw_defaults = [None if self.chance(1, 2) else self.expr(d, in_func, in_async) for _ in kwonly]
        return ast.arguments(posonlyargs=posonly, args=regular, vararg=vararg, kwonlyargs=kwonly, kw_defaults=kw_defaults,
                             kwarg=kwarg, defaults=defaults)

    def target(self, d, nest=2, ctx=ast.Store):
        c = self.k(8 if nest > 0 else 5)
        if c < 3:
            return self.name(ctx())
        if c == 3:
            return ast.Attribute(value=self.name(), attr=self.pick(ATTRS), ctx=ctx())
        if c == 4:
            return ast.Subscript(value=self.name(), slice=self.expr(min(d, 1)), ctx=ctx())
        elts = [self.target(d, nest - 1, ctx) for _ in range(1 + self.k(3))]
        if ctx is ast.Store and self.chance(1, 4):
            i = self.k(len(elts))
            elts[i] = ast.Starred(value=elts[i], ctx=ast.Store())
        return (ast.List if self.chance(1, 4) else ast.Tuple)(elts=elts, ctx=ctx())

    # -- patterns ------------------------------------------------------------------------
    def pattern(self, d=2):
        c = self.k(12 if d > 0 else 6)
        if c == 0:
            return ast.MatchValue(value=ast.Constant(value=self.pick([0, 1, 7, "a", "it's", 1.5, 2j, b"b", ""])))
        if c == 1:
            return ast.MatchValue(value=ast.UnaryOp(op=ast.USub(), operand=ast.Constant(value=self.pick([1, 2.5]))))
        if c == 2:
            return ast.MatchValue(value=ast.Attribute(value=ast.Name(id=self.pick(["a", "foo", "x"]), ctx=ast.Load()),
                                                      attr=self.pick(ATTRS), ctx=ast.Load()))
        if c == 3:
            return ast.MatchSingleton(value=self.pick([None, True, False]))
        if c == 4:
            return ast.MatchAs(pattern=None, name=self.pick(["p", "q", "r", "rest", "match", "case"]))
        if c == 5:
            return ast.MatchAs(pattern=None, name=None)
        if c in (6, 7):
            ps = [self.pattern(d - 1) for _ in range(self.k(4))]
            if self.chance(1, 3):
                ps.insert(self.k(len(ps) + 1), ast.MatchStar(name=None if self.chance(1, 2) else "rest"))
            return ast.MatchSequence(patterns=ps)
        if c == 8:
            keys = []
            for kv in [0, 1, "k", "j", 2.5][:self.k(3)]:
                keys.append(ast.Constant(value=kv))
            return ast.MatchMapping(keys=keys, patterns=[self.pattern(d - 1) for _ in keys], rest="rest" if self.chance(1, 3) else None)
        if c == 9:
            kn = ["x", "y", "z"][:self.k(3)]
            return ast.MatchClass(cls=ast.Name(id=self.pick(["Point", "int", "str"]), ctx=ast.Load()),
                                  patterns=[self.pattern(d - 1) for _ in range(self.k(3))], kwd_attrs=kn,
                                  kwd_patterns=[self.pattern(d - 1) for _ in kn])
        if c == 10:
            return ast.MatchOr(patterns=[self.pattern(d - 1) for _ in range(2 + self.k(2))])
        return ast.MatchAs(pattern=self.pattern(d - 1), name=self.pick(["p", "q", "r"]))

    # -- statements ----------------------------------------------------------------------
    def body(self, depth, lo=1, hi=3, **ctx):
        return [self.stmt(depth, **ctx) for _ in range(lo + self.k(hi - lo + 1))]

    def stmt(self, depth=2, in_func=False, in_loop=False, in_async=False):
        self.budget -= 1
        ctx = dict(in_func=in_func, in_loop=in_loop, in_async=in_async)
        ed = 2 if self.budget > 10 else 1

        def e():
            return self.expr(ed, in_func, in_async)

        if depth > 0 and self.budget > 0 and self.chance(2, 5):
            return self.compound(depth - 1, e, ctx)
        c = self.k(20)
        if c < 4:
            return ast.Expr(value=e())
        if c < 7:
            return ast.Assign(targets=[self.target(ed) for _ in range(1 + (1 if self.chance(1, 4) else 0))], value=e())
        if c == 7:
            return ast.AugAssign(target=self.target(ed, 0), op=self.pick(BINOPS)(), value=e())
        if c == 8:
            return ast.AnnAssign(target=self.name(ast.Store()), annotation=e(), value=None if self.chance(1, 3) else e(), simple=1)
        if c == 9:
            return ast.Delete(targets=[self.target(ed, 1, ast.Del) for _ in range(1 + self.k(2))])
        if c == 10:
            return ast.Pass()
        if c == 11:
            return ast.Assert(test=e(), msg=None if self.chance(1, 2) else e())
        if c == 12:
            exc = None if self.chance(1, 4) else e()
            return ast.Raise(exc=exc, cause=e() if (exc is not None and self.chance(1, 3)) else None)
        if c == 13:
            seen, names = set(), []
            for _ in range(1 + self.k(2)):
                n = self.pick(["os", "os.path", "a.b.c", "sys"])
                if n in seen:
                    continue
                seen.add(n)
                names.append(ast.alias(name=n, asname=self.pick([None, None, "m", "match"])))
            return ast.Import(names=names)
        if c == 14:
            level = self.pick([0, 0, 1, 2, 3])
            module = self.pick(["os", "a.b", None]) if level else self.pick(["os", "a.b"])
            if self.chance(1, 5):
                names = [ast.alias(name="*", asname=None)]
            else:
                names = [ast.alias(name=n, asname=self.pick([None, None, "z"])) for n in ["p", "q", "path"][:1 + self.k(3)]]
            return ast.ImportFrom(module=module, names=names, level=level)
        if c == 15:
            return ast.TypeAlias(name=ast.Name(id=self.pick(["T", "Alias"]), ctx=ast.Store()), type_params=[], value=e())
        if c == 16 and in_func:
            return ast.Return(value=None if self.chance(1, 3) else e())
        if c == 17 and in_func:
            return (ast.Nonlocal if self.chance(1, 4) else ast.Global)(names=["g1", "g2"][:1 + self.k(2)])
        if c == 18 and in_loop:
            return self.pick([ast.Break, ast.Continue])()
        return ast.Expr(value=e())

    def compound(self, depth, e, ctx):
        c = self.k(9)
        in_async = ctx["in_async"]
        if c == 0:
            node = ast.If(test=e(), body=self.body(depth, **ctx), orelse=[])
            cur = node
            for _ in range(self.k(3)):
                nxt = ast.If(test=e(), body=self.body(depth, **ctx), orelse=[])
                cur.orelse = [nxt]
                cur = nxt
            if self.chance(1, 2):
                cur.orelse = self.body(depth, **ctx)
            return node
        if c == 1:
            return ast.While(test=e(), body=self.body(depth, **dict(ctx, in_loop=True)),
                             orelse=self.body(depth, **ctx) if self.chance(1, 4) else [])
        if c == 2:
            cls = ast.AsyncFor if (in_async and self.chance(1, 2)) else ast.For
            return cls(target=self.target(1, 1), iter=e(), body=self.body(depth, **dict(ctx, in_loop=True)),
                       orelse=self.body(depth, **ctx) if self.chance(1, 4) else [])
        if c == 3:
            star = self.chance(1, 5)
            nh = self.k(3)
            handlers = []
            for i in range(nh):
                typ = None if (i == nh - 1 and not star and self.chance(1, 3)) else e()
                name = self.pick([None, "ex", "e", "err"]) if typ is not None else None
                handlers.append(ast.ExceptHandler(type=typ, name=name, body=self.body(depth, **ctx)))
            orelse = self.body(depth, **ctx) if (handlers and self.chance(1, 3)) else []
            final = self.body(depth, **ctx) if self.chance(1, 3) else []
            if not handlers and not final:
                final = [ast.Pass()]
            cls = ast.TryStar if (star and handlers) else ast.Try
            return cls(body=self.body(depth, **ctx), handlers=handlers, orelse=orelse, finalbody=final)
        if c == 4:
            items = [ast.withitem(context_expr=e(), optional_vars=None if self.chance(1, 2) else self.target(1, 1))
                     for _ in range(1 + self.k(3))]
            cls = ast.AsyncWith if (in_async and self.chance(1, 2)) else ast.With
            return cls(items=items, body=self.body(depth, **ctx))
        if c in (5, 6):
            is_async = self.chance(1, 4)
            cls = ast.AsyncFunctionDef if is_async else ast.FunctionDef
            tps = []
            if self.chance(1, 6):
                tps = [ast.TypeVar(name="T", bound=None), ast.TypeVarTuple(name="Ts"), ast.ParamSpec(name="P")][:1 + self.k(3)]
            fctx = dict(in_func=True, in_loop=False, in_async=is_async)
            return cls(name=self.pick(["f", "g", "match", "_h"]), args=self.arguments(1, False, False),
                       body=self.body(depth, **fctx), decorator_list=[self.decorator() for _ in range(self.k(3) if self.chance(1, 3) else 0)],
                       returns=None if self.chance(2, 3) else e(), type_params=tps)
        if c == 7:
            kws = [ast.keyword(arg=kn, value=e()) for kn in ["metaclass", "flag"][:self.k(3) if self.chance(1, 3) else 0]]
            return ast.ClassDef(name=self.pick(["A", "B", "case"]), bases=[e() for _ in range(self.k(3))], keywords=kws,
                                body=self.body(depth, in_func=False, in_loop=False, in_async=False),
                                decorator_list=[self.decorator() for _ in range(self.k(2) if self.chance(1, 3) else 0)], type_params=[])
        cases = [ast.match_case(pattern=self.pattern(), guard=None if self.chance(2, 3) else e(), body=self.body(depth, **ctx))
                 for _ in range(1 + self.k(3))]
        return ast.Match(subject=e(), cases=cases)

    def decorator(self):
        s = self.pick(["dec", "a.b", "functools.wraps"])
        parts = s.split(".")
        node = ast.Name(id=parts[0], ctx=ast.Load())
        for p in parts[1:]:
            node = ast.Attribute(value=node, attr=p, ctx=ast.Load())
        if self.chance(1, 3):
            node = ast.Call(func=node, args=[self.const() for _ in range(self.k(3))], keywords=[])
        return node

    def program(self, max_stmts=3, depth=2):
        return ast.Module(body=self.body(depth, 1, max_stmts), type_ignores=[])


def programs(budget=40, max_stmts=3, depth=2):
    """Hypothesis strategy of generated Module trees."""
    from hypothesis import strategies as st

    return st.randoms(use_true_random=False).map(lambda rnd: Gen(rnd, budget=budget).program(max_stmts, depth))


def render(tree):
    """Text of a generated tree, or None when it cannot be rendered."""
    try:
        ast.fix_missing_locations(tree)
        return ast.unparse(tree) + "\n"
    except Exception:  # noqa: BLE001
        return None

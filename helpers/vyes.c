/* vyes [SECONDS] : endless producer - writes "y\n" lines to stdout for ever, like yes(1), and ends the way yes(1)
   ends: killed by SIGPIPE when its reader goes away.  Unlike yes(1) it cannot outlive a failed test run:
   SIGALRM (default action) terminates it after SECONDS (default 45) whatever its stdout is. */
#include <stdlib.h>
#include <string.h>
#include <unistd.h>
#include <errno.h>
int main(int argc, char **argv) {
    static char buf[4096];
    unsigned secs = argc > 1 ? (unsigned)atoi(argv[1]) : 45;
    for (size_t i = 0; i < sizeof buf; i += 2) { buf[i] = 'y'; buf[i + 1] = '\n'; }
    alarm(secs ? secs : 45);
    for (;;) {
        ssize_t w = write(1, buf, sizeof buf);
        if (w < 0 && errno != EINTR) return 1;
    }
}

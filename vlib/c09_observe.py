"""Process-state snapshots for C09 (what a finished command may not leave behind).

A snapshot is a plain dict of JSON-able values plus a few live objects (kept under keys starting
with "_") that are compared by identity.  Nothing in here imports xonsh at module level."""

from __future__ import annotations

import os
import re
import signal
import sys
import threading
import time

SIGS = ("SIGINT", "SIGTSTP", "SIGQUIT", "SIGWINCH")


def fd_table():
    """{fd: link target} of this process, without the descriptor used to list the directory."""
    out = {}
    d = os.open("/proc/self/fd", os.O_RDONLY | os.O_DIRECTORY)
    try:
        for name in os.listdir(d):
            fd = int(name)
            if fd == d:
                continue
            try:
                out[fd] = os.readlink(name, dir_fd=d)
            except OSError:
                continue
    finally:
        os.close(d)
    return out


def _proc_state(pid):
    try:
        with open("/proc/%d/stat" % pid, "rb") as f:
            data = f.read().decode("latin-1")
        rest = data[data.rindex(")") + 2:].split()
        comm = data[data.index("(") + 1:data.rindex(")")]
        return rest[0], int(rest[1]), comm
    except (OSError, ValueError, IndexError):
        return None


_children_mode = {}


def _children_via_task():
    pids = set()
    base = "/proc/self/task"
    for t in os.listdir(base):
        try:
            with open("%s/%s/children" % (base, t)) as f:
                pids.update(int(x) for x in f.read().split())
        except OSError:
            continue
    return pids


def _children_via_scan():
    me = os.getpid()
    pids = set()
    for name in os.listdir("/proc"):
        if not name.isdigit():
            continue
        st = _proc_state(int(name))
        if st is not None and st[1] == me:
            pids.add(int(name))
    return pids


def children():
    """{pid: (state letter, comm)} of the direct children (running, stopped or zombie)."""
    if "mode" not in _children_mode:
        _children_mode["mode"] = "task" if os.path.exists("/proc/self/task/%d/children" % os.getpid()) else "scan"
    pids = _children_via_task() if _children_mode["mode"] == "task" else _children_via_scan()
    out = {}
    for p in pids:
        st = _proc_state(p)
        if st is not None and st[1] == os.getpid():
            out[p] = (st[0], st[2])
    return out


def self_test():
    """The child listing must see a live child and a zombie; returns the mode used ('task'|'scan')."""
    import subprocess

    before = set(children())
    p = subprocess.Popen(["/bin/sh", "-c", "exit 0"], stdin=subprocess.DEVNULL)
    seen = None
    for _ in range(400):
        ch = children()
        if p.pid in ch and ch[p.pid][0] == "Z":
            seen = ch[p.pid]
            break
        time.sleep(0.005)
    p.wait()
    after = set(children())
    if seen is None or p.pid in after or after != before:
        if _children_mode.get("mode") == "task":
            _children_mode["mode"] = "scan"
            return self_test()
        return None
    return _children_mode["mode"]


def threads():
    """{ident: description} of every live thread except the main one."""
    out = {}
    main = threading.main_thread()
    for t in threading.enumerate():
        if t is main:
            continue
        nid = getattr(t, "native_id", None)
        if nid is not None and not os.path.exists("/proc/self/task/%d" % nid):
            # bookkeeping entry without an OS thread: CPython (< 3.13) never removes the _DummyThread it creates
            # when threading.current_thread() is called in a thread that has already left threading._active
            # (e.g. from a __del__ that runs while the thread is being torn down)
            continue
        out[t.ident] = "%s(%s%s)" % (type(t).__name__, (t.name or "")[:80], ",daemon" if t.daemon else "")
    return out


def handlers():
    return {s: signal.getsignal(getattr(signal, s)) for s in SIGS}


def sigmask():
    """Names of the signals blocked in the calling (main) thread - inherited by every child the shell starts."""
    try:
        return sorted(getattr(s, "name", str(s)) for s in signal.pthread_sigmask(signal.SIG_BLOCK, []))
    except (AttributeError, OSError, ValueError):
        return []


def describe_handler(h):
    if h is signal.SIG_DFL:
        return "SIG_DFL"
    if h is signal.SIG_IGN:
        return "SIG_IGN"
    if h is signal.default_int_handler:
        return "default_int_handler"
    owner = getattr(h, "__self__", None)
    if owner is not None:
        return "%s.%s" % (type(owner).__name__, getattr(h, "__name__", "?"))
    return getattr(h, "__qualname__", None) or repr(h)[:80]


_ADDR = re.compile(r"0x[0-9a-fA-F]+")


def env_view(env):
    """Effective contents of the xonsh environment as seen by the calling thread:
    {name: repr(value)} over every name the Env iterates (set variables and registered defaults).
    Whether a name is explicitly *set* or only has its default is deliberately not part of the view
    (a swap() scope turning 'unset' into 'set to the default' is C11-F1, recorded there)."""
    out = {}
    for k in list(env):
        try:
            out[str(k)] = _ADDR.sub("0x?", repr(env.get(k)))
        except Exception as e:  # noqa: BLE001
            out[str(k)] = "<unreadable %s>" % type(e).__name__
    return out


def snapshot(XSH, tty_fd=None, live=False):
    """live=True (the baseline snapshot only) keeps references to the std stream and handler objects so
    that their ids stay unique while later snapshots are compared with it; later snapshots record ids and
    descriptions only - a snapshot must not itself keep a finished helper thread (reachable from its
    SIGINT handler) and everything that thread owns alive."""
    std = (sys.stdin, sys.stdout, sys.stderr)
    hs = handlers()
    snap = {
        "fds": fd_table(),
        "children": children(),
        "threads": threads(),
        "cwd": _cwd(),
        "env": env_view(XSH.env),
        "environ": dict(os.environ),
        "std_ids": [id(x) for x in std],
        "std_types": [type(x).__name__ for x in std],
        "std_closed": [_is_closed(x) for x in std],
        "handler_ids": {k: id(v) for k, v in hs.items()},
        "handler_descr": {k: describe_handler(v) for k, v in hs.items()},
        "sigmask": sigmask(),
    }
    if live:
        snap["_std"] = std
        snap["_handlers"] = hs
    del std, hs
    if tty_fd is not None:
        try:
            snap["tcpgrp"] = os.tcgetpgrp(tty_fd)
        except OSError as e:
            snap["tcpgrp"] = "error:%s" % e.errno
        try:
            import termios

            snap["termios"] = termios.tcgetattr(tty_fd)
        except Exception as e:  # noqa: BLE001
            snap["termios"] = "error:%s" % type(e).__name__
    return snap


def _is_closed(f):
    try:
        return bool(f.closed)
    except Exception:  # noqa: BLE001
        return None


def _cwd():
    try:
        return os.getcwd()
    except OSError as e:
        return "<getcwd failed: %s>" % e


def resources(snap):
    return {"fds": snap["fds"], "children": snap["children"], "threads": snap["threads"]}


def _fd_kind(target):
    if target.startswith("pipe:"):
        return "pipe"
    if target.startswith("socket:"):
        return "socket"
    if target.startswith("anon_inode:"):
        return target
    if target.startswith("/dev/pts/") or target == "/dev/ptmx":
        return "pty"
    return "file"


def diff_resources(before, after):
    """Resources present in `after` but not in `before` (and pre-existing descriptors that
    disappeared or were re-pointed).  -> list of problem strings ('' when none)."""
    probs = []
    bf, af = before["fds"], after["fds"]
    extra = {fd: t for fd, t in af.items() if fd not in bf}
    changed = {fd: (bf[fd], t) for fd, t in af.items() if fd in bf and bf[fd] != t}
    gone = {fd: t for fd, t in bf.items() if fd not in af}
    if extra:
        probs.append("fd-leak: %d additional open descriptors %s" % (
            len(extra), ", ".join("%d->%s" % (fd, _fd_kind(t)) for fd, t in sorted(extra.items()))))
    if changed:
        probs.append("fd-changed: descriptors now point elsewhere %s" % (
            ", ".join("%d:%s=>%s" % (fd, _fd_kind(a), _fd_kind(b)) for fd, (a, b) in sorted(changed.items()))))
    if gone:
        probs.append("fd-closed: descriptors open before the command are closed now %s" % (
            ", ".join("%d->%s" % (fd, _fd_kind(t)) for fd, t in sorted(gone.items()))))
    newc = {p: s for p, s in after["children"].items() if p not in before["children"]}
    if newc:
        z = sorted(s[1] for s in newc.values() if s[0] == "Z")
        r = sorted(s[1] for s in newc.values() if s[0] != "Z")
        if z:
            probs.append("child-unreaped: %d zombie children (%s)" % (len(z), ",".join(z)))
        if r:
            probs.append("child-running: %d children still alive (%s)" % (len(r), ",".join(r)))
    newt = {i: d for i, d in after["threads"].items() if i not in before["threads"]}
    if newt:
        probs.append("thread-alive: %d helper threads still running: %s" % (
            len(newt), "; ".join(sorted(_short_thread(d) for d in newt.values()))))
    return probs


def _short_thread(d):
    cls = d.split("(", 1)[0]
    return cls + (",daemon" if d.endswith(",daemon)") else "")


def count_resources(snap):
    kinds = {}
    for t in snap["fds"].values():
        k = _fd_kind(t)
        kinds[k] = kinds.get(k, 0) + 1
    return {"fds": len(snap["fds"]), "fd_kinds": kinds, "children": len(snap["children"]), "threads": len(snap["threads"])}


def diff_counts(one, many):
    """Steady state: nothing may have grown between 'after 1 run' and 'after N runs'."""
    a, b = count_resources(one), count_resources(many)
    probs = []
    grown = {k: b["fd_kinds"].get(k, 0) - a["fd_kinds"].get(k, 0) for k in b["fd_kinds"]
             if b["fd_kinds"].get(k, 0) > a["fd_kinds"].get(k, 0)}
    if grown:
        probs.append("fd-growth: %d open descriptors after one run, %d after N: %s" % (
            a["fds"], b["fds"], ", ".join("+%d->%s" % (n, k) for k, n in sorted(grown.items()))))
    if b["children"] > a["children"]:
        probs.append("child-growth: %d children after one run, %d after N (%s)" % (
            a["children"], b["children"], ",".join(sorted("%s:%s" % s for s in many["children"].values()))))
    if b["threads"] > a["threads"]:
        probs.append("thread-growth: %d helper threads after one run, %d after N (%s)" % (
            a["threads"], b["threads"], "; ".join(sorted(_short_thread(d) for d in many["threads"].values()))))
    return probs


def diff_state(before, after, env_ignore=()):
    """Non-resource session state: cwd, std streams, signal handlers, env, os.environ, terminal."""
    probs = []
    if before["cwd"] != after["cwd"]:
        probs.append("cwd: %r -> %r" % (before["cwd"], after["cwd"]))
    if "_std" not in before or "_handlers" not in before:
        raise ValueError("diff_state: the 'before' snapshot must be taken with live=True")
    for i, name in enumerate(("stdin", "stdout", "stderr")):
        if before["std_ids"][i] != after["std_ids"][i]:
            probs.append("sys.%s replaced: %s -> %s" % (name, before["std_types"][i], after["std_types"][i]))
    for i, name in enumerate(("stdin", "stdout", "stderr")):
        # the *original* object (kept alive by the baseline snapshot), whatever sys.<name> is bound to now
        if before["std_closed"][i] is False and _is_closed(before["_std"][i]) is not False:
            probs.append("closed sys.%s: the stream object of the shell itself is closed now" % name)
    for s in SIGS:
        if before["handler_ids"][s] != after["handler_ids"][s]:
            probs.append("handler %s: %s -> %s" % (s, before["handler_descr"][s], after["handler_descr"][s]))
    if before.get("sigmask", []) != after.get("sigmask", []):
        probs.append("sigmask: blocked signals of the main thread %s -> %s" % (before.get("sigmask"), after.get("sigmask")))
    be, ae = before["env"], after["env"]
    for k in sorted(set(be) | set(ae)):
        if k in env_ignore:
            continue
        if be.get(k) != ae.get(k):
            probs.append("env $%s: %s -> %s" % (k, be.get(k, "<unset>")[:60], ae.get(k, "<unset>")[:60]))
    bo, ao = before["environ"], after["environ"]
    for k in sorted(set(bo) | set(ao)):
        if bo.get(k) != ao.get(k):
            probs.append("os.environ[%s]: %r -> %r" % (k, bo.get(k), ao.get(k)))
    if "tcpgrp" in before and before.get("tcpgrp") != after.get("tcpgrp"):
        probs.append("terminal tcpgrp: foreground process group %s -> %s (shell's group %s)" % (
            before.get("tcpgrp"), after.get("tcpgrp"), os.getpgrp()))
    if "termios" in before and before.get("termios") != after.get("termios"):
        b, a = before.get("termios"), after.get("termios")
        names = ["iflag", "oflag", "cflag", "lflag", "ispeed", "ospeed"]
        if isinstance(b, list) and isinstance(a, list):
            d = ["%s %r -> %r" % (names[i], b[i], a[i]) for i in range(6) if b[i] != a[i]]
            d += ["cc[%d] %r -> %r" % (i, x, y) for i, (x, y) in enumerate(zip(b[6], a[6])) if x != y]
        else:
            d = ["%r -> %r" % (b, a)]
        probs.append("termios (not part of the property, counted only): " + ", ".join(d))
    return probs


def settle(before, snap_fn, grace_s, step=0.005):
    """Poll until no additional resource is left or `grace_s` elapsed.  Returns (snapshot, waited_s).
    Wall clock only bounds the polling; the verdict is taken on the final snapshot."""
    t0 = time.monotonic()
    while True:
        snap = snap_fn()
        if not diff_resources(before, snap):
            return snap, time.monotonic() - t0
        if time.monotonic() - t0 >= grace_s:
            return snap, time.monotonic() - t0
        time.sleep(step)
        step = min(step * 1.5, 0.05)

"""C06 helper - alias stages whose output is a generated SEQUENCE of segments written through different paths.

A *program* is a list of ops; every emitting op carries its own text, which starts with a unique token `K<n><op>K`,
so the expected capture is the concatenation of the texts in program order and a misplaced / missing / doubled
segment can be named.  The interpreter of a program is a callable alias compiled from xonsh source by the real
execer (`c06a KEY CODE` top level, `c06i KEY` nested); ExecAlias stages are rendered to alias strings per case.

ops of a callable-alias program (`cb`):
  ["p", t]  print(t)                      ["P", t]  print(t, end="")             ["s", t]  sys.stdout.write(t)
  ["w", t]  stdout.write(t)  (argument)   ["l", t]  print(t, file=stdout)         ["f"] stdout.flush()  ["F"] sys.stdout.flush()
  ["b", hex]  stdout.buffer.write(bytes)  ["B", hex]  sys.stdout.buffer.write(bytes)
  ["c", hex, chunk, delay_us]  bare command `vemit FILE 1 chunk delay 0`          ["h", ...]  the same as `![...]`
  ["x", ...]  execx("vemit ...")          ["g", ...]  t = $(vemit ...); print(t, end="")
  ["d", ...]  `$[vemit ...]` - documented to go to the real terminal even inside a captured alias
  ["e", word]  `echo word $C06T`          ["v", t]  print(t + $C06T, end="")    (the stage's environment)
  ["n", [ops]] / ["m", [ops]]  nested callable alias `c06i KEY` (n: Python-level ops only, m: runs commands too)
  ["X", [cmds], [joiners]]  nested ExecAlias
  ["i"]  stdout.write(stdin.read())       ["r", "str"|"tuple", t]  value returned at the end (written by xonsh)
commands of an ExecAlias (`xa`, and "X"): "c", "e", "n", "m" as above and
  ["k", hex, chunk, delay_us, vcat_chunk]  `vemit ... | vcat N`
joined by "&&" or ";".
"""

from __future__ import annotations

import os
import re

from . import common

TVAR = "C06T"          # referenced by the bodies
UVAR = "C06U"          # never referenced
TDEFAULT = "unset"
TOKEN_RX = re.compile(r"K\d+[A-Za-z]K")
PY_TEXT = "pPswlv"
PENDING = "wli"        # leave text in the stage's own TextIOWrapper until something flushes it
FLUSHING = "pPsvgfF"   # go through the dispatcher (which flushes) or flush explicitly
INNER = "chxenmX"      # output is tee'd below the text layer (out_target.buffer)
FILE_OPS = "chxgdk"

EXOTIC = [b"\r\n", b"cr\r", b"a\rb", b"\x1b[31mred\x1b[0m", b"\x01hid\x02", b"\x1b[K", b"\r\r\n", b"\x0c", b"\xc2\x85"]

BODY_SRC = r'''
import sys as _sys
_C06 = {"table": {}}
def _c06_run(key, stdin, stdout):
    rv = None
    for op in _C06["table"][key]:
        k = op[0]
        if k == "p":
            print(op[1])
        elif k == "P":
            print(op[1], end="")
        elif k == "s":
            _sys.stdout.write(op[1])
        elif k == "w":
            stdout.write(op[1])
        elif k == "l":
            print(op[1], file=stdout)
        elif k == "f":
            stdout.flush()
        elif k == "F":
            _sys.stdout.flush()
        elif k == "b":
            stdout.buffer.write(op[1])
        elif k == "B":
            _sys.stdout.buffer.write(op[1])
        elif k == "c":
            vemit @(op[1]) 1 @(op[2]) @(op[3]) 0
        elif k == "h":
            ![vemit @(op[1]) 1 @(op[2]) @(op[3]) 0]
        elif k == "x":
            execx("vemit %s 1 %s %s 0" % (op[1], op[2], op[3]))
        elif k == "d":
            $[vemit @(op[1]) 1 @(op[2]) @(op[3]) 0]
        elif k == "g":
            _t = $(vemit @(op[1]) 1 @(op[2]) @(op[3]) 0)
            print(_t, end="")
        elif k == "e":
            echo @(op[1]) $C06T
        elif k == "v":
            print(op[1] + $C06T, end="")
        elif k == "n" or k == "m":
            c06i @(op[1])
        elif k == "X":
            @(op[1])
        elif k == "i":
            stdout.write(stdin.read())
        elif k == "r":
            rv = op
    return rv
def _c06_body(args, stdin=None, stdout=None, stderr=None):
    rv = _c06_run(args[0], stdin, stdout)
    code = int(args[1]) if len(args) > 1 else 0
    if rv is None:
        return code
    if rv[1] == "str":
        return rv[2]
    return (rv[2], None, code)
'''


# ----------------------------------------------------------------------------------------
# generation


def _filler(rnd, n, alnum, nl_ok=True):
    if n <= 0:
        return ""
    if alnum:
        # @$() splits with xonsh's lexer, line by line: plain words; no blanks (a line that starts with a blank is
        # not split at whitespace by Lexer.split - not a capture matter)
        alpha = ["a", "b", "z", "0", "7", "q"]
    else:
        alpha = ["a", "b", "z", "0", " ", "\t", "-", ".", "x", ":", "'", "$", "<"]
        if rnd.randrange(4) == 0:
            alpha += ["é", "中", "\U0001f600"]
    if nl_ok:
        alpha = alpha + ["\n"]
    if n > 200:
        # long fillers: a repeated random unit (cheap to draw), still not periodic with the reader's chunk sizes
        unit = "".join(alpha[rnd.randrange(len(alpha))] for _ in range(37 + rnd.randrange(20)))
        return (unit * (n // len(unit) + 1))[:n]
    return "".join(alpha[rnd.randrange(len(alpha))] for _ in range(n))


def _size(rnd):
    c = rnd.randrange(100)
    if c < 70:
        return rnd.randrange(0, 30)
    if c < 90:
        return 100 + rnd.randrange(3000)
    if c < 98:
        return 8150 + rnd.randrange(100)          # around TextIOWrapper's 8192-character chunk
    return 65500 + rnd.randrange(5000)            # more than one pipe buffer


def _text(rnd, ctr, op, alnum, newline, small=False):
    """Text of one emitting op: unique token + filler (+ newline when `newline`)."""
    ctr[0] += 1
    tok = "K%d%sK" % (ctr[0], op)
    n = rnd.randrange(0, 12) if small else _size(rnd)
    t = tok + _filler(rnd, n, alnum)
    if newline:
        t += "\n"
    return t


def _vemit_params(rnd, nbytes):
    chunk = [0, 0, 0, 1, 7, 512, 4096][rnd.randrange(7)]
    if chunk and nbytes // chunk > 200:
        chunk = 512 if nbytes // 512 <= 200 else 4096
    delay = [0, 0, 0, 100, 1000][rnd.randrange(5)] if chunk and nbytes // chunk < 30 else 0
    return chunk, delay


def _file_op(rnd, ctr, op, alnum, binary_ok, small=False):
    t = _text(rnd, ctr, op, alnum, newline=rnd.randrange(5) < 2, small=small or op == "g")
    b = t.encode("utf-8")
    if binary_ok and op != "g" and rnd.randrange(3) == 0:
        b += bytes(rnd.randrange(256) for _ in range(1 + rnd.randrange(40)))
    if binary_ok and op != "g" and rnd.randrange(3) == 0:
        # what the text views would reshape must pass the tee of an inner command untouched (raw_out / file are exact)
        b += EXOTIC[rnd.randrange(len(EXOTIC))] + (b"\n" if rnd.randrange(2) else b"")
    if op == "g":
        b = "".join(ch for ch in t if ord(ch) < 128 and ch != "\t").encode()      # plain text through the inner $()
    chunk, delay = _vemit_params(rnd, len(b))
    return [op, b.hex(), chunk, delay]


def _py_op(rnd, ctr, op, alnum, binary_ok, small=False):
    if op in "pl":
        return [op, _text(rnd, ctr, op, alnum, newline=False, small=small)]
    if op in "Pswv":
        # mostly unterminated: the interesting state is "a partial line is pending when the next path writes"
        return [op, _text(rnd, ctr, op, alnum, newline=(op != "v" and rnd.randrange(4) == 0), small=small)]
    if op in "bB":
        b = _text(rnd, ctr, op, alnum, newline=rnd.randrange(3) == 0, small=small).encode("utf-8")
        if binary_ok and rnd.randrange(2) == 0:
            b += bytes(rnd.randrange(256) for _ in range(1 + rnd.randrange(40)))
        if binary_ok and rnd.randrange(4) == 0:
            b += EXOTIC[rnd.randrange(len(EXOTIC))]
        return [op, b.hex()]
    raise common.HarnessError("bad py op %r" % op)


CB_WEIGHTS = [("P", 4), ("p", 2), ("s", 3), ("w", 2), ("l", 1), ("b", 2), ("B", 1), ("c", 4), ("h", 2), ("x", 1), ("e", 2),
              ("g", 1), ("d", 1), ("v", 2), ("n", 1), ("m", 2), ("X", 2)]
NESTED_PY = [("P", 3), ("p", 2), ("s", 2), ("w", 2), ("l", 1), ("b", 1), ("B", 1), ("v", 1)]
NESTED_CMD = NESTED_PY + [("c", 4), ("h", 1), ("e", 2), ("x", 1)]
XA_WEIGHTS = [("c", 4), ("e", 3), ("k", 2), ("n", 1), ("m", 2)]


def _pick(rnd, weights):
    tot = sum(w for _o, w in weights)
    r = rnd.randrange(tot)
    for o, w in weights:
        if r < w:
            return o
        r -= w
    raise AssertionError


def _gen_ops(rnd, ctr, weights, n, alnum, binary_ok, depth):
    ops = []
    for _ in range(n):
        op = _pick(rnd, weights)
        small = depth > 0 and rnd.randrange(4) != 0
        if op in "pPswlvbB":
            ops.append(_py_op(rnd, ctr, op, alnum, binary_ok, small))
        elif op in "chxgd":
            ops.append(_file_op(rnd, ctr, op, alnum, binary_ok, small))
        elif op == "e":
            ctr[0] += 1
            ops.append(["e", "K%deK" % ctr[0] + _filler(rnd, rnd.randrange(6), True, nl_ok=False).replace(" ", "")])
        elif op == "n":
            ops.append(["n", _gen_ops(rnd, ctr, NESTED_PY, 1 + rnd.randrange(3), alnum, binary_ok, depth + 1)])
        elif op == "m":
            sub = _gen_ops(rnd, ctr, NESTED_CMD, 2 + rnd.randrange(2), alnum, binary_ok, depth + 1)
            if not any(o[0] in "chex" for o in sub):
                sub.insert(rnd.randrange(len(sub) + 1), _file_op(rnd, ctr, "c", alnum, binary_ok, True))
            ops.append(["m", sub])
        elif op == "X":
            cmds, joins = _gen_cmds(rnd, ctr, 1 + rnd.randrange(3), alnum, binary_ok, depth + 1)
            ops.append(["X", cmds, joins])
        else:
            raise common.HarnessError("bad op %r" % op)
    return ops


def _gen_cmds(rnd, ctr, n, alnum, binary_ok, depth):
    cmds = []
    for _ in range(n):
        op = _pick(rnd, XA_WEIGHTS if depth == 0 else [("c", 4), ("e", 3), ("k", 1)])
        small = depth > 0 and rnd.randrange(4) != 0
        if op == "c":
            cmds.append(_file_op(rnd, ctr, "c", alnum, binary_ok, small))
        elif op == "k":
            cmds.append(_file_op(rnd, ctr, "k", alnum, binary_ok, small) + [[7, 4096][rnd.randrange(2)]])
        elif op == "e":
            ctr[0] += 1
            cmds.append(["e", "K%deK" % ctr[0]])
        elif op == "n":
            cmds.append(["n", _gen_ops(rnd, ctr, NESTED_PY, 1 + rnd.randrange(3), alnum, binary_ok, depth + 1)])
        elif op == "m":
            sub = _gen_ops(rnd, ctr, NESTED_CMD, 2 + rnd.randrange(2), alnum, binary_ok, depth + 1)
            if not any(o[0] in "chex" for o in sub):
                sub.append(_file_op(rnd, ctr, "c", alnum, binary_ok, True))
            cmds.append(["m", sub])
    if len(cmds) == 1 and cmds[0][0] != "k":
        # a one-command string is a plain list alias (expanded at the call site), not an ExecAlias
        ctr[0] += 1
        cmds.insert(rnd.randrange(2), ["e", "K%deK" % ctr[0]])
    joins = [["&&", ";"][rnd.randrange(2)] for _ in range(len(cmds) - 1)]
    return cmds, joins


F3_MAX_PENDING = 6000


def discipline(ops, allow_f3, counter=None):
    """Insert the flushes a careful alias author writes: text left in the `stdout` argument's own buffer
    (stdout.write / print(file=stdout), no flush) is flushed before the alias writes *below* the text layer
    (.buffer.write) - plain Python discipline - and, unless `allow_f3`, before it runs a command (recorded
    finding C06-F3: the command's output overtakes the pending text).  The F3 shape is only left in while the
    pending text is well below TextIOWrapper's 8192-byte chunk: beyond it the wrapper pushes part of the text
    down by itself (print() = two writes) and the displaced piece is no longer a whole segment, which the
    finding's predicate (f3_tolerates) deliberately does not cover.  -> new op list."""
    out = []
    pend = 0            # bytes pending in this level's text layer (0 = nothing)
    for op in ops:
        k = op[0]
        if k in "nm":
            op = [k, discipline(op[1], allow_f3, counter)]
        if pend and k in "bB":
            out.append(["f"] if len(out) % 2 else ["F"])
            pend = 0
        elif pend and k in INNER:
            if not allow_f3 or pend > F3_MAX_PENDING:
                out.append(["f"] if len(out) % 2 else ["F"])
                pend = 0
                if counter is not None:
                    counter[0] += 1
        if k in "wl":
            pend += len(op[1].encode("utf-8")) + 1
        elif k == "i":
            pend += F3_MAX_PENDING + 1
        elif k in FLUSHING:
            pend = 0
        out.append(op)
    return out


def gen_case(rnd, f3_mode, f4_mode="absent"):
    """f3_mode / f4_mode: 'open' (finding recorded: shape generated rarely), 'fixed' (generated freely), 'absent'
    (never).  C06-F3: text pending in the stdout argument when a command runs.  C06-F4: an alias that is the last
    stage of `$()` / `@$()` reads its stdin only after doing other work."""
    view = ["dollar", "dollar", "out", "out", "iter", "raw", "raw", "atdollar", "file"][rnd.randrange(9)]
    alnum = view == "atdollar"
    binary_ok = view in ("raw", "file")
    stage = "cb" if rnd.randrange(10) < 7 else "xa"
    pos = ["only", "only", "only", "first", "first", "last", "mid"][rnd.randrange(7)]
    ctr = [0]
    case = {"fam": "prog", "view": view, "stage": stage, "pos": pos}
    n = 2 + min(rnd.randrange(6), rnd.randrange(6))
    avoided = [0]
    if stage == "cb":
        ops = _gen_ops(rnd, ctr, CB_WEIGHTS, n, alnum, binary_ok, 0)
        case["avoided_f4"] = 0
        if pos in ("last", "mid") and rnd.randrange(2):
            at = rnd.randrange(len(ops) + 1) if rnd.randrange(2) else 0
            if at and pos == "last" and view in ("dollar", "atdollar") and not (f4_mode == "fixed" or (f4_mode == "open" and rnd.randrange(8) == 0)):
                at = 0
                case["avoided_f4"] = 1
            ops.insert(at, ["i"])
        if rnd.randrange(6) == 0:
            ops.append(["r", ["str", "tuple"][rnd.randrange(2)], _text(rnd, ctr, "r", alnum, newline=rnd.randrange(2) == 0, small=True)])
        allow = f3_mode == "fixed" or (f3_mode == "open" and rnd.randrange(8) == 0)
        case["ops"] = discipline(ops, allow, avoided)
    else:
        cmds, joins = _gen_cmds(rnd, ctr, max(1, n - 1), alnum, binary_ok, 0)
        allow = f3_mode == "fixed" or (f3_mode == "open" and rnd.randrange(8) == 0)
        case["ops"] = [[c[0], discipline(c[1], allow, avoided)] if c[0] in "nm" else c for c in cmds]
        case["joins"] = joins
    case["avoided_f3"] = avoided[0]
    if pos in ("last", "mid"):
        ft = _text(rnd, ctr, "u", alnum, newline=rnd.randrange(3) != 0, small=rnd.randrange(3) != 0)
        case["feed"] = ft[:4000]
    if pos in ("first", "mid"):
        case["tail"] = [[4096, 7][rnd.randrange(2)] for _ in range(1 + (rnd.randrange(4) == 0))]
    case["code"] = [0, 0, 1, 3, 255][rnd.randrange(5)]
    # stage decorations: one or two `$VAR='value'` prefixes on any stage (not inside @$(): does not compile, unrelated)
    envs = {}
    nstages = (1 if pos in ("last", "mid") else 0) + 1 + len(case.get("tail", []))
    ai = 1 if pos in ("last", "mid") else 0
    if view != "atdollar":
        for i in range(nstages):
            if rnd.randrange(100) < (45 if i == ai else 15):
                vals = ["v1", "x y", "é", "0", "K0tK"]
                e = [[TVAR, vals[rnd.randrange(len(vals))]]]
                c = rnd.randrange(4)
                if c == 0:
                    e = [[UVAR, "u"]]
                elif c == 1:
                    e.insert(rnd.randrange(2), [UVAR, "u 2"])
                envs[str(i)] = e
    case["envs"] = envs
    case["capture_always"] = rnd.randrange(8) == 0
    case["plan"] = [rnd.randrange(1 << 30), [0.0, 0.05, 0.3][rnd.randrange(3)], [1.0, 3.0][rnd.randrange(2)]]
    return case


# ----------------------------------------------------------------------------------------
# model


def dollar_view(text):
    """What `$(cmd)` returns for `text` (LF-only ASCII): a single line loses its final newline."""
    if text.count("\n") == 1 and text.endswith("\n"):
        return text[:-1]
    return text


class Model:
    """Expected capture (bytes, program order), expected bytes on the real terminal (`$[...]` segments), the list of
    all segments [(token-bearing bytes)], and the segments that were pending in a text layer when a command ran
    (shape of C06-F3)."""

    def __init__(self, tval, feed):
        self.tval = tval
        self.feed = feed
        self.out = bytearray()
        self.term = bytearray()
        self.segments = []
        self.f3 = []

    def emit(self, b):
        if isinstance(b, str):
            b = b.encode("utf-8")
        self.out += b
        if b:
            self.segments.append(bytes(b))
        return bytes(b)

    def walk(self, ops):
        pend = []
        ret = None
        for op in ops:
            k = op[0]
            if k in "fF":
                pend = []
                continue
            if pend and k in "bB":
                raise common.HarnessError("generator self-check: .buffer.write while text is pending in the same stream")
            if pend and k in INNER:
                for p in pend:
                    if p not in self.f3:
                        self.f3.append(p)
            if k == "p" or k == "l":
                b = self.emit(op[1] + "\n")
            elif k in "Psw":
                b = self.emit(op[1])
            elif k == "v":
                b = self.emit(op[1] + self.tval)
            elif k in "bB":
                b = self.emit(bytes.fromhex(op[1]))
            elif k in "chx":
                b = self.emit(bytes.fromhex(op[1]))
            elif k == "k":
                b = self.emit(bytes.fromhex(op[1]))
            elif k == "g":
                b = self.emit(dollar_view(bytes.fromhex(op[1]).decode()))
            elif k == "d":
                self.term += bytes.fromhex(op[1])
                continue
            elif k == "e":
                b = self.emit(op[1] + " " + self.tval + "\n")
            elif k in "nm":
                self.walk(op[1])
                b = b""
            elif k == "X":
                self.walk(op[1])
                b = b""
            elif k == "i":
                b = self.emit(self.feed)
            elif k == "r":
                ret = op
                continue
            else:
                raise common.HarnessError("bad op %r" % (op,))
            if k in PENDING:
                if b:
                    pend.append(b)
            elif k in FLUSHING:
                pend = []
        if ret is not None:
            self.emit(ret[2])
        return self


def stage_tval(case):
    ai = 1 if case["pos"] in ("last", "mid") else 0
    for name, val in case.get("envs", {}).get(str(ai), []):
        if name == TVAR:
            return val
    return TDEFAULT


def model(case):
    m = Model(stage_tval(case), case.get("feed", ""))
    m.walk(case["ops"])
    return m


def f4_shape(case):
    """-> index of the stdin-reading op when the case has the shape of C06-F4, else None."""
    if case["stage"] != "cb" or case["pos"] != "last" or case["view"] not in ("dollar", "atdollar"):
        return None
    for j, op in enumerate(case["ops"]):
        if op[0] == "i":
            return j
    return None


def f4_prefix(case):
    """Expected capture when the alias dies at its stdin read: what it wrote before."""
    j = f4_shape(case)
    m = Model(stage_tval(case), case.get("feed", ""))
    m.walk(case["ops"][:j])
    return bytes(m.out)


def expected_rtn(case):
    """Exit status of the final stage (None = not checked)."""
    if case["pos"] in ("first", "mid"):
        return case["code"]                       # the last vcat
    if case["stage"] == "cb":
        r = [op for op in case["ops"] if op[0] == "r"]
        if r and r[-1][1] == "str":
            return 0
        return case["code"]
    last = case["ops"][-1]
    return case["code"] if last[0] in "ckmn" else 0


def has_inner(ops):
    """Does the stage run commands inside its body (external programs, nested aliases)?"""
    return any(op[0] in "chxegkdnmX" for op in ops)


def op_classes(ops, acc=None, depth=0):
    acc = set() if acc is None else acc
    for op in ops:
        acc.add("op:" + op[0] + ("@nested" if depth else ""))
        if op[0] in "nmX":
            op_classes(op[1], acc, depth + 1)
    return acc


def transitions(ops):
    """Adjacent (write path -> write path) pairs of the top-level program, as labels: which layer changes were
    exercised (text = dispatcher/print, arg = stdout argument, buf = .buffer, cmd = inner command/alias)."""
    def cls(k):
        return {"p": "text-nl", "P": "text", "s": "text", "v": "text", "g": "text", "w": "arg", "l": "arg", "i": "arg", "b": "buf", "B": "buf",
                "c": "cmd", "h": "cmd", "x": "cmd", "e": "cmd", "k": "cmd", "n": "alias", "m": "alias", "X": "alias", "d": "term"}.get(k)
    out = set()
    prev = None
    for op in ops:
        c = cls(op[0])
        if c is None:
            continue
        if op[0] in "Ps" and op[1].endswith("\n"):
            c = "text-nl"
        if prev is not None:
            out.add("seq:%s>%s" % (prev, c))
        prev = c
    return out


# ----------------------------------------------------------------------------------------
# rendering / preparing a case for execution


class Prepared:
    def __init__(self):
        self.table = {}
        self.aliases = {}       # name -> ExecAlias source
        self.nfiles = 0
        self.nkeys = 0


def _seg_file(prep, d, hexs):
    p = os.path.join(d, "seg%d.bin" % prep.nfiles)
    prep.nfiles += 1
    with open(p, "wb") as f:
        f.write(bytes.fromhex(hexs))
    return p


def _prep_ops(prep, d, ops):
    """Decode a cb program into what the interpreter reads; registers nested programs / ExecAliases."""
    out = []
    for op in ops:
        k = op[0]
        if k in "bB":
            out.append([k, bytes.fromhex(op[1])])
        elif k in "chxgd":
            out.append([k, _seg_file(prep, d, op[1]), str(op[2]), str(op[3])])
        elif k in "nm":
            key = "n%d" % prep.nkeys
            prep.nkeys += 1
            prep.table[key] = _prep_ops(prep, d, op[1])
            out.append([k, key])
        elif k == "X":
            name = "c06x%d" % len(prep.aliases)
            prep.aliases[name] = None
            prep.aliases[name] = _render_cmds(prep, d, op[1], op[2], 0)
            out.append([k, name])
        else:
            out.append(list(op))
    return out


def _render_cmds(prep, d, cmds, joins, code):
    parts = []
    for j, c in enumerate(cmds):
        last = j == len(cmds) - 1
        k = c[0]
        if k == "c":
            s = "vemit %s 1 %d %d %d" % (_seg_file(prep, d, c[1]), c[2], c[3], code if last else 0)
        elif k == "k":
            s = "vemit %s 1 %d %d 0 | vcat %d %d" % (_seg_file(prep, d, c[1]), c[2], c[3], c[4], code if last else 0)
        elif k == "e":
            s = "echo %s $%s" % (c[1], TVAR)
        elif k in "nm":
            key = "n%d" % prep.nkeys
            prep.nkeys += 1
            prep.table[key] = _prep_ops(prep, d, c[1])
            s = "c06i %s %d" % (key, code if last else 0)
        else:
            raise common.HarnessError("bad ExecAlias command %r" % (c,))
        parts.append(s)
        if not last:
            parts.append(" && " if joins[j] == "&&" else "; ")
    return "".join(parts)


def prepare(case, d):
    """Write the segment files, build the interpreter table and the ExecAlias sources.
    -> (Prepared, pipeline source text, output file path or None)"""
    if not re.fullmatch(r"[A-Za-z0-9_./-]+", d):
        raise common.HarnessError("scratch path %r is not a plain word" % d)
    prep = Prepared()
    if case["stage"] == "cb":
        prep.table["top"] = _prep_ops(prep, d, case["ops"])
        word = "c06a top %d" % case["code"]
    else:
        prep.aliases["c06xa"] = _render_cmds(prep, d, case["ops"], case["joins"], case["code"])
        word = "c06xa"
    parts = []
    pos = case["pos"]
    if pos in ("last", "mid"):
        fp = os.path.join(d, "feed.bin")
        with open(fp, "wb") as f:
            f.write(case.get("feed", "").encode("utf-8"))
        parts.append("vemit %s 1 0 0 3" % fp)
    parts.append(word)
    tail = case.get("tail", []) if pos in ("first", "mid") else []
    for j, ch in enumerate(tail):
        parts.append("vcat %d %d" % (ch, case["code"] if j == len(tail) - 1 else 0))
    envs = case.get("envs", {})
    for i in range(len(parts)):
        pre = "".join("$%s='%s' " % (n, v) for n, v in envs.get(str(i), []))
        for _n, v in envs.get(str(i), []):
            if "'" in v or "\\" in v or "\n" in v:
                raise common.HarnessError("env prefix value %r cannot be single-quoted" % v)
        parts[i] = pre + parts[i]
    cmd = " | ".join(parts)
    outfile = None
    if case["view"] == "file":
        outfile = os.path.join(d, "view.out")
        try:
            os.unlink(outfile)
        except FileNotFoundError:
            pass
        cmd += " > " + outfile
    return prep, cmd, outfile


def segs_of(expected):
    """Segment list (text / nl) of an LF-only expected byte string, for the text-view matcher; None if not UTF-8."""
    try:
        expected.decode("utf-8")
    except UnicodeDecodeError:
        return None
    segs = []
    for piece in re.split(b"(\n)", expected):
        if piece == b"\n":
            segs.append(["nl", piece])
        elif piece:
            segs.append(["text", piece])
    return segs


def describe(expected, got, segments):
    """Name what happened to the segments: missing / doubled / out of order."""
    if isinstance(got, str):
        got = got.encode("utf-8", "surrogateescape")
    toks = [m.group(0).decode() for m in re.finditer(rb"K\d+[A-Za-z]K", bytes(expected))]
    seen = [m.group(0).decode() for m in re.finditer(rb"K\d+[A-Za-z]K", bytes(got or b""))]
    missing = [t for t in toks if t not in seen]
    extra = [t for t in set(seen) if seen.count(t) > toks.count(t)]
    notes = []
    if missing:
        notes.append("segments missing from the capture: %s" % " ".join(missing[:8]))
    if extra:
        notes.append("segments delivered more than once (or never written): %s" % " ".join(sorted(extra)[:8]))
    common_seen = [t for t in seen if t in toks]
    common_exp = [t for t in toks if t in seen]
    if not missing and not extra and common_seen != common_exp:
        notes.append("segments out of program order: written %s, captured %s" % (" ".join(toks[:12]), " ".join(seen[:12])))
    return "; ".join(notes)


def f3_tolerates(m, got, matcher, norm=None):
    """C06-F3 predicate: the program left text pending in the stdout argument when it ran a command, and the capture
    is exactly the expected one once those pending segments are taken out of both (each must be there once).
    `norm` (bytes -> bytes) is applied to everything first (the @$() view only keeps the non-blank characters)."""
    if not m.f3:
        return False
    norm = norm or (lambda b: b)
    exp = norm(bytes(m.out))
    if isinstance(got, str):
        try:
            g = got.encode("utf-8")
        except UnicodeEncodeError:
            return False
    else:
        g = bytes(got or b"")
    g = norm(g)
    for seg in m.f3:
        seg = norm(seg)
        if not seg:
            continue
        if g.count(seg) != 1 or exp.count(seg) != 1:
            return False
        g = g.replace(seg, b"", 1)
        exp = exp.replace(seg, b"", 1)
    return matcher(exp, g)

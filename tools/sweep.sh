#!/bin/sh
# usage: tools/sweep.sh Cxx "seed list" [tier]   - run a check at several seeds, print non-KNOWN lines and the violation cases
P=$1; SEEDS=$2; TIER=${3:-quick}
cd "$(dirname "$0")/.."
sh setup.sh >/dev/null 2>&1
for s in $SEEDS; do
  /venv/bin/python run.py $P --seed $s --tier $TIER 2>&1 | grep -v '^KNOWN' | cut -c1-400
done
/venv/bin/python - <<PY
import json,glob
for f in sorted(glob.glob('replays/$P/violation-*.json')):
    d=json.load(open(f)); print(f); print('   ', json.dumps(d['case'])[:700]); print('   ', d['kind'], '|', str(d['detail'])[:300])
PY

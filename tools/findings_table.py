#!/usr/bin/env python3
"""Rewrite the findings table of DESIGN.md (between the markers <!-- findings-table:begin/end -->) from known_findings.json."""
import json
import os
import re

V = os.path.dirname(os.path.dirname(os.path.abspath(__file__)))
k = json.load(open(os.path.join(V, "known_findings.json")))["findings"]


def short(e, n=150):
    w = e["what"]
    w = re.sub(r"^fixed: property=\S+ \S+ ", "", w)
    w = w.replace("|", "\\|").replace("\n", " ")
    return w if len(w) <= n else w[: n - 1].rsplit(" ", 1)[0] + " …"


props = sorted({e["property"] for e in k})
nopen = sum(1 for e in k if e.get("status", "open") == "open")
nfixed = sum(1 for e in k if e.get("status") == "fixed")
out = ["<!-- findings-table:begin -->",
       "At the time of writing: **%d open, %d fixed** (%d entries). Fixed entries name the `fix:` commit in /repo; their replay files guard against a return."
       % (nopen, nfixed, len(k)), "",
       "| Prop | fixed (id, commit: what failed) | open (id: what fails) |", "|---|---|---|"]
for p in props:
    fx = ["**%s** `%s`: %s" % (e.get("id", "?").split("-", 1)[-1], e.get("commit", "?"), short(e, 110)) for e in k
          if e["property"] == p and e.get("status") == "fixed"]
    op = ["**%s**: %s" % (e.get("id", "?").split("-", 1)[-1], short(e, 130)) for e in k if e["property"] == p and e.get("status", "open") == "open"]
    out.append("| %s | %s | %s |" % (p, "<br>".join(fx) or "-", "<br>".join(op) or "-"))
out.append("<!-- findings-table:end -->")
path = os.path.join(V, "DESIGN.md")
s = open(path).read()
new = "\n".join(out)
if "<!-- findings-table:begin -->" in s:
    s = re.sub(r"<!-- findings-table:begin -->.*?<!-- findings-table:end -->", lambda m: new, s, flags=re.S)
else:
    raise SystemExit("markers missing in DESIGN.md")
open(path, "w").write(s)
print(nopen, "open", nfixed, "fixed")

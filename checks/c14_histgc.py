"""C14 - history garbage collection only ever discards the oldest, unlocked history.

Generator : (a) collections of 0-8 history files written into a scratch $XONSH_DATA_DIR: command
            counts incl. 0, byte sizes (padding of `out`), closing/opening timestamps from seconds to
            years (distinct), lock flags (locked-live ts[0] >= boot incl. ts[0] == boot, locked-stale
            ts[0] < boot), zero-length files, files without ts (what `history clear` writes), corrupt
            members (garbage, truncated before the lock flag, plain JSON, directory, dangling link),
            members in the backwards-compatible directory and behind a custom $XONSH_HISTORY_FILE,
            well-formed decoy files whose names do not match xonsh-*.json; a limit (n, unit) for all
            four units placed *relative to the collection* (suffix sums +-1, prefix sums +-1, total
            +-1, half the oldest age, 0, negative, huge; optionally snapped to whole minutes / hours /
            days / kb), delivered as tuple / spelled string ("3 files", "15e1 s", "10kb", "2 H") /
            $XONSH_HISTORY_SIZE / `history gc --size N unit [--force]`; force on/off.
            The harness owns the clock: the `time` module seen by xonsh.history.json / .sqlite and
            uptime.boottime are replaced in the worker, so ages and the boot boundary are exact.
            (b) the complete small scope: every collection of <= 3 (quick) / <= 4 (thorough) files with
            counts in {0..2} / {0..3}, lock in {no, live, stale}, every limit 0..7 / 0..13, units
            commands and files, forced and unforced - every one of them run through the real
            JsonHistory.run_gc / `history gc` on a real directory (not only the pure selectors).
            (c) SQLite tables of 0-12 rows with distinct tsb inserted in arbitrary order from several
            sessions, limit N around the row count, all units, three ways of naming the database file.
            (d) live family: the lock is REAL.  1-3 live sessions - JsonHistory objects of the worker opened the
            way xonsh.shell.Shell opens them (locked=True, ts=[opening >= boot, None]), each at a generated point
            of its life: just opened, appended below / at / over its buffer size (periodic flushes), flushed
            explicitly (method and `history flush` alias), `history clear` - share the directory with closed
            sessions (written files and objects really closed with flush(at_exit=True) under a clock set to their
            closing time); then one GC (forced to 0 of every unit, unforced with a limit on the boundaries of the
            closed collection, tuple / $XONSH_HISTORY_SIZE / `history gc`) runs from one of the live sessions or
            from a fresh one.  A fixed family lays every life stage x every such GC out deterministically.
            Oracle: no live session's file is deleted or rewritten, the closed ones go oldest-first per the
            model below, and afterwards every live session appends, flushes and reads back all its commands
            from memory and from its file.
Oracle    : a model written from the property text.  Candidates = loadable files that are not
            locked-live, oldest first by closing (else opening) timestamp; kept = longest suffix that
            fits the limit; nothing is deleted when everything fits; unforced, nothing is deleted when
            the amount to remove >= the limit (and > what is actually kept); where the two readings of
            "keeps" (the limit / what actually remains) disagree both outcomes are accepted; forced,
            exactly the model's set.  Independently of the arithmetic: a locked-live, unloadable or
            non-history file is never deleted, a live file is never unlocked, kept files keep their
            commands, and the deleted set is a prefix of the oldest-first order.  SQLite: the rows left
            are exactly the newest N by tsb, nothing goes when rows <= N or the unit is not commands.
Known     : C14-F1 (0 files, forced), C14-F2 (SQLite 0 commands), C14-F3 (SQLite GC ignores the history's
            own file name) - narrow predicates is_f1_shape / is_f2_shape / is_f3_shape; exactly those
            outcomes are tolerated in the generated campaigns (counted in excluded_known) and exercised
            by the replay tier.  Live family: C14-F4 (`history clear` strips the lock of the running session:
            is_f4_shape) and C14-F5 (a session that ends with an empty buffer is never unlocked: is_f5_shape)
            - the outcome is accepted only if it is exactly what the model gives when the cleared live session
            is read as a closed one / the never-unlocked dead session as a live one.
"""

from __future__ import annotations

import io
import itertools
import json
import os
import shutil
import signal
import sys
import threading
import time as _real_time
from fractions import Fraction

from vlib import common
from vlib.common import Failure, Stats

PROP = "C14"
LEVEL = "exploration"
HOOKS = False
RULE = ("a collection of history files (or SQLite rows) + a limit (n, unit) + force, run through the real "
        "run_gc in a scratch data dir under a harness-owned clock; small scope (<=3/<=4 files x counts x lock "
        "states x limits 0..7/0..13 x {commands, files} x force) enumerated completely, larger collections and "
        "the units s / b drawn by Hypothesis with limits placed on the collection's own boundaries; "
        "non-trivial = the limit falls strictly inside the collection (something must go and something must "
        "stay), or something must go while a live-locked file that would be among the discarded if it were "
        "unlocked, a stale-locked file or a corrupt member is present; SQLite: 0 < N < rows; live family (real "
        "JsonHistory sessions next to the GC): a live session that has flushed mid-session owns a file the GC "
        "would discard if it were not locked; distinct = hash of (collection, resolved limit, force)")

HANG_S = 30                  # a GC pass costs ~2 ms; 30 s means it will never return
NOW = 1_700_000_000.0
BOOT_AGE = 1_000_000.0
BOOT = NOW - BOOT_AGE

UNITS = ("commands", "files", "s", "b")
ROUTES = ("size-tuple", "size-str", "env-tuple", "env-str", "cli")
CORRUPT_KINDS = ("garbage", "text", "short", "emptyobj", "plainjson", "trunc", "dir", "dangling")
DECOYS = (("hist", "notes.json"), ("hist", "xonsh-decoy.json.tmp"), ("hist", "xonsh-decoy.txt"),
          ("data", "xonsh-history.sqlite.bak"), ("data", "other-x.json"))


class _Timeout(Exception):
    pass


def _alarm(signum, frame):
    raise _Timeout()


# ----------------------------------------------------------------------------------------
# harness-owned clock


class _Clock:
    """Stands in for the `time` module inside xonsh.history.json / xonsh.history.sqlite."""

    now = NOW       # moved only while a real session of the live family is opened / closed in the past

    def time(self):
        return self.now

    def sleep(self, s):
        # a shorter sleep: return as soon as the GC thread the caller is polling for has finished
        cur = threading.current_thread()
        for t in threading.enumerate():
            if t is not cur and t.daemon and type(t).__name__.endswith("HistoryGC"):
                try:
                    t.join(min(s, 0.05))
                    return
                except RuntimeError:      # not started yet
                    break
        _real_time.sleep(min(s, 0.0002))

    def __getattr__(self, name):
        return getattr(_real_time, name)


_state = {}


def _setup(scratch):
    if _state:
        return _state
    import warnings

    from vlib import session

    XSH = session.load_session(scratch, XONSH_HISTORY_BACKEND="json")
    import xonsh.history.json as xhj
    import xonsh.history.sqlite as xhs
    import xonsh.lib.lazyjson as xlj
    import xonsh.xoreutils.uptime as up

    clock = _Clock()
    if not (hasattr(xhj, "time") and hasattr(xhj.time, "sleep") and getattr(xhj, "uptime", None) is up):
        raise common.HarnessError("xonsh.history.json no longer reaches the clock through `time` / `uptime` "
                                  "module attributes; the harness cannot own the clock")
    xhj.time = clock
    xhs.time = clock
    up.boottime = lambda: BOOT
    if xhj.time.time() != NOW or xhj.uptime.boottime() != BOOT:
        raise common.HarnessError("clock replacement did not take effect")
    warnings.simplefilter("ignore")
    _state["thread_exc"] = []

    def hook(args):
        _state["thread_exc"].append("%s: %s" % (getattr(args.exc_type, "__name__", args.exc_type), args.exc_value))

    threading.excepthook = hook
    signal.signal(signal.SIGALRM, _alarm)
    base = os.path.join(scratch, "c14-%d" % os.getpid())   # one data dir per worker process
    _state.update(XSH=XSH, xhj=xhj, xhs=xhs, xlj=xlj, base=base, clock=clock,
                  data=os.path.join(base, "data"), hist=os.path.join(base, "data", "history_json"),
                  custom=os.path.join(base, "custom"), default_size=XSH.env.get("XONSH_HISTORY_SIZE"))
    return _state


def _unset(env, name):
    try:
        del env[name]
    except KeyError:
        pass


def _wipe(d, keep=()):
    if os.path.isdir(d) and not os.path.islink(d):
        for ent in os.scandir(d):
            if ent.name in keep:
                continue
            if ent.is_dir(follow_symlinks=False):
                shutil.rmtree(ent.path)
            else:
                os.remove(ent.path)
    else:
        os.makedirs(d)


# ----------------------------------------------------------------------------------------
# spelling a limit the way a user would (independent of xonsh.tools.HISTORY_UNITS: the table below
# is taken from docs/history.rst "GC Aliases" and the everyday meaning of the words)

_SPELL = {
    "commands": [("", 1), ("c", 1), ("cmd", 1), ("cmds", 1), ("command", 1), ("commands", 1)],
    "files": [("f", 1), ("files", 1)],
    "s": [("s", 1), ("sec", 1), ("second", 1), ("seconds", 1), ("m", 60), ("min", 60), ("mins", 60),
          ("h", 3600), ("hr", 3600), ("hour", 3600), ("hours", 3600), ("d", 86400), ("day", 86400),
          ("days", 86400)],
    "b": [("b", 1), ("byte", 1), ("bytes", 1), ("kb", 1024), ("kilobyte", 1024), ("kilobytes", 1024),
          ("mb", 1024 * 1024), ("megabyte", 1024 * 1024)],
}


def spell(unit, L, choice, need_word=False):
    """Return (number text, unit word) meaning exactly (L, unit); `choice` picks among the spellings."""
    opts = []
    fl = Fraction(L)
    for word, factor in _SPELL[unit]:
        if need_word and not word:
            continue
        q = fl / factor
        if unit == "s":
            if q.denominator in (1, 2, 4, 8):
                num = str(int(q)) if q.denominator == 1 else repr(float(q))
                opts.append((num, word))
                if q.denominator == 1 and q > 0 and int(q) % 10 == 0:
                    n, e = int(q), 0
                    while n % 10 == 0:
                        n //= 10
                        e += 1
                    opts.append(("%de%d" % (n, e), word))
        elif q.denominator == 1:
            opts.append((str(int(q)), word))
    if not opts:
        raise common.HarnessError("cannot spell %r %s" % (L, unit))
    num, word = opts[choice % len(opts)]
    # self-check of the harness' own arithmetic
    factor = dict(_SPELL[unit])[word]
    if Fraction(num) * factor != fl:
        raise common.HarnessError("spelling %r %r does not mean %r" % (num, word, L))
    style = (choice // len(opts)) % 4
    if style == 1:
        word = word.upper()
    text = num + ("" if style == 2 else " ") + word
    if style == 3:
        text = "  " + text + " "
    return num, word, text


# ----------------------------------------------------------------------------------------
# JSON backend: materialise a collection


def _member_times(m):
    """(opening ts, closing ts or None, ordering key) - closing, else opening timestamp."""
    age = m["age"]
    if m["lock"] != "no" or m.get("noclose"):
        t_open = NOW - age
        return t_open, None, t_open
    t_close = NOW - age
    return t_close - m.get("dur", 10), t_close, t_close


def _hist_dict(m, locked):
    t_open, t_close, _ = _member_times(m)
    pad = m.get("pad", 0)
    cmds = []
    for i in range(m["ncmds"]):
        c = {"inp": "cmd-%s-%d\n" % (m["id"], i), "rtn": 0, "ts": [t_open, t_open]}
        if i == 0 and pad:
            c["out"] = "x" * pad
        cmds.append(c)
    d = {"cmds": cmds, "sessionid": m["id"]}
    if m["kind"] != "nots":
        d["ts"] = [t_open, t_close]
        d["locked"] = locked
        d["env"] = {"C14": "1"}
    if not cmds and pad:
        d["pad"] = "x" * pad
    return d


def _corrupt_bytes(m):
    xlj = _state["xlj"]
    how = m["corrupt"]
    hd = _hist_dict(dict(m, kind="ok"), m["lock"] != "no")
    if how == "garbage":
        return b"\x00\xff\xfe garbage \x80\x81" * 6
    if how == "text":
        return b"this is not a history file\n" * 4
    if how == "short":
        return b"{"
    if how == "emptyobj":
        return b"{}"
    if how == "plainjson":
        return json.dumps(hd, sort_keys=True).encode()
    if how == "trunc":
        valid = xlj.dumps(hd, sort_keys=True)
        stop = valid.index('"locked"', valid.index('"data": '))
        cut = max(1, min(stop - 1, int(stop * m.get("cutfrac", 0.5))))
        return valid[:cut].encode()
    raise common.HarnessError("unknown corruption %r" % how)


def _path_of(m):
    st = _state
    where = m.get("where", "hist")
    d = {"hist": st["hist"], "data": st["data"], "custom": st["custom"]}[where]
    return os.path.join(d, m["name"])


def _prepare_json(case):
    """Write the collection; return the per-member facts the model needs."""
    st = _state
    xlj = st["xlj"]
    _wipe(st["data"], keep=("history_json",))
    _wipe(st["hist"])
    _wipe(st["custom"])
    # decoys are well-formed, unlocked, ancient histories: if a loosened file-name filter picked them up they
    # would be the first to go
    if "decoy" not in st:
        st["decoy"] = xlj.dumps({"cmds": [{"inp": "decoy\n", "rtn": 0, "ts": [1.0, 2.0]}], "locked": False,
                                 "sessionid": "decoy", "ts": [1.0, 2.0]}, sort_keys=True)
    for where, name in DECOYS:
        with open(os.path.join(st[where], name), "w") as f:
            f.write(st["decoy"])
    info = []
    seen_names = set()
    for m in case["files"]:
        path = _path_of(m)
        if path in seen_names:
            raise common.HarnessError("duplicate member path %s" % path)
        seen_names.add(path)
        kind, lock = m["kind"], m["lock"]
        ent = {"id": m["id"], "path": path, "kind": kind, "lock": lock, "ncmds": 0, "size": 0, "size_alt": 0,
               "klass": "cand", "key": None, "stale": False}
        if kind == "zero":
            open(path, "wb").close()
            t = NOW - m["age"]
            os.utime(path, (t, t))
            ent["key"] = t
        elif kind == "corrupt":
            ent["klass"] = "corrupt"
            if m["corrupt"] == "dir":
                os.makedirs(path)
            elif m["corrupt"] == "dangling":
                os.symlink(os.path.join(st["base"], "nowhere-" + m["id"]), path)
            else:
                data = _corrupt_bytes(m)
                with open(path, "wb") as f:
                    f.write(data)
                ent["bytes"] = data
        elif kind in ("ok", "nots"):
            if kind == "nots":
                lock = "no"
            text = xlj.dumps(_hist_dict(m, lock != "no"), sort_keys=True).encode()
            with open(path, "wb") as f:
                f.write(text)
            ent["ncmds"] = m["ncmds"]
            ent["size"] = ent["size_alt"] = len(text)
            if kind == "nots":
                ent["key"] = 0.0
            else:
                ent["key"] = _member_times(m)[2]
            if lock == "live":
                if m["age"] > BOOT_AGE:
                    raise common.HarnessError("locked-live member older than boot: %r" % (m,))
                ent["klass"] = "live"
            elif lock == "stale":
                if m["age"] <= BOOT_AGE:
                    raise common.HarnessError("locked-stale member younger than boot: %r" % (m,))
                ent["stale"] = True
                ent["size_alt"] = len(xlj.dumps(_hist_dict(m, False), sort_keys=True).encode())
        else:
            raise common.HarnessError("unknown member kind %r" % kind)
        info.append(ent)
    keys = [e["key"] for e in info if e["klass"] == "cand"]
    if len(set(keys)) != len(keys):
        raise common.HarnessError("candidate timestamps are not distinct: %r" % (keys,))
    return info


# ----------------------------------------------------------------------------------------
# the model (from the property text)


def _amounts(cands, unit, alt=False):
    if unit == "commands":
        return [c["ncmds"] for c in cands]
    if unit == "files":
        return [1 for c in cands]
    if unit == "b":
        return [c["size_alt" if alt else "size"] for c in cands]
    raise AssertionError(unit)


def resolve_limit(lim, cands):
    """Turn the limit's anchor (a place relative to the collection) into a number; `snap` rounds it down to a
    multiple of 60 / 3600 / 86400 / 1024 so that it can be spelled in minutes, hours, days, kb."""
    v = _resolve_limit(lim, cands)
    snap = lim.get("snap")
    if snap and v > snap:
        v = int(v // snap) * snap
    return v


def _resolve_limit(lim, cands):
    unit, a = lim["unit"], lim["anchor"]
    if a[0] == "abs":
        return a[1]
    n = len(cands)
    if unit == "s":
        ages = [NOW - c["key"] for c in cands]            # oldest first = largest first
        if not ages:
            base = 0
        elif a[0] == "suffix":                             # age of the k-th newest candidate
            k = min(max(a[1], 1), n)
            base = ages[n - k]
        elif a[0] == "prefix":                             # the place where excess == limit
            base = ages[0] / 2
        else:
            base = ages[0]
        v = base + a[2]
        return int(v) if float(v).is_integer() else v
    am = _amounts(cands, unit)
    if a[0] == "suffix":
        k = min(a[1], n)
        base = sum(am[n - k:]) if k else 0
    elif a[0] == "prefix":
        base = sum(am[:min(a[1], n)])
    else:
        base = sum(am)
    return base + a[2]


def _decide(n_rm, R, K, L, force, n):
    """Allowed numbers of (oldest) candidates deleted, for one reading of the sizes."""
    if n_rm == 0:
        return {0}, "fits"
    if force:
        return {n_rm}, "forced"
    refuse_limit = R >= L      # the code's own wording: "...than it would keep ({hsize})"
    refuse_actual = R > K      # the property's wording, 'keeps' = what actually remains
    if refuse_limit and refuse_actual:
        return {0}, "must-refuse"
    if not refuse_limit and not refuse_actual:
        return {n_rm}, "must-run"
    return {0, n_rm}, "ambiguous"


def json_model(info, unit, L, force):
    cands = sorted((e for e in info if e["klass"] == "cand"), key=lambda e: e["key"])
    n = len(cands)
    allowed, zones, rms = set(), [], []
    if unit == "s":
        ages = [NOW - c["key"] for c in cands]
        for strict in (True, False):   # a file exactly `limit` seconds old: both readings of the boundary
            n_rm = sum(1 for a in ages if (a >= L if strict else a > L))
            R = (ages[0] - L) if n_rm else 0
            K = ages[n_rm] if n_rm < n else 0
            al, z = _decide(n_rm, R, K, L, force, n)
            allowed |= al
            zones.append(z)
            rms.append(n_rm)
    else:
        for alt in (False, True):      # a stale-locked file changes size when it is unlocked: either size
            am = _amounts(cands, unit, alt)
            total, keep = 0, 0
            for a in reversed(am):
                if total + a > L:
                    break
                total += a
                keep += 1
            n_rm = n - keep
            al, z = _decide(n_rm, sum(am[:n_rm]), total, L, force, n)
            allowed |= al
            zones.append(z)
            rms.append(n_rm)
            if unit != "b":
                break
    if L < 0 and force:
        # a negative limit has no documented meaning (the SQLite backend treats it as "disabled");
        # forced, only the safety invariants are demanded
        allowed = set(range(n + 1))
        zones = ["negative-forced"]
    return {"order": [c["id"] for c in cands], "allowed": allowed, "zone": zones[0], "n_rm": rms[0],
            "n": n, "agree": len(set(zones)) == 1}


# ----------------------------------------------------------------------------------------
# running one JSON case


def _call_guarded(fn):
    """Run fn() with stdout/stderr captured, a hang bound and the GC thread's exceptions collected."""
    st = _state
    st["thread_exc"].clear()
    old = sys.stdout, sys.stderr
    buf = io.StringIO()
    sys.stdout = sys.stderr = buf
    exc = None
    signal.alarm(HANG_S)
    try:
        try:
            fn()
        except _Timeout:
            exc = "hang"
        except common.HarnessError:
            raise
        except Exception as e:  # noqa: BLE001
            exc = "%s: %s" % (type(e).__name__, e)
    finally:
        signal.alarm(0)
        sys.stdout, sys.stderr = old
    return exc, list(st["thread_exc"]), buf.getvalue()


def _own_member(case):
    own = case.get("own", "unset")
    m = {"id": "own", "name": "xonsh-own.json", "where": "hist", "kind": "ok", "lock": "live", "ncmds": 0,
         "age": 10, "pad": 0}
    if own == "own-custom":
        m.update(where="custom", name="own-hist.json")
    return m


_UNIT_FREE_KINDS = ("hang", "gc-exception", "gc-crash", "live-deleted", "live-unlocked", "corrupt-deleted",
                    "corrupt-modified", "decoy-deleted", "survivor-damaged")


def is_f1_shape(case, unit, L, model):
    """C14-F1: limit (0, 'files'), forced, at least one candidate."""
    return case["backend"] == "json" and unit == "files" and L == 0 and case["force"] and model["n"] >= 1


def run_json_case(case, tolerate=True, stats=None):
    """Returns (Failure | None, nontrivial, labels, key)."""
    st = _state
    XSH, xhj = st["XSH"], st["xhj"]
    env = XSH.env
    info = _prepare_json(case)
    ownm = _own_member(case)
    own_path = _path_of(ownm)
    env["XONSH_DATA_DIR"] = st["data"]
    own_mode = case.get("own", "unset")
    custom_members = [m for m in case["files"] if m.get("where") == "custom"]
    if own_mode == "own-custom" and custom_members:
        raise common.HarnessError("own-custom together with a custom member")
    if len(custom_members) > 1:
        raise common.HarnessError("more than one member behind $XONSH_HISTORY_FILE")
    env["XONSH_HISTORY_FILE"] = None
    hist = xhj.JsonHistory(filename=own_path if own_mode == "own-custom" else None, sessionid="own", gc=False,
                           ts=[NOW - ownm["age"], None], locked=True, env={"C14": "1"})
    if os.path.normpath(hist.filename) != os.path.normpath(own_path):
        raise common.HarnessError("own history file is %s, expected %s" % (hist.filename, own_path))
    XSH.history = hist
    if custom_members:
        env["XONSH_HISTORY_FILE"] = _path_of(custom_members[0])
    elif own_mode in ("own-default", "own-custom"):
        env["XONSH_HISTORY_FILE"] = hist.filename
    with open(own_path, "rb") as f:
        own_bytes = f.read()
    info.append({"id": "own", "path": own_path, "kind": "ok", "lock": "live", "klass": "live", "ncmds": 0,
                 "size": len(own_bytes), "size_alt": len(own_bytes), "key": NOW - ownm["age"], "stale": False})

    lim = case["limit"]
    unit = lim["unit"]
    cands = sorted((e for e in info if e["klass"] == "cand"), key=lambda e: e["key"])
    L = resolve_limit(lim, cands)
    force = bool(case["force"])
    model = json_model(info, unit, L, force)
    route = case.get("route", "size-tuple")
    choice = case.get("spell", 0)

    def go():
        if route == "size-tuple":
            hist.run_gc(size=(L, unit), force=force)
        elif route == "size-str":
            hist.run_gc(size=spell(unit, L, choice)[2], force=force)
        elif route == "env-tuple":
            env["XONSH_HISTORY_SIZE"] = (L, unit)
            hist.run_gc(force=force)
        elif route == "env-str":
            env["XONSH_HISTORY_SIZE"] = spell(unit, L, choice)[2]
            hist.run_gc(force=force)
        elif route == "cli":
            num, word, _ = spell(unit, L, choice, need_word=True)
            XSH.aliases["history"](["gc", "--size", num, word] + (["--force"] if force else []))
        else:
            raise common.HarnessError("unknown route %r" % route)

    try:
        exc, texc, out = _call_guarded(go)
    finally:
        env["XONSH_HISTORY_SIZE"] = st["default_size"]
        env["XONSH_HISTORY_FILE"] = None
        XSH.history = None

    # ---- observe
    deleted = [e["id"] for e in info if not os.path.lexists(e["path"])]
    decoys_gone = [name for where, name in DECOYS if not os.path.lexists(os.path.join(st[where], name))]
    by_id = {e["id"]: e for e in info}
    order = model["order"]
    resolved = {"unit": unit, "L": L, "force": force, "route": route, "order_oldest_first": order,
                "deleted": deleted, "zone": model["zone"], "allowed_counts": sorted(model["allowed"])}

    # ---- labels / non-triviality (measured on this case)
    inside = 0 < model["n_rm"] < model["n"]
    gen = [e for e in info if e["id"] != "own"]
    live_matters = False
    if model["n_rm"] > 0 and any(e["klass"] == "live" for e in gen):
        hyp = [dict(e, klass="cand") if e["klass"] == "live" else e for e in gen]
        hm = json_model(hyp, unit, L, True)
        doomed = set(hm["order"][:hm["n_rm"]])
        live_matters = any(e["klass"] == "live" and e["id"] in doomed for e in gen)
    special = model["n_rm"] > 0 and (live_matters or any(e["stale"] or e["klass"] == "corrupt" for e in gen))
    nontrivial = inside or special
    labels = ["json:" + unit, "zone:" + model["zone"], "route:" + route, "force" if force else "unforced",
              "files:%d" % min(len(gen), 8)]
    if inside:
        labels.append("limit-strictly-inside")
    if not model["agree"]:
        labels.append("readings-disagree")
    for lab, pred in (("has-live", lambda e: e["klass"] == "live"), ("has-stale", lambda e: e["stale"]),
                      ("has-corrupt", lambda e: e["klass"] == "corrupt"), ("has-zero", lambda e: e["kind"] == "zero"),
                      ("has-nots", lambda e: e["kind"] == "nots")):
        if any(pred(e) for e in gen):
            labels.append(lab)
    if live_matters:
        labels.append("live-would-be-discarded")
    if custom_members or own_mode == "own-custom":
        labels.append("custom-history-file")
    if any(m.get("where") == "data" for m in case["files"]):
        labels.append("compat-dir-member")
    if "would discard more history" in out:
        labels.append("refusal-message")
    key = (tuple(sorted((e["kind"], e["lock"], e["ncmds"], e["size"], e["key"],
                         os.path.dirname(e["path"]) == st["hist"]) for e in gen if e["klass"] != "corrupt")),
           sum(1 for e in gen if e["klass"] == "corrupt"), unit, L, force)

    # ---- judge
    def fail(kind, detail, finding=None):
        # root-cause key: the safety invariants do not depend on the unit, the size arithmetic does
        bucket = finding or (kind if kind in _UNIT_FREE_KINDS else "%s:%s" % (kind, unit))
        return (Failure(kind, case, "%s; resolved=%s" % (detail, json.dumps(common.jsonable(resolved))),
                        finding=finding, bucket=bucket), nontrivial, labels, key)

    if exc == "hang":
        return fail("hang", "run_gc did not return within %d s" % HANG_S)
    if exc is not None:
        return fail("gc-exception", "run_gc raised %s" % exc)
    if texc:
        return fail("gc-crash", "the GC thread died with %s" % "; ".join(texc))
    bad_live = [i for i in deleted if by_id[i]["klass"] == "live"]
    if bad_live:
        return fail("live-deleted", "file(s) of a live (locked, ts[0] >= boot) session deleted: %s" % bad_live)
    bad_cor = [i for i in deleted if by_id[i]["klass"] == "corrupt"]
    if bad_cor:
        return fail("corrupt-deleted", "unloadable member(s) deleted (lock state unknowable): %s" % bad_cor)
    if decoys_gone:
        return fail("decoy-deleted", "file(s) that are not history files deleted: %s" % decoys_gone)
    if set(deleted) != set(order[:len(deleted)]):
        return fail("not-oldest-first", "deleted %s is not a prefix of the oldest-first order %s" % (deleted, order))
    if len(deleted) not in model["allowed"]:
        al = model["allowed"]
        if al == {0}:
            kind = "deleted-within-limit" if model["zone"] == "fits" else "refusal-ignored"
        elif not deleted:
            kind = "not-collected"
        elif len(deleted) > max(al):
            kind = "over-collected"
        else:
            kind = "under-collected"
        finding = None
        if kind == "not-collected" and is_f1_shape(case, unit, L, model):
            finding = "C14-F1"
            if tolerate:
                if stats is not None:
                    stats.excluded_known["C14-F1"] += 1
                return None, nontrivial, labels + ["tolerated:C14-F1"], key
        return fail(kind, "deleted %d oldest candidate(s) %s; the model allows %s (zone %s)" % (
            len(deleted), deleted, sorted(al), model["zone"]), finding)
    # survivors: live files still locked, unloadable members untouched, kept files keep their commands
    xlj = st["xlj"]
    for e in info:
        if e["id"] in deleted:
            continue
        if e["klass"] == "corrupt":
            if "bytes" in e:
                with open(e["path"], "rb") as f:
                    if f.read() != e["bytes"]:
                        return fail("corrupt-modified", "unloadable member %s was rewritten" % e["id"])
            continue
        if e["kind"] == "zero":
            continue
        try:
            lj = xlj.LazyJSON(e["path"], reopen=False)
            try:
                ncmds = len(lj["cmds"])
                locked = lj.get("locked", False)
            finally:
                lj.close()
        except Exception as ex:  # noqa: BLE001
            return fail("survivor-damaged", "kept file %s no longer loads: %s: %s" % (e["id"], type(ex).__name__, ex))
        if ncmds != e["ncmds"]:
            return fail("survivor-damaged", "kept file %s has %d commands, had %d" % (e["id"], ncmds, e["ncmds"]))
        if e["klass"] == "live" and not locked:
            return fail("live-unlocked", "file of a live session %s was unlocked by GC" % e["id"])
    return None, nontrivial, labels, key


# ----------------------------------------------------------------------------------------
# SQLite backend


def is_f2_shape(case, unit, N, nrows):
    """C14-F2: SQLite, limit (0, 'commands'), at least one row."""
    return case["backend"] == "sqlite" and unit == "commands" and N == 0 and nrows >= 1


def is_f3_shape(case):
    """C14-F3: SQLite history constructed with an explicit filename (what shell.py does with
    $XONSH_HISTORY_FILE) that is not the default database location; the narrow predicate additionally
    requires that GC left that table alone and created/opened the default-location database instead."""
    return case["backend"] == "sqlite" and case.get("file") == "filename"


def run_sqlite_case(case, tolerate=True, stats=None):
    import sqlite3

    st = _state
    XSH, xhs = st["XSH"], st["xhs"]
    env = XSH.env
    _wipe(st["data"])
    _wipe(st["custom"])
    env["XONSH_DATA_DIR"] = st["data"]
    env["XONSH_HISTORY_FILE"] = None
    _unset(env, "XONSH_HISTORY_SQLITE_FILE")
    mode = case.get("file", "default")
    fname = None
    if mode == "envfile":
        env["XONSH_HISTORY_SQLITE_FILE"] = os.path.join(st["custom"], "via-env.sqlite")
    elif mode == "filename":
        fname = os.path.join(st["custom"], "via-arg.sqlite")
    elif mode != "default":
        raise common.HarnessError("unknown sqlite file mode %r" % mode)
    rows = case["rows"]
    ages = [r["age"] for r in rows]
    if len(set(ages)) != len(ages):
        raise common.HarnessError("tsb values are not distinct")
    lim = case["limit"]
    unit = lim["unit"]
    a = lim["anchor"]
    N = a[1] if a[0] == "abs" else len(rows) + a[1]
    route = case.get("route", "size-tuple")
    choice = case.get("spell", 0)
    box = {}

    def build():
        hist = xhs.SqliteHistory(gc=False, sessionid="own", filename=fname)
        box["hist"] = hist
        XSH.history = hist
        if fname is not None:
            env["XONSH_HISTORY_FILE"] = hist.filename
        # the first two rows of the own session go through SqliteHistory.append, every other row through
        # the backend's own insert function on one shared connection (an append costs a connection each)
        own_left = 2
        bulk = []
        for i, r in enumerate(rows):
            cmd = {"inp": "cmd-%d\n" % i, "rtn": 0, "ts": [NOW - r["age"], NOW - r["age"] + 0.25]}
            if r["sess"] == 0 and own_left:
                own_left -= 1
                hist.append(cmd)
            else:
                bulk.append((cmd, "own" if r["sess"] == 0 else "other-%d" % r["sess"]))
        if bulk:
            with xhs._xh_sqlite_get_conn(filename=hist.filename) as conn:
                cur = conn.cursor()
                xhs._xh_sqlite_create_history_table(cur)
                for cmd, sid in bulk:
                    xhs._xh_sqlite_insert_command(cur, cmd, sid, False)
                conn.commit()

    def read():
        con = sqlite3.connect(box["hist"].filename)
        try:
            try:
                return con.execute("SELECT inp, tsb, sessionid FROM xonsh_history ORDER BY tsb").fetchall()
            except sqlite3.OperationalError:
                return []
        finally:
            con.close()

    def go():
        hist = box["hist"]
        if route == "size-tuple":
            hist.run_gc(size=(N, unit))
        elif route == "size-str":
            hist.run_gc(size=spell(unit, N, choice)[2])
        elif route == "env-tuple":
            env["XONSH_HISTORY_SIZE"] = (N, unit)
            hist.run_gc()
        elif route == "env-str":
            env["XONSH_HISTORY_SIZE"] = spell(unit, N, choice)[2]
            hist.run_gc()
        elif route == "cli":
            num, word, _ = spell(unit, N, choice, need_word=True)
            XSH.aliases["history"](["gc", "--size", num, word])
        else:
            raise common.HarnessError("unknown route %r" % route)

    try:
        exc0, texc0, _ = _call_guarded(build)
        if exc0 or texc0:
            raise common.HarnessError("could not build the SQLite history: %s %s" % (exc0, texc0))
        before = read()
        if len(before) != len(rows):
            raise common.HarnessError("SQLite table has %d rows after %d appends" % (len(before), len(rows)))
        exc, texc, _ = _call_guarded(go)
        after = read()
        default_db = os.path.join(st["data"], "xonsh-history.sqlite")
        wrong_db_touched = (os.path.normpath(box["hist"].filename) != default_db and os.path.exists(default_db))
    finally:
        env["XONSH_HISTORY_SIZE"] = st["default_size"]
        env["XONSH_HISTORY_FILE"] = None
        _unset(env, "XONSH_HISTORY_SQLITE_FILE")
        _unset(env, "XONSH_HISTORY_FILENAME")
        XSH.history = None

    n = len(before)
    if unit != "commands":
        allowed, zone = {0}, "unit-unsupported"
    elif N < 0:
        allowed, zone = {0, n}, "negative"
    elif N >= n:
        allowed, zone = {0}, "fits"
    else:
        allowed, zone = {n - N}, "trim"
    ndel = n - len(after)
    nontrivial = unit == "commands" and 0 < N < n
    labels = ["sqlite:" + unit, "zone:" + zone, "route:" + route, "file:" + mode, "rows:%d" % min(n, 12)]
    if nontrivial:
        labels.append("limit-strictly-inside")
    if len({r["sess"] for r in rows}) > 1:
        labels.append("several-sessions")
    key = ("sqlite", tuple((r["age"], r["sess"]) for r in rows), unit, N, mode)
    resolved = {"unit": unit, "N": N, "rows_before": n, "rows_after": len(after), "zone": zone, "file": mode,
                "allowed_deleted": sorted(allowed)}

    def fail(kind, detail, finding=None):
        return (Failure(kind, case, "%s; resolved=%s" % (detail, json.dumps(resolved)), finding=finding,
                        bucket=finding or "%s:sqlite" % kind), nontrivial, labels, key)

    if exc == "hang":
        return fail("hang", "run_gc did not return within %d s" % HANG_S)
    if exc is not None:
        return fail("gc-exception", "run_gc raised %s" % exc)
    if texc:
        return fail("gc-crash", "the GC thread died with %s" % "; ".join(texc))
    if after and after != before[n - len(after):]:
        return fail("not-newest-kept", "rows left %r are not the newest rows of %r" % (
            [r[0] for r in after], [r[0] for r in before]))
    if ndel not in allowed:
        kind = ("deleted-within-limit" if allowed == {0} else "not-collected" if ndel == 0
                else "over-collected" if ndel > max(allowed) else "under-collected")
        finding = None
        if kind == "not-collected":
            if is_f2_shape(case, unit, N, n):
                finding = "C14-F2"
            elif is_f3_shape(case) and wrong_db_touched:
                finding = "C14-F3"
        if finding and tolerate:
            if stats is not None:
                stats.excluded_known[finding] += 1
            return None, nontrivial, labels + ["tolerated:" + finding], key
        return fail(kind, "%d oldest row(s) deleted, the model allows %s (keep the newest %r of %d)" % (
            ndel, sorted(allowed), N, n), finding)
    return None, nontrivial, labels, key


# ----------------------------------------------------------------------------------------
# live family: REAL sessions (JsonHistory objects with their own lock protocol) next to a GC run


def is_f4_shape(sess):
    """C14-F4: a live session that has run `history clear`: JsonHistory.clear() rewrites the session file without
    'locked' / 'ts', so from then on every collector takes the file of the running session for the oldest closed one."""
    return sess["cleared"]


def is_f5_shape(sess):
    """C14-F5: a session that ended with an empty buffer (no command at all, k x buffersize commands, or
    `history flush` last): flush(at_exit=True) returns before the flusher that would unlock the file and stamp its
    closing time, so the file of the dead session stays locked (= live for every collector) until the next reboot."""
    return sess["closed_empty"] and sess["t_open"] >= BOOT     # opened before boot: the reboot rule unlocks it


def _live_cmd(sid, i, t):
    return {"inp": "live-%s-%d\n" % (sid, i), "rtn": 0, "ts": [t + i, t + i + 0.5], "cwd": "/"}


def _play_life(h, sess, ops, XSH):
    """Run a generated piece of a session's life; every background flusher is joined (GC meets a quiescent dir)."""
    for op in ops:
        if op[0] == "append":
            for _ in range(int(op[1])):
                c = _live_cmd(sess["id"], sess["n"], sess["t_open"])
                sess["n"] += 1
                sess["expect"].append(c["inp"])
                hf = h.append(c)
                if hf is not None:
                    hf.join(HANG_S)
                    if hf.is_alive():
                        raise _Timeout()
                    sess["flushes"] += 1
        elif op[0] == "flush":
            had = len(h.buffer)
            if len(op) > 1 and op[1] == "alias":
                XSH.history = h
                try:
                    XSH.aliases["history"](["flush"])
                finally:
                    XSH.history = None
            else:
                hf = h.flush()
                if hf is not None:
                    hf.join(HANG_S)
                    if hf.is_alive():
                        raise _Timeout()
            if had:
                sess["flushes"] += 1
        elif op[0] == "clear":
            h.clear()
            sess["expect"] = []
            sess["cleared"] = True
        else:
            raise common.HarnessError("unknown life op %r" % (op,))


def _disk_inps(path):
    xlj = _state["xlj"]
    with open(path, newline="\n", encoding="utf-8") as f:
        d = xlj.LazyJSON(f).load()
    return [c.get("inp") for c in d["cmds"]], d


def run_live_case(case, tolerate=True, stats=None):
    """1-3 live sessions (real JsonHistory objects at a generated point of their life), closed sessions (written
    files and really closed objects) and one GC run from a live or a fresh session.  -> (Failure|None, nontrivial,
    labels, key)"""
    st = _state
    XSH, xhj, clock = st["XSH"], st["xhj"], st["clock"]
    env = XSH.env
    info = _prepare_json({"files": case.get("closed", [])})
    env["XONSH_DATA_DIR"] = st["data"]
    env["XONSH_HISTORY_FILE"] = None
    lim = case["limit"]
    unit = lim["unit"]
    force = bool(case["force"])
    route = case.get("route", "size-tuple")
    choice = case.get("spell", 0)
    sessions = []          # every real session, closed ones first
    objs = {}
    box = {}

    def open_session(spec, live):
        t_open = NOW - spec["age"] - (0 if live else spec.get("dur", 10))
        sess = {"id": spec["id"], "live": live, "t_open": t_open, "n": 0, "expect": [], "flushes": 0, "cleared": False,
                "closed_empty": False, "bs": spec["bs"], "spec": spec}
        clock.now = t_open
        h = xhj.JsonHistory(sessionid=spec["id"], buffersize=spec["bs"], gc=False, ts=[t_open, None], locked=True,
                            env={"C14": "1"})
        sess["path"] = h.filename
        objs[spec["id"]] = h
        sessions.append(sess)
        return sess, h

    def build():
        for spec in case.get("real_closed", []):
            sess, h = open_session(spec, False)
            _play_life(h, sess, spec["life"], XSH)
            if not h.buffer:
                if spec.get("end_empty"):
                    sess["closed_empty"] = True
                else:
                    _play_life(h, sess, [["append", 1]], XSH)
                    if not h.buffer:        # buffer size 1: the append has flushed already
                        sess["closed_empty"] = True
            clock.now = NOW - spec["age"]
            h.flush(at_exit=True)           # what XSH.unload() / the atexit handler do
            clock.now = NOW
        for spec in case["live"]:
            if spec["age"] > BOOT_AGE:
                raise common.HarnessError("live session older than boot: %r" % (spec,))
            sess, h = open_session(spec, True)
            clock.now = NOW
            _play_life(h, sess, spec["life"], XSH)
        clock.now = NOW
        r = case.get("runner", "fresh")
        if r == "fresh":
            box["runner"] = xhj.JsonHistory(sessionid="own", gc=False, ts=[NOW - 10, None], locked=True, env={"C14": "1"})
            box["own_path"] = box["runner"].filename
        else:
            box["runner"] = objs[case["live"][int(r) % len(case["live"])]["id"]]

    try:
        exc, texc, _ = _call_guarded(build)
    finally:
        clock.now = NOW
    if exc or texc:
        f = Failure("session-exception", case, "building the sessions (open / append / flush / clear / close) failed: "
                    "%s %s" % (exc, texc), bucket="live:session-exception")
        return f, False, ["live:" + unit], ("live-broken", json.dumps(case, sort_keys=True))

    # ---- facts before the GC
    for sess in sessions:
        ent = {"id": sess["id"], "path": sess["path"], "kind": "ok", "stale": False, "sess": sess}
        try:
            ent["size"] = ent["size_alt"] = os.path.getsize(sess["path"])
            with open(sess["path"], "rb") as f:
                sess["bytes"] = f.read()
        except OSError as e:
            return (Failure("session-file-missing", case, "session %s has no file before the GC: %s" % (sess["id"], e),
                            bucket="live:session-file-missing"), False, ["live:" + unit], ("live-broken", sess["id"]))
        h = objs[sess["id"]]
        on_disk = len(sess["expect"]) - len(h.buffer) if sess["live"] else len(sess["expect"])
        ent["ncmds"] = on_disk
        if sess["live"]:
            ent.update(lock="live", klass="live", key=sess["t_open"])
        elif sess["closed_empty"] and sess["t_open"] < BOOT:
            # never unlocked by its own exit, but opened before boot: the collector unlocks it (one byte longer)
            # and sorts it by its opening time
            ent.update(lock="stale", klass="cand", key=sess["t_open"], stale=True, size_alt=ent["size"] + 1)
        else:
            ent.update(lock="no", klass="cand", key=NOW - sess["spec"]["age"])
        info.append(ent)
    if "own_path" in box:
        n = os.path.getsize(box["own_path"])
        info.append({"id": "own", "path": box["own_path"], "kind": "ok", "lock": "live", "klass": "live", "ncmds": 0,
                     "size": n, "size_alt": n, "key": NOW - 10, "stale": False})
    keys = [e["key"] for e in info if e["klass"] == "cand"]
    if len(set(keys)) != len(keys):
        # the opening time of a session that was never unlocked coincides with another candidate's time stamp:
        # ties have no defined oldest-first order (see assumptions)
        if stats is not None:
            stats.discards += 1
        return None, False, ["live:discarded-timestamp-tie"], ("live-tie", json.dumps(case, sort_keys=True))
    cands = sorted((e for e in info if e["klass"] == "cand"), key=lambda e: e["key"])
    L = resolve_limit(lim, cands)
    model = json_model(info, unit, L, force)
    runner = box["runner"]

    def go():
        XSH.history = runner
        if route == "size-tuple":
            runner.run_gc(size=(L, unit), force=force)
        elif route == "env-tuple":
            env["XONSH_HISTORY_SIZE"] = (L, unit)
            runner.run_gc(force=force)
        elif route == "cli":
            num, word, _ = spell(unit, L, choice, need_word=True)
            XSH.aliases["history"](["gc", "--size", num, word] + (["--force"] if force else []))
        else:
            raise common.HarnessError("unknown route %r" % route)

    try:
        exc, texc, out = _call_guarded(go)
    finally:
        env["XONSH_HISTORY_SIZE"] = st["default_size"]
        XSH.history = None

    deleted = [e["id"] for e in info if not os.path.lexists(e["path"])]
    decoys_gone = [name for where, name in DECOYS if not os.path.lexists(os.path.join(st[where], name))]
    by_id = {e["id"]: e for e in info}
    resolved = {"unit": unit, "L": L, "force": force, "route": route, "order_oldest_first": model["order"],
                "deleted": deleted, "zone": model["zone"], "allowed_counts": sorted(model["allowed"]),
                "live": [s["id"] for s in sessions if s["live"]], "gc_from": case.get("runner", "fresh")}

    # ---- labels / non-triviality
    live_s = [s for s in sessions if s["live"]]
    hyp = [dict(e, klass="cand") if (e["klass"] == "live" and e["id"] != "own") else e for e in info]
    hm = json_model(hyp, unit, L, True)
    doomed = set(hm["order"][:hm["n_rm"]])
    flushed_live = [s for s in live_s if s["flushes"] and not s["cleared"]]
    live_matters = any(s["id"] in doomed for s in flushed_live)
    nontrivial = live_matters
    labels = ["live:" + unit, "live-zone:" + model["zone"], "live-route:" + route,
              "live-force" if force else "live-unforced", "live-sessions:%d" % len(live_s),
              "live-gc-from:" + ("fresh" if case.get("runner", "fresh") == "fresh" else "live")]
    if flushed_live:
        labels.append("live:flushed-mid-session")
    if any(s["flushes"] and len(objs[s["id"]].buffer) for s in live_s):
        labels.append("live:flushed-and-buffered")
    if any(not s["n"] for s in live_s):
        labels.append("live:just-opened")
    if live_matters:
        labels.append("live:flushed-file-would-be-discarded-if-unlocked")
    if any(s["cleared"] for s in live_s):
        labels.append("live:cleared")
    if case.get("real_closed"):
        labels.append("live:really-closed-sessions")
    if 0 < model["n_rm"] < model["n"]:
        labels.append("live:limit-strictly-inside")
    key = ("live", json.dumps([case.get("closed"), case.get("real_closed"), case["live"], case.get("runner")],
                              sort_keys=True), unit, L, force)

    def fail(kind, detail, finding=None):
        bucket = finding or ("live:" + (kind if kind in _UNIT_FREE_KINDS or kind.startswith("live-") else
                                        "%s:%s" % (kind, unit)))
        return (Failure(kind, case, "%s; resolved=%s" % (detail, json.dumps(common.jsonable(resolved))),
                        finding=finding, bucket=bucket), nontrivial, labels, key)

    if exc == "hang":
        return fail("hang", "run_gc did not return within %d s" % HANG_S)
    if exc is not None:
        return fail("gc-exception", "run_gc raised %s" % exc)
    if texc:
        return fail("gc-crash", "the GC thread died with %s" % "; ".join(texc))
    if decoys_gone:
        return fail("decoy-deleted", "file(s) that are not history files deleted: %s" % decoys_gone)

    def judge(as_cand=(), as_live=()):
        """Compare with the model under one reading of the sessions' state: ids in `as_cand` are live sessions the
        collector may take for closed ones (F4), ids in `as_live` dead sessions it may take for live ones (F5)."""
        inf = []
        for e in info:
            if e["id"] in as_cand:
                e = dict(e, klass="cand", key=0.0)
            elif e["id"] in as_live:
                e = dict(e, klass="live")
            inf.append(e)
        m = json_model(inf, unit, L, force)
        byi = {e["id"]: e for e in inf}
        bad_live = [i for i in deleted if byi[i]["klass"] == "live"]
        if bad_live:
            return ("live-deleted", "GC deleted the file of a live session (a JsonHistory object that is still in use, "
                    "opened after boot): %s; its life before the GC: %s" % (
                        bad_live, [(s["id"], s["spec"]["life"]) for s in sessions if s["id"] in bad_live]))
        if set(deleted) != set(m["order"][:len(deleted)]):
            return ("not-oldest-first", "deleted %s is not a prefix of the oldest-first order %s" % (deleted, m["order"]))
        if len(deleted) not in m["allowed"]:
            al = m["allowed"]
            if al == {0}:
                kind = "deleted-within-limit" if m["zone"] == "fits" else "refusal-ignored"
            elif not deleted:
                kind = "not-collected"
            elif len(deleted) > max(al):
                kind = "over-collected"
            else:
                kind = "under-collected"
            return (kind, "deleted %d oldest candidate(s) %s; the model allows %s (zone %s, order %s)" % (
                len(deleted), deleted, sorted(al), m["zone"], m["order"]))
        return None

    res = judge()
    finding = None
    if res is not None:
        f4 = [x["id"] for x in live_s if is_f4_shape(x)]
        f5 = [x["id"] for x in sessions if not x["live"] and is_f5_shape(x)]
        alts = []
        if f4:
            alts.append(("C14-F4", {"as_cand": f4}))
        if f5:
            alts.append(("C14-F5", {"as_live": f5}))
        if f4 and f5:
            alts.append(("C14-F4", {"as_cand": f4, "as_live": f5}))
        for fid, kw in alts:
            if judge(**kw) is None:
                finding = fid
                break
        if finding is None or not tolerate:
            return fail(res[0], res[1], finding)
        if stats is not None:
            stats.excluded_known[finding] += 1
        labels = labels + ["tolerated:" + finding]
    # ---- survivors
    xlj = st["xlj"]
    for e in info:
        if e["id"] in deleted:
            continue
        sess = e.get("sess")
        if e["klass"] == "live" and sess is not None:
            with open(e["path"], "rb") as f:
                if f.read() != sess["bytes"]:
                    return fail("live-modified", "the file of live session %s was rewritten by the GC" % e["id"])
            continue
        if e["kind"] == "zero" or e["klass"] == "corrupt" or e["id"] == "own":
            continue
        try:
            lj = xlj.LazyJSON(e["path"], reopen=False)
            try:
                ncmds = len(lj["cmds"])
            finally:
                lj.close()
        except Exception as ex:  # noqa: BLE001
            return fail("survivor-damaged", "kept file %s no longer loads: %s: %s" % (e["id"], type(ex).__name__, ex))
        if ncmds != e["ncmds"]:
            return fail("survivor-damaged", "kept file %s has %d commands, had %d" % (e["id"], ncmds, e["ncmds"]))
    # ---- the live sessions go on: append, flush, read back everything
    after = case.get("after", 1)
    for sess in live_s:
        if sess["id"] in deleted:
            continue            # tolerated known finding
        h = objs[sess["id"]]
        problem = []

        def cont(h=h, sess=sess, problem=problem):
            _play_life(h, sess, [["append", after], ["flush"]], XSH)
            want = sess["expect"]
            if len(h) != len(want):
                problem.append("len(h) is %d, the session recorded %d commands since it was opened / cleared" % (
                    len(h), len(want)))
                return
            got = [h.inps[i] for i in range(len(h))]
            if got != want:
                problem.append("h.inps yields %r, recorded %r" % (got[:8], want[:8]))
                return
            disk, d = _disk_inps(sess["path"])
            if disk != want:
                problem.append("the session file holds %r after flush, recorded %r" % (disk[:8], want[:8]))

        exc, texc, _ = _call_guarded(cont)
        if exc or texc or problem:
            return fail("live-continuation", "after the GC live session %s (life %s) cannot go on: %s" % (
                sess["id"], sess["spec"]["life"], problem[0] if problem else "%s %s" % (exc, texc)))
    return None, nontrivial, labels, key


def reduce_live(case, bucket, budget=120):
    runs = [0]

    def fails(c):
        if runs[0] >= budget:
            return False
        runs[0] += 1
        try:
            f = run_live_case(c, tolerate=False)[0]
        except common.HarnessError:
            return False
        return f is not None and f.bucket == bucket

    cur = json.loads(json.dumps(case))
    if not fails(cur):
        return case
    try:
        f = run_live_case(cur, tolerate=False)[0]
        L = json.loads(f.detail.split("resolved=", 1)[1])["L"]
        c2 = dict(cur, limit={"unit": cur["limit"]["unit"], "anchor": ["abs", L]})
        if fails(c2):
            cur = c2
    except Exception:  # noqa: BLE001
        pass
    for seq in ("closed", "real_closed", "live"):
        i = len(cur.get(seq, [])) - 1
        while i >= 0:
            if seq == "live" and len(cur["live"]) == 1:
                break
            c2 = dict(cur, **{seq: cur[seq][:i] + cur[seq][i + 1:]})
            if seq == "live" and c2.get("runner", "fresh") != "fresh":
                c2["runner"] = 0
            if fails(c2):
                cur = c2
            i -= 1
    for k, v in (("route", "size-tuple"), ("runner", "fresh"), ("spell", 0), ("after", 1)):
        if k in cur and cur[k] != v:
            c2 = dict(cur, **{k: v})
            if fails(c2):
                cur = c2
    for seq in ("real_closed", "live"):
        for i in range(len(cur.get(seq, []))):
            life = cur[seq][i]["life"]
            j = len(life) - 1
            while j >= 0:
                life2 = life[:j] + life[j + 1:]
                c2 = dict(cur, **{seq: cur[seq][:i] + [dict(cur[seq][i], life=life2)] + cur[seq][i + 1:]})
                if fails(c2):
                    cur, life = c2, life2
                j -= 1
    return cur


def check_case(case, tolerate=True, stats=None):
    if case.get("backend") == "json-live":
        return run_live_case(case, tolerate, stats)
    if case.get("backend") == "sqlite":
        return run_sqlite_case(case, tolerate, stats)
    return run_json_case(case, tolerate, stats)


# ----------------------------------------------------------------------------------------
# reducing a failing case (no Hypothesis needed: the case is a plain structure)


def reduce_case(case, bucket, budget=250):
    if case.get("backend") == "json-live":
        return reduce_live(case, bucket)
    runs = [0]

    def fails(c):
        if runs[0] >= budget:
            return False
        runs[0] += 1
        try:
            f = check_case(c, tolerate=False)[0]
        except common.HarnessError:
            return False
        return f is not None and f.bucket == bucket

    cur = json.loads(json.dumps(case))
    if not fails(cur):
        return case
    # pin the limit to its number so that removing members does not move it
    try:
        if cur.get("backend") == "sqlite":
            a = cur["limit"]["anchor"]
            if a[0] != "abs":
                c2 = dict(cur, limit={"unit": cur["limit"]["unit"], "anchor": ["abs", len(cur["rows"]) + a[1]]})
                if fails(c2):
                    cur = c2
        else:
            f = check_case(cur, tolerate=False)[0]
            L = json.loads(f.detail.split("resolved=", 1)[1])["L"]
            c2 = dict(cur, limit={"unit": cur["limit"]["unit"], "anchor": ["abs", L]})
            if fails(c2):
                cur = c2
    except Exception:  # noqa: BLE001
        pass
    seqkey = "rows" if cur.get("backend") == "sqlite" else "files"
    changed = True
    while changed:
        changed = False
        for i in range(len(cur[seqkey]) - 1, -1, -1):
            c2 = dict(cur, **{seqkey: cur[seqkey][:i] + cur[seqkey][i + 1:]})
            if fails(c2):
                cur, changed = c2, True
    for k, v in (("route", "size-tuple"), ("own", "unset"), ("file", "default"), ("spell", 0)):
        if k in cur and cur[k] != v:
            c2 = dict(cur, **{k: v})
            if fails(c2):
                cur = c2
    if seqkey == "files":
        for i in range(len(cur["files"])):
            for k, v in (("pad", 0), ("where", "hist"), ("ncmds", 1), ("ncmds", 0), ("noclose", False)):
                m = cur["files"][i]
                if k in m and m[k] != v:
                    if k == "where" and m[k] == "custom":
                        continue
                    c2 = dict(cur, files=cur["files"][:i] + [dict(m, **{k: v})] + cur["files"][i + 1:])
                    if fails(c2):
                        cur = c2
    return cur


def _finish_worker(st):
    """Keep one reduced representative per root-cause bucket."""
    seen = {}
    for f in st.failures:
        seen.setdefault(f.bucket, f)
    out = []
    for b, f in seen.items():
        if f.kind != "hang":
            m = reduce_case(f.case, b)
            g = check_case(m, tolerate=False)[0]
            if g is not None and g.bucket == b:
                f = g
        out.append(f)
    st.failures = out
    return st


# ----------------------------------------------------------------------------------------
# exhaustive small scope

_NAMES = ["q", "d", "x", "b", "m", "a", "z", "k", "f"]   # alphabetical order unrelated to age


def small_scope(tier):
    if tier == "thorough":
        return 4, (0, 1, 2, 3), range(0, 14)
    return 3, (0, 1, 2), range(0, 8)


def exhaustive_collections(tier):
    maxfiles, counts, _ = small_scope(tier)
    states = [(c, lk) for c in counts for lk in ("no", "live", "stale")]
    for k in range(0, maxfiles + 1):
        for combo in itertools.product(states, repeat=k):
            files = []
            for i, (c, lk) in enumerate(combo):
                # file i is the i-th oldest of its class; the oldest unlocked/live file opened (closed) exactly
                # at boot time (ts[0] == boot is still "live"), stale files lie before boot
                age = BOOT_AGE + (k - i) * 1000 if lk == "stale" else BOOT_AGE - i * 1000
                files.append({"id": "e%d" % i, "name": "xonsh-%s%d.json" % (_NAMES[i], i), "where": "hist",
                              "kind": "ok", "lock": lk, "ncmds": c, "pad": 0, "age": age})
            yield files


def _dev_stride():
    """VERIF_C14_STRIDE=k (development only): visit every k-th collection of the small scope and 1/k of the
    generated cases, to smoke-test the thorough tier quickly.  The evidence then does not claim the sub-space."""
    try:
        return max(1, int(os.environ.get("VERIF_C14_STRIDE") or 1))
    except ValueError:
        return 1


def worker_exhaustive(arg):
    shard, nshards, tier, scratch = arg
    _setup(scratch)
    st = Stats()
    _, _, limits = small_scope(tier)
    routes = ("size-tuple", "env-tuple", "cli")
    stride = _dev_stride()
    j = 0
    for i, files in enumerate(exhaustive_collections(tier)):
        if i % nshards != shard or (i // nshards) % stride:
            continue
        for unit in ("commands", "files"):
            for L in limits:
                for force in (False, True):
                    j += 1
                    case = {"backend": "json", "files": files, "limit": {"unit": unit, "anchor": ["abs", L]},
                            "force": force, "route": routes[j % 3], "own": "own-default" if j % 2 else "unset",
                            "spell": j}
                    f, nt, labels, key = check_case(case, True, st)
                    labels = ["exhaustive:" + unit] + labels[1:]
                    st.case(key, nt, labels, sample=case if nt else None, max_per_label=1)
                    if f is not None:
                        st.fail(f)
                        if f.kind == "hang":
                            return _finish_worker(st)
    return _finish_worker(st)


# ----------------------------------------------------------------------------------------
# generated collections (Hypothesis)

_AGE_POOL = sorted({step * k + half for step in (1, 60, 3600, 86400, 2_629_800, 31_557_600)
                    for k in range(1, 41) for half in (0, 0, 0.5) if not (half and step > 3600)})
_KIND_LOCK = ([("ok", "no")] * 14 + [("ok", "live")] * 5 + [("ok", "stale")] * 5 + [("zero", "no")] * 3
              + [("corrupt", "no")] * 2 + [("corrupt", "live")] + [("nots", "no")] * 2)
_NCMDS_PAD = [(c, p) for c in (0, 0, 1, 1, 2, 2, 3, 3, 4, 5, 6, 9, 17, 40) for p in (0, 0, 0, 1, 7, 100, 1000, 5000)]
_WHERE = ["hist"] * 8 + ["data", "data", "custom"]
_CUTS = [0.5, 0.01, 0.03, 0.1, 0.3, 0.7, 0.9, 0.99, 1.0]
_DURS = [10, 0.5, 10, 3600, 86400 * 3]
_CUSTOM_NAMES = ["myhist.json", ".xonsh_history", "xonsh-custom.json"]
_SNAPS = {"s": (0, 0, 0, 60, 3600, 86400), "b": (0, 0, 1024)}


def json_case_strategy(max_files=8):
    """Few, wide draws per case (Hypothesis' cost is per draw); minor attributes of a member are decoded
    from one integer.  Failing cases are reduced by reduce_case(), not by Hypothesis."""
    from hypothesis import strategies as hs

    # strategy objects are built once (building one inside the composite re-validates it on every draw)
    s_n = hs.integers(0, max_files)
    s_ages = {k: hs.lists(hs.integers(0, len(_AGE_POOL) - 1), min_size=k, max_size=k, unique=True)
              for k in range(max_files + 1)}
    s_rot = hs.integers(0, 8)
    s_own = hs.sampled_from(["unset", "own-default", "own-default", "own-custom"])
    s_kl = hs.sampled_from(_KIND_LOCK)
    s_cp = hs.sampled_from(_NCMDS_PAD)
    s_x = hs.integers(0, 2 ** 22 - 1)
    s_unit = hs.sampled_from(UNITS)
    s_akind = hs.sampled_from(["suffix"] * 5 + ["prefix"] * 3 + ["total"] * 2 + ["abs"] * 3)
    s_abs = hs.sampled_from([0, 0, 1, 2, 3, 5, 8, 13, 60, 4096, 10 ** 6, 10 ** 12, -1, -3])
    s_d = {True: hs.sampled_from([0, -1, 1, -0.5, 0.5]), False: hs.sampled_from([0, -1, 1])}
    s_y = hs.integers(0, 2 ** 12 - 1)

    @hs.composite
    def cases(draw):
        n = draw(s_n)
        ages = [_AGE_POOL[i] for i in draw(s_ages[n])]
        rot = draw(s_rot)
        own = draw(s_own)
        files = []
        used_ages = set()
        have_nots = have_custom = False
        for i in range(n):
            a = ages[i]
            kind, lock = draw(s_kl)
            ncmds, pad = draw(s_cp)
            x = draw(s_x)
            if kind == "nots":
                if have_nots:
                    kind = "ok"
                else:
                    have_nots = True
            if lock == "live" and a > BOOT_AGE:
                a = a % BOOT_AGE + 1
            if lock == "stale" and a <= BOOT_AGE:
                a = a + BOOT_AGE
            if x % 4 == 3:          # the boot boundary itself: opened exactly at boot / just before it
                edge = {"live": BOOT_AGE, "stale": BOOT_AGE + 0.5}.get(lock)
                if edge is not None and edge not in used_ages:
                    a = edge
            x //= 4
            while a in used_ages:
                a += 1
                if lock == "live" and a > BOOT_AGE:
                    lock = "no"
            used_ages.add(a)
            m = {"id": "m%d" % i, "name": "xonsh-%s%d.json" % (_NAMES[(i * 5 + rot) % 9], i), "where": "hist",
                 "kind": kind, "lock": lock, "age": a, "ncmds": 0 if kind == "zero" else ncmds, "pad": pad}
            where = _WHERE[x % len(_WHERE)]
            x //= len(_WHERE)
            if kind == "corrupt":
                m["corrupt"] = CORRUPT_KINDS[x % len(CORRUPT_KINDS)]
                x //= len(CORRUPT_KINDS)
                m["cutfrac"] = _CUTS[x % len(_CUTS)]
                x //= len(_CUTS)
            if kind == "ok" and lock == "no":
                m["dur"] = _DURS[x % len(_DURS)]
                x //= len(_DURS)
                m["noclose"] = x % 8 == 7
                x //= 8
            if where == "custom":
                if have_custom or own == "own-custom" or m.get("corrupt") in ("dir", "dangling"):
                    where = "hist"
                else:
                    have_custom = True
                    m["name"] = _CUSTOM_NAMES[x % len(_CUSTOM_NAMES)]
            m["where"] = where
            files.append(m)
        unit = draw(s_unit)
        akind = draw(s_akind)
        if akind == "abs":
            anchor = ["abs", draw(s_abs)]
        elif akind == "total":
            anchor = ["total", 0, draw(s_d[unit == "s"])]
        else:
            anchor = [akind, draw(s_n), draw(s_d[unit == "s"])]
        y = draw(s_y)
        lim = {"unit": unit, "anchor": anchor}
        snaps = _SNAPS.get(unit, (0,))
        snap = snaps[(y >> 7) % len(snaps)]
        if snap:
            lim["snap"] = snap
        return {"backend": "json", "files": files, "limit": lim,
                "force": bool(y & 1), "route": ROUTES[(y >> 1) % len(ROUTES)], "own": own, "spell": y >> 4}

    return cases()


def sqlite_case_strategy():
    from hypothesis import strategies as hs

    @hs.composite
    def cases(draw):
        n = draw(hs.integers(0, 12))
        ages = draw(hs.lists(hs.integers(1, 5000).map(lambda k: k * 0.5), min_size=n, max_size=n, unique=True))
        order = draw(hs.sampled_from(["chronological", "chronological", "shuffled"]))
        if order == "chronological":
            ages = sorted(ages, reverse=True)
        rows = [{"age": a, "sess": draw(hs.sampled_from([0, 0, 0, 1, 2]))} for a in ages]
        unit = draw(hs.sampled_from(["commands"] * 5 + ["files", "s", "b"]))
        if draw(hs.booleans()):
            anchor = ["rows", draw(hs.sampled_from([-3, -2, -1, -1, 0, 1, 2]))]
            if n + anchor[1] < 0:
                anchor = ["rows", -n]
        else:
            anchor = ["abs", draw(hs.sampled_from([-1, 0, 1, 1, 2, 3, 5, 8, 100, 8128]))]
        return {"backend": "sqlite", "rows": rows, "limit": {"unit": unit, "anchor": anchor},
                "route": draw(hs.sampled_from(ROUTES)), "file": draw(hs.sampled_from(["default", "default", "envfile", "filename"])),
                "spell": draw(hs.integers(0, 63))}

    return cases()



_LIVE_BS = [1, 2, 3, 3, 4, 100]


def _life_ops(x, bs, allow_clear):
    """Decode a generated integer into 0-4 life operations placed relative to the buffer size."""
    n = x % 5
    x //= 5
    ops = []
    for _ in range(n):
        k = x % 12
        x //= 12
        if k < 7:
            ops.append(["append", max(1, [1, bs - 1, bs, bs + 1, 2 * bs + 1, 2, bs][k] if bs < 50 else [1, 2, 3, 5, 7, 2, 1][k])])
        elif k < 9:
            ops.append(["flush"])
        elif k < 10:
            ops.append(["flush", "alias"])
        elif allow_clear:
            ops.append(["clear"])
            allow_clear = False
        else:
            ops.append(["flush", "alias"])
    return ops


def live_case_strategy():
    from hypothesis import strategies as hs

    s_nc = hs.integers(0, 4)
    s_nr = hs.integers(0, 2)
    s_nl = hs.integers(1, 3)
    s_ages = hs.lists(hs.integers(0, len(_AGE_POOL) - 1), min_size=9, max_size=9, unique=True)
    s_x = hs.integers(0, 2 ** 30 - 1)
    s_cp = hs.sampled_from(_NCMDS_PAD)
    s_unit = hs.sampled_from(UNITS)
    s_akind = hs.sampled_from(["abs0"] * 4 + ["suffix"] * 3 + ["prefix"] * 2 + ["total"] * 4 + ["abs"] * 2)
    s_abs = hs.sampled_from([0, 1, 2, 3, 5, 8, 13, 60, 4096, 10 ** 6, 10 ** 12, -1])
    s_d = {True: hs.sampled_from([0, 0, -1, 1, -0.5, 0.5]), False: hs.sampled_from([0, 0, -1, 1])}
    s_k = hs.integers(0, 7)

    @hs.composite
    def cases(draw):
        nc, nr, nl = draw(s_nc), draw(s_nr), draw(s_nl)
        ages = [_AGE_POOL[i] for i in draw(s_ages)]
        used = set()

        def age(live):
            a = ages.pop()
            if live and a > BOOT_AGE:
                a = a % BOOT_AGE + 1
            while a in used:
                a += 1
            used.add(a)
            return a

        closed = []
        for i in range(nc):
            ncmds, pad = draw(s_cp)
            closed.append({"id": "w%d" % i, "name": "xonsh-%s%d.json" % (_NAMES[(i * 5) % 9], i), "where": "hist",
                           "kind": "ok", "lock": "no", "age": age(False), "ncmds": ncmds, "pad": pad,
                           "dur": _DURS[(ncmds + pad) % len(_DURS)]})
        x = draw(s_x)
        clear_at = x % 8            # which session (if any) may run `history clear`: most cases none
        x //= 8
        real_closed = []
        for i in range(nr):
            y = draw(s_x)
            bs = _LIVE_BS[y % len(_LIVE_BS)]
            y //= len(_LIVE_BS)
            real_closed.append({"id": "r%d" % i, "age": age(False), "dur": _DURS[y % len(_DURS)], "bs": bs,
                                "life": _life_ops(y // len(_DURS), bs, False),
                                "end_empty": bool(i == 0 and (y >> 20) % 6 == 0)})
        live = []
        for i in range(nl):
            y = draw(s_x)
            bs = _LIVE_BS[y % len(_LIVE_BS)]
            y //= len(_LIVE_BS)
            live.append({"id": "v%d" % i, "age": age(True), "bs": bs, "life": _life_ops(y, bs, clear_at == i + 4)})
        unit = draw(s_unit)
        akind = draw(s_akind)
        if akind == "abs0":
            anchor = ["abs", 0]
        elif akind == "abs":
            anchor = ["abs", draw(s_abs)]
        elif akind == "total":
            anchor = ["total", 0, draw(s_d[unit == "s"])]
        else:
            anchor = [akind, draw(s_k), draw(s_d[unit == "s"])]
        force = bool(x & 1) or akind == "abs0"
        x >>= 1
        route = ("size-tuple", "env-tuple", "cli", "size-tuple")[x % 4]
        x //= 4
        runner = "fresh" if x % 2 else (x // 2) % nl
        x //= 8
        return {"backend": "json-live", "closed": closed, "real_closed": real_closed, "live": live, "runner": runner,
                "limit": {"unit": unit, "anchor": anchor}, "force": force, "route": route, "spell": x % 64,
                "after": 1 + (x // 64) % 3}

    return cases()


def fixed_live_family():
    """A small family laid out deterministically: every point of a live session's life x the collections that would
    take its file first if it were not locked x GC from a fresh / from the live session itself."""
    lives = [("just-opened", []), ("below", [["append", 2]]), ("at", [["append", 3]]), ("over", [["append", 4]]),
             ("twice-over", [["append", 7]]), ("explicit", [["append", 1], ["flush"]]),
             ("explicit-alias", [["append", 2], ["flush", "alias"]]), ("at+explicit", [["append", 4], ["flush"]])]
    gcs = [("files", ["abs", 0], True), ("commands", ["abs", 0], True), ("b", ["abs", 0], True), ("s", ["abs", 0], True),
           ("commands", ["total", 0, 0], False), ("files", ["total", 0, 0], False), ("b", ["total", 0, 0], False),
           ("commands", ["suffix", 1, 0], False)]
    j = 0
    for name, life in lives:
        for unit, anchor, force in gcs:
            for runner in ("fresh", 0):
                for bs in (3, 1):
                    if bs == 1 and name not in ("below", "explicit"):
                        continue
                    j += 1
                    closed = [{"id": "w%d" % i, "name": "xonsh-%s%d.json" % (_NAMES[i], i), "where": "hist", "kind": "ok",
                               "lock": "no", "age": 3000 - 1000 * i, "ncmds": 4, "pad": 0, "dur": 10} for i in range(3)]
                    yield {"backend": "json-live", "closed": closed,
                           "real_closed": [{"id": "r0", "age": 500, "dur": 10, "bs": 3, "life": [["append", 4]]}],
                           "live": [{"id": "v0", "age": 5000, "bs": bs, "life": life},
                                    {"id": "v1", "age": 100, "bs": 100, "life": [["append", 2]]}],
                           "runner": runner, "limit": {"unit": unit, "anchor": anchor}, "force": force,
                           "route": ("size-tuple", "env-tuple", "cli")[j % 3], "spell": j, "after": 1 + j % 2}


def worker_random(arg):
    seed, n, which, scratch = arg
    _setup(scratch)
    st = Stats()
    stop = []

    def body(case):
        if stop:
            return
        f, nt, labels, key = check_case(case, True, st)
        st.case(key, nt, labels, sample=case if nt else None, max_per_label=1)
        if f is not None:
            st.fail(f)
            if f.kind == "hang":
                stop.append(1)

    if which == "live+fixed":
        for case in fixed_live_family():
            body(case)
            st.hist["live-fixed-family"] += 1
    strategy = (sqlite_case_strategy() if which == "sqlite" else live_case_strategy() if which.startswith("live")
                else json_case_strategy())
    common.run_given(strategy, body, seed, n)
    return _finish_worker(st)


# ----------------------------------------------------------------------------------------


def worker_any(task):
    t0 = _real_time.time()
    which, arg = task
    st = worker_exhaustive(arg) if which == "exhaustive" else worker_random(arg)
    st.hist["worker-seconds:" + (which if which == "exhaustive" else arg[2])] += int(_real_time.time() - t0)
    return st


def _replay_case(case):
    return check_case(case, tolerate=False)[0]


def main(run):
    _setup(run.scratch)
    registered = {e.get("id") for e in run.known}

    def replay_case(case):
        fid = case.get("finding")
        if fid and fid not in registered:
            # the replay of a finding that is proposed but not (yet) listed in known_findings.json: its shape is
            # tolerated in the generated families by its narrow predicate; say so instead of judging it
            run.stats.notes.append("replay of %s skipped: the finding is not listed in %s" % (fid, common.KNOWN_FILE))
            return None
        return _replay_case(case)

    common.replay_tier(run, replay_case)
    nw = 8 if run.tier == "quick" else 16          # shards / seeds (fixed, so results do not depend on procs)
    procs = max(1, min(16, int(os.environ.get("VERIF_PROCS") or 16)))
    stride = _dev_stride()
    per = run.n(1600, 40000) // stride
    pers = run.n(200, 5000) // stride
    tasks = [("exhaustive", (i, nw, run.tier, run.scratch)) for i in range(nw)]
    tasks += [("random", (common.worker_seed(run.seed, w), per, "json", run.scratch)) for w in range(nw)]
    tasks += [("random", (common.worker_seed(run.seed, 200 + w), pers, "sqlite", run.scratch)) for w in range(nw)]
    perl = run.n(250, 6000) // stride
    tasks += [("random", (common.worker_seed(run.seed, 400 + w), perl, "live+fixed" if w == 0 else "live", run.scratch))
              for w in range(nw // 2)]
    common.pool_map(run, __name__, "worker_any", tasks, procs=procs)
    mf, counts, limits = small_scope(run.tier)
    if stride == 1:
        run.extra["exhaustive_subspace"] = (
            "every collection of <= %d history files x command counts %s x lock {no, live, stale} x limit %d..%d x "
            "units {commands, files} x force {off, on}, each through JsonHistory.run_gc on a real directory"
            % (mf, list(counts), limits[0], limits[-1]))
    else:
        run.stats.notes.append("VERIF_C14_STRIDE=%d: development run, small scope NOT enumerated completely" % stride)
    h = run.stats.hist
    floors = [("limit-strictly-inside", 0.06), ("has-live", 0.15), ("has-stale", 0.10), ("has-corrupt", 0.02),
              ("zone:must-refuse", 0.03), ("zone:must-run", 0.01), ("zone:forced", 0.05), ("live-would-be-discarded", 0.03)]
    total = max(1, sum(v for k, v in h.items() if k.startswith(("json:", "exhaustive:"))))
    low = [lab for lab, fl in floors if h.get(lab, 0) / total < fl]
    lt = max(1, sum(v for k, v in h.items() if k.startswith("live-gc-from:")))
    lfloors = [("live:flushed-mid-session", 0.4), ("live:flushed-file-would-be-discarded-if-unlocked", 0.15),
               ("live-gc-from:live", 0.2), ("live-gc-from:fresh", 0.2), ("live:just-opened", 0.05),
               ("live:really-closed-sessions", 0.2), ("live-force", 0.2), ("live-unforced", 0.1)]
    low += [lab for lab, fl in lfloors if h.get(lab, 0) / lt < fl]
    if h.get("live-fixed-family", 0) < 100:
        low.append("live-fixed-family")
    if low:
        raise common.HarnessError("generator incomplete: classes below their floor: %s" % low)
    run.extra["live_session_family"] = {
        "cases": lt, "fixed family": h.get("live-fixed-family", 0),
        "with a live session that flushed mid-session": h.get("live:flushed-mid-session", 0),
        "where that file would be among the discarded if it were unlocked": h.get(
            "live:flushed-file-would-be-discarded-if-unlocked", 0)}
    run.assumptions += [
        "the clock is owned by the harness: xonsh.history.json.time / xonsh.history.sqlite.time are replaced by an "
        "object with time() == 1_700_000_000.0 (sleep shortened), uptime.boottime() returns now - 1e6 s",
        "candidate timestamps within one collection are distinct (ties have no defined oldest-first order)",
        "unforced GC: deleting nothing is demanded when removed >= limit and removed > actually kept; the model's "
        "set is demanded when removed < limit and removed <= actually kept; in between both outcomes pass "
        "(two readings of 'keeps')",
        "unit s: the amount removed is the excess age of the oldest candidate over the limit, the amount kept is the "
        "age of the oldest kept file; a file exactly `limit` seconds old may be kept or discarded",
        "unit b: a stale-locked file may be counted with its size before or after it is unlocked (1 byte apart)",
        "negative limits: unforced GC must delete nothing; forced (JSON) only the safety invariants are demanded; "
        "SQLite may keep everything or nothing",
        "live family: the live sessions are JsonHistory objects of the worker process (opened with locked=True, "
        "ts=[opening time >= boot, None], as xonsh.shell.Shell opens them) that really appended / flushed / cleared; "
        "every background flusher is joined before the GC runs (the directory is quiescent); closed sessions are "
        "written files and objects closed with flush(at_exit=True) under a clock set to their closing time; at most one "
        "live session per case runs `history clear` (C14-F4) and at most one closed session ends with an empty buffer "
        "(C14-F5); `history erasedups` / `history delete` from a live session are not generated",
        "corrupt members are unreadable before their 'locked' flag (garbage, truncated in header/index/cmds, plain "
        "JSON, directory, dangling link); files truncated after the flag are not generated",
        "locked files always carry ts; a file without ts (as written by `history clear`) is unlocked and sorts oldest",
        "limits for commands / files / b are integers; spelled limits use only s/min/h/d and b/kb/mb words",
    ]


def replay(run, path):
    with open(path) as f:
        d = json.load(f)
    case = d.get("case", d)
    _setup(run.scratch)
    f = check_case(case, tolerate=False)[0]
    if f is None:
        print("replay: property holds on this case")
        return 0
    print("VIOLATION property=%s replay=%s kind=%s %s" % (PROP, path, f.kind, f.detail))
    return 1

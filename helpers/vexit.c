/* vexit N : exit with status N (default 0) */
#include <stdlib.h>
int main(int argc, char **argv) { return argc > 1 ? atoi(argv[1]) : 0; }

#!/usr/bin/env python3
import glob, json, sys, jsonschema
schema = json.load(open("/root/.vp/EVIDENCE.schema.json"))
bad = 0
for f in sorted(glob.glob("/verif/evidence/*.json")):
    try:
        jsonschema.validate(json.load(open(f)), schema); print("ok ", f)
    except Exception as e:
        bad += 1; print("BAD", f, str(e)[:300])
sys.exit(1 if bad else 0)

"""Token-level and whitespace-level mutations of Python text.  Validity is decided by CPython
afterwards (mutate-and-filter), never assumed."""

from __future__ import annotations

import io
import keyword
import tokenize

POOL = [
    "+", "-", "*", "**", "/", "//", "%", "@", "<<", ">>", "&", "|", "^", "~", "<", ">", "<=", ">=", "==", "!=",
    ",", ":", ";", ".", "=", "+=", "-=", "*=", ">>=", "@=", ":=", "->", "(", ")", "[", "]", "{", "}", "...",
    "not", "and", "or", "if", "else", "for", "in", "is", "lambda", "await", "yield", "async", "None", "True", "False",
    "from", "import", "as", "with", "del", "global", "return", "pass", "match", "case", "type", "_",
    "a", "b", "e", "o", "x", "all", "err", "out", "self", "1", "2", "0x1f", "1.5", "1j", "1_000", "0o7", "1e3",
    "'s'", '"d"', "f'{a}'", "b'x'", "r'\\d'", "''", "f''", "u'u'", "'''t'''",
]

_SKIP = (tokenize.ENDMARKER, tokenize.NEWLINE, tokenize.NL, tokenize.INDENT, tokenize.DEDENT, tokenize.COMMENT)


def tokens(src):
    try:
        return list(tokenize.generate_tokens(io.StringIO(src).readline))
    except (tokenize.TokenError, IndentationError, SyntaxError, ValueError, SystemError):
        # SystemError: CPython 3.12.1's C tokenizer ("Negative size passed to PyUnicode_New") on some texts with a
        # backslash-newline at the very start of a continuation line - treated like any other untokenisable text
        return None


def _offsets(src):
    offs = [0]
    for ln in src.split("\n"):
        offs.append(offs[-1] + len(ln) + 1)
    return offs


def spans(src, toks):
    """[(start, end, tok)] of the significant tokens, as absolute offsets."""
    offs = _offsets(src)
    out = []
    for t in toks:
        if t.type in _SKIP:
            continue
        a = offs[t.start[0] - 1] + t.start[1]
        b = offs[t.end[0] - 1] + t.end[1]
        if b > a:
            out.append((a, b, t))
    return out


def apply_edit(src, sp, op, i, repl):
    """One edit on the span list `sp`.  Returns new source or None."""
    if not sp:
        return None
    i %= len(sp)
    a, b, t = sp[i]
    if op == "delete":
        return src[:a] + src[b:]
    if op == "dup":
        return src[:b] + " " + src[a:b] + src[b:]
    if op == "swap":
        if i + 1 >= len(sp):
            return None
        a2, b2, _ = sp[i + 1]
        return src[:a] + src[a2:b2] + src[b:a2] + src[a:b] + src[b2:]
    if op == "replace":
        return src[:a] + repl + src[b:]
    if op == "insert":
        return src[:a] + repl + " " + src[a:]
    if op == "insert_tight":
        return src[:a] + repl + src[a:]
    if op == "squeeze":          # remove blanks before this token
        j = a
        while j > 0 and src[j - 1] in " \t":
            j -= 1
        if j == a or (j > 0 and src[j - 1] == "\n") or j == 0:
            return None           # indentation is not optional whitespace
        return src[:j] + src[a:]
    if op == "space":
        return src[:a] + "  " + src[a:]
    if op == "linecont":
        if a == 0 or src[a - 1] == "\n":
            return None
        return src[:a] + "\\\n   " + src[a:]
    if op == "paren":
        return src[:a] + "(" + src[a:b] + ")" + src[b:]
    return None


OPS = ["delete", "dup", "swap", "replace", "replace", "insert", "insert_tight", "squeeze", "squeeze", "space",
       "linecont", "paren"]


def sig(toks):
    return [(t.type, t.string) for t in toks if t.type not in (tokenize.NL, tokenize.COMMENT)]


def squeeze_all(src):
    """Remove every blank between two tokens on one line where CPython's tokenizer still yields the
    same token sequence (`a >= b` -> `a>=b`, `x if y else - 1` -> `x if y else-1`)."""
    toks = tokens(src)
    if toks is None:
        return None
    want = sig(toks)
    sp = spans(src, toks)
    cur = src
    # right to left so earlier offsets stay valid
    for k in range(len(sp) - 1, 0, -1):
        a, b, t = sp[k]
        pa, pb, pt = sp[k - 1]
        if pb >= a:
            continue
        gap = cur[pb:a]
        if gap.strip(" \t") != "" or "\n" in gap:
            continue
        if t.type == getattr(tokenize, "FSTRING_MIDDLE", -1) or pt.type == getattr(tokenize, "FSTRING_MIDDLE", -1):
            continue
        cand = cur[:pb] + cur[a:]
        ct = tokens(cand)
        if ct is not None and sig(ct) == want:
            cur = cand
    return cur if cur != src else None


def spread_all(src):
    """Put two blanks between every pair of adjacent tokens on one line (where tokens are unaffected)."""
    toks = tokens(src)
    if toks is None:
        return None
    want = sig(toks)
    sp = spans(src, toks)
    cur = src
    for k in range(len(sp) - 1, 0, -1):
        a, b, t = sp[k]
        pa, pb, pt = sp[k - 1]
        if "\n" in cur[pb:a]:
            continue
        if t.type in (getattr(tokenize, "FSTRING_MIDDLE", -1), getattr(tokenize, "FSTRING_END", -1)) or \
                pt.type in (getattr(tokenize, "FSTRING_MIDDLE", -1), getattr(tokenize, "FSTRING_START", -1)):
            continue
        # inside an f-string replacement field blanks are fine, but `!r` / `:spec` / `=` are position sensitive
        cand = cur[:a] + "  " + cur[a:]
        ct = tokens(cand)
        if ct is not None and sig(ct) == want:
            cur = cand
    return cur if cur != src else None


def break_all(src, every=1, phase=0):
    """Start a continuation line in COLUMN 0 before every `every`-th token of each line: a plain line break where a bracket
    is open, backslash-newline elsewhere (`x = (a\nor b)`, `if a \\\nand b:`) - wherever CPython's tokenizer still yields
    the same token sequence."""
    toks = tokens(src)
    if toks is None:
        return None
    want = sig(toks)
    sp = spans(src, toks)
    cur = src
    depth = []
    d = 0
    for a, b, t in sp:
        depth.append(d)
        if t.type == tokenize.OP and t.string in "([{":
            d += 1
        elif t.type == tokenize.OP and t.string in ")]}":
            d = max(0, d - 1)
    fs = (getattr(tokenize, "FSTRING_MIDDLE", -1), getattr(tokenize, "FSTRING_END", -1), getattr(tokenize, "FSTRING_START", -1))
    in_fs = 0
    fsdepth = []
    for a, b, t in sp:
        fsdepth.append(in_fs)
        if t.type == fs[2]:
            in_fs += 1
        elif t.type == fs[1]:
            in_fs = max(0, in_fs - 1)
    for k in range(len(sp) - 1, 0, -1):
        if (k + phase) % every:
            continue
        a, b, t = sp[k]
        pa, pb, pt = sp[k - 1]
        if "\n" in cur[pb:a] or fsdepth[k] or t.type in fs or pt.type in fs:
            continue
        brk = "\n" if depth[k] > 0 else " \\\n"
        cand = cur[:pb] + brk + cur[a:]
        ct = tokens(cand)
        if ct is not None and sig(ct) == want:
            cur = cand
    return cur if cur != src else None


def is_keyword(s):
    return keyword.iskeyword(s)

"""C18 - tab-completing a path always inserts text that means that path; analysing a command line
for completion never fails.

Part A (path round trip)
Generator : a file name (any characters legal in a POSIX name except `/` and NUL: blanks, both quotes, `$`,
            backslashes incl. trailing, newline, tab, \\r, other control characters, glob and shell
            metacharacters, `!`, leading `~` `-` `#` `.` `=`, keywords, redirect look-alikes, non-ASCII), file or
            directory, optionally inside an awkwardly named sub-directory and/or typed with a leading `./`;
            a typed prefix (first k characters, 0 <= k <= len) written in an opening-quote style (none, ' " r' r"
            \'\'\' \"\"\" p' p" pr'); the closing quote absent, standing after the cursor, or standing before the cursor
            (appending to a closed string); decoy siblings (benign names and near-variants of the name: one
            character more / less, other case, a blank more / less, doubled backslashes ...).  A fixed family of
            ~110 hand-picked awkward names x every style x 6 (quick) / 18 (thorough) typing situations is always
            run.  The typed text is self-checked with ast.literal_eval (it must denote the typed characters).
Oracle    : the entries are created in a scratch cwd; completions are obtained through the real pipeline
            (Completer.complete_line for a cursor at the end, Completer.complete(..., multiline_text, cursor_index)
            otherwise); the candidates that come from the path completer are identified by calling
            complete_path on the same context; every such candidate is spliced into the line the way the
            completer reports (prefix_len / lprefix, as the prompt-toolkit front end does) and the completed
            line is EXECUTED through the real Execer with a recording alias.  Required: the line runs; `rec` is
            called exactly once with exactly one argument; that argument names an existing entry (the candidate
            came from a directory listing); and the text meant for the generated entry does not collapse onto a
            sibling's text (when no candidate delivers the generated entry the case is repeated without the
            siblings: a failure there, or a delivery there, is a violation).  Completeness of the candidate
            list is not demanded.
Part B (analyser)
Generator : arbitrary strings (Hypothesis text and concatenations of shell/xonsh fragments: quotes, string
            prefixes, `$(` `![` `@(` ..., operators, redirects, backslash-newline, comments, keywords,
            non-ASCII) x EVERY cursor position 0..len; thorough tier adds an atheris coverage-guided campaign
            (sub-processes) on CompletionContextParser.parse.
Oracle    : parse returns within 3 CPU-seconds (typical 0.5 ms; re-confirmed with 6); no exception of any type
            escapes; the result is None or a CompletionContext with a command and/or python part; for a
            CommandContext text[:cursor] ends with opening_quote+prefix (+closing_quote when
            is_after_closing_quote) and text[cursor:] starts with suffix - on the text as it stands or with
            backslash-newline continuations (any subset of them) removed on either side; the quote fields have their documented shape
            (opening_quote = prefix letters + quote, closing_quote empty or that quote); 0 <= arg_index <= len(args);
            for a PythonContext multiline_code[:cursor_index] is a suffix of text[:cursor].  One parser object is
            reused like the shell does; a failure is re-confirmed on a second parser instance.
"""

from __future__ import annotations

import ast
import io
import json
import os
import re
import shutil
import sys
import time
from pathlib import PurePosixPath

from vlib import common
from vlib.common import Failure, Stats

PROP = "C18"
LEVEL = "exploration"
RULE = ("A: (file name, file|dir, sub-directory, ./, typed prefix length, opening-quote style, closing quote absent|after|before the "
        "cursor, decoys) -> complete through Completer, splice every path candidate, execute, compare argv with the entries; non-trivial = the name or sub-directory has a "
        "character outside [A-Za-z0-9_.-] or the user opened a quote; distinct = hash of the whole case.  "
        "B: text x every cursor position through CompletionContextParser.parse; non-trivial = the text contains a quote, "
        "bracket, operator, `$`, `@`, `!`, `#` or backslash; distinct = hash of the text (every cursor position of a text is "
        "evaluated and counted in evaluations)")

# ----------------------------------------------------------------------------------------
# quote styles

STYLES = {
    # id: (opening, closing, raw?, pathlike?)
    "none": ("", "", False, False),
    "sq": ("'", "'", False, False),
    "dq": ('"', '"', False, False),
    "rsq": ("r'", "'", True, False),
    "rdq": ('r"', '"', True, False),
    "tsq": ("'''", "'''", False, False),
    "tdq": ('"""', '"""', False, False),
    "psq": ("p'", "'", False, True),
    "pdq": ('p"', '"', False, True),
    "prsq": ("pr'", "'", True, True),
}
STYLE_IDS = list(STYLES)

# characters a user cannot type bare and mean literally (they split the word, start a string, a substitution,
# a comment, a macro ...).  `* ? [ ]` stay allowed: the completer escapes them (glob.escape) on purpose.
UNQUOTED_FORBIDDEN = set(" \t\n\r\x0b\x0c'\"`$;&|<>(){},!#\\")
_PLAIN_RE = re.compile(r"^[A-Za-z0-9_.\-]+$")
_CTRL = {"\n": "\\n", "\t": "\\t", "\r": "\\r", "\x0b": "\\x0b", "\x0c": "\\x0c"}


LINEBREAKS = "\x1c\x1d\x1e\x85\u2028\u2029"      # what str.splitlines() splits at, besides \n \r \v \f


def is_ctrl(ch):
    return ord(ch) < 0x20 or ord(ch) == 0x7F or ch in LINEBREAKS


def encode_typed(chars, style, closed):
    """Source text a user would type for `chars` inside the given quote style (without the closing
    quote), or None when that style cannot express it / it is outside the domain."""
    opening, closing, raw, _p = STYLES[style]
    if style == "none":
        if any(c in UNQUOTED_FORBIDDEN or is_ctrl(c) for c in chars):
            return None
        if chars.startswith("#"):
            return None          # that text is a comment, not a path being completed
        return chars
    q = closing[0]
    if raw:
        if q in chars or any(is_ctrl(c) for c in chars):
            return None
        if chars.endswith("\\") and closed:
            return None
        return opening + chars
    if "$" in chars:
        return None              # `$NAME` inside a non-raw string is an environment lookup, not a literal
    out = []
    for c in chars:
        if c == "\\":
            out.append("\\\\")
        elif c == q:
            out.append("\\" + q)
        elif c in _CTRL:
            if c == "\n" and len(closing) == 3:
                out.append("\n")             # a literal newline is legal inside a triple-quoted string
            elif c == "\t":
                out.append("\t")             # and a literal tab in every string
            else:
                out.append(_CTRL[c])
        elif is_ctrl(c):
            out.append("\\x%02x" % ord(c) if ord(c) < 256 else "\\u%04x" % ord(c))
        else:
            out.append(c)
    return opening + "".join(out)


def typed_selfcheck(typed, style, chars):
    """CPython must read the typed text (+ closing quote) back as `chars`."""
    opening, closing, _raw, _p = STYLES[style]
    if style == "none":
        return True
    _o, _c, raw, _p = STYLES[style]
    if raw and (len(chars) - len(chars.rstrip("\\"))) % 2 == 1:
        # an unclosed raw string may end in a backslash; it cannot be closed as it stands
        typed, chars = typed[:-1], chars[:-1]
    src = typed + closing
    if src.startswith("p"):
        src = src[1:]
    try:
        return ast.literal_eval(src) == chars
    except Exception:  # noqa: BLE001
        return False


# ----------------------------------------------------------------------------------------
# Part A: known findings (narrow predicates) and shapes excluded from generation while they are open

def _has_ctrl_completer(s):
    # the characters the completer switches to a non-raw string for (path._CONTROL_CHAR_ESCAPE): \n \t \r \f \v and,
    # since the repair of C18-F18, the other line boundaries of str.splitlines()
    return any(c in s for c in "\n\t\r\x0c\x0b" + LINEBREAKS)


def _quote_in_use(style, relpath):
    """The quote character the completion will be written with (the user's, else the completer's choice)."""
    if style != "none":
        return STYLES[style][1][0]
    return '"' if ("'" in relpath and '"' not in relpath) else "'"


def _lexmsg_shape(text):
    """A non-ASCII \\w character that cannot start an identifier (digit-like) occurs (conservative: anywhere)."""
    return any(ord(c) > 127 and not c.isidentifier() and re.match(r"\w", c) for c in text)


_PYLINE_RE = re.compile(r"^(?:[-+%^@]?=|:)(?!=).")


def _tilde_eq_shape(relpath):
    """xonsh (like bash) expands a tilde-prefix at the start of a word that contains `=` and after the first `=`
    and every following `:`."""
    pre, eq, post = relpath.partition("=")
    if not eq:
        return False
    return os.path.expanduser(pre) != pre or any(os.path.expanduser(x) != x for x in post.split(":"))


def shape_of(name, isdir, relpath, style="none"):
    """Which recorded-finding shapes a directory entry has when completed in the given quote style; relpath is
    the path as the completer sees it."""
    out = set()
    if name.endswith("\\") and not _has_ctrl_completer(relpath) and (not isdir or "$" in relpath or relpath.startswith("~")):
        out.add("C18-F1")        # (a directory whose path holds `$`/`~` may be taken for a file: isdir(expand_path(..)))
    if "!" in name and style == "none":
        out.add("C18-F2")
    user_raw = STYLES[style][2]
    if (user_raw or (("\\" in relpath or "$" in relpath) and not _has_ctrl_completer(relpath))) \
            and _quote_in_use(style, relpath) in relpath:
        out.add("C18-F3")
    if user_raw and _has_ctrl_completer(relpath):
        out.add("C18-F12")
    if style in ("tsq", "tdq") and not isdir and relpath.endswith(STYLES[style][1][0]):
        out.add("C18-F13")
    if name.endswith(" "):
        out.add("C18-F4")
    if style == "none" and _lexmsg_shape(relpath):
        out.add("C18-F6")
    cand_is_raw = user_raw or (("\\" in relpath or "$" in relpath) and not _has_ctrl_completer(relpath))
    if "$" in relpath and _has_ctrl_completer(relpath) and not user_raw:
        out.add("C18-F15")
    if style == "none" and _PYLINE_RE.match(relpath):
        out.add("C18-F16")
    if not cand_is_raw and _tilde_eq_shape(relpath):
        out.add("C18-F17")
    if any(c in relpath for c in LINEBREAKS):
        out.add("C18-F18")
    return out


_SPLIT_RE = re.compile(r"[;|]|&&|\band\b|\bor\b|[$!@][(\[]|@[$!]\(")


def case_shapes(case):
    """Recorded-finding shapes of a whole Part A case (entry shapes of the target and of every decoy, plus the
    shapes that depend on what the user typed)."""
    dirpart = ("./" if case.get("dot") else "") + (case["subdir"] + "/" if case.get("subdir") else "")
    out = shape_of(case["name"], case["isdir"], dirpart + case["name"], case["style"])
    for d, isd in case.get("decoys", []):
        out |= shape_of(d, isd, dirpart + d, case["style"])
    if case.get("subdir"):
        out |= {f for f in shape_of(case["subdir"], True, case["subdir"], case["style"]) if f in ("C18-F4",)}
    if case["style"] in ("tsq", "tdq") and case.get("closed") and not case.get("after"):
        out.add("C18-F10")
    chars = dirpart + case["name"][:case["k"]]
    if not case.get("after") and case["style"] in ("sq", "dq", "tsq", "tdq", "psq", "pdq") and (
            chars == "" or (len(STYLES[case["style"]][1]) == 1 and chars.endswith(STYLES[case["style"]][1]))):
        out.add("C18-F11")
    if case["style"] != "none" and not case.get("closed") and _SPLIT_RE.search(chars):
        out.add("C18-F20")
    if case["style"] != "none" and not case.get("closed") and _lexmsg_shape(chars):
        out.add("C18-F6")        # the content of a still-open quote is tokenised word by word
    if case.get("closed") and not case.get("after") and not dirpart and case["name"][:case["k"]] in (".", ".."):
        out.add("C18-F14")
    if case.get("closed") and not case.get("after") and not case.get("subdir") and not STYLES[case["style"]][2] and (
            case["name"] == "~" or any(d[0] == "~" for d in case.get("decoys", []))):
        out.add("C18-F14")
    return out


# ----------------------------------------------------------------------------------------
# session

_state = {}


def _setup(scratch):
    if _state:
        return _state
    from vlib import session

    os.makedirs(scratch, exist_ok=True)
    # PATH holds only the helper dir: the bash / man completion bridges are then not registered and no
    # external command can be started by a wrongly completed line
    XSH = session.load_session(scratch, path=[session.HELPER_DIR])
    cwd = os.path.join(scratch, "c18cwd")
    shutil.rmtree(cwd, ignore_errors=True)
    os.makedirs(cwd)
    os.chdir(cwd)
    XSH.env["PWD"] = cwd
    os.environ["HOME"] = XSH.env["HOME"]
    rec = session.Recorder()
    XSH.aliases["rec"] = rec.make("rec")
    from xonsh.completer import Completer
    from xonsh.completers.path import complete_path

    names = list(XSH.completers)
    if "path" not in names or "bash" in names:
        raise common.HarnessError("unexpected completer set %r" % (names,))
    _state.update(XSH=XSH, rec=rec, cwd=cwd, session=session, completer=Completer(), complete_path=complete_path,
                  open={e["id"] for e in common.load_known(PROP) if e.get("status") == "open"})
    return _state


def _wipe(cwd):
    for ent in os.scandir(cwd):
        if ent.is_dir(follow_symlinks=False):
            shutil.rmtree(ent.path)
        else:
            os.unlink(ent.path)


def _make(base, name, isdir):
    p = os.path.join(base, name)
    if isdir:
        os.mkdir(p)
    else:
        with open(p, "w"):
            pass


def build_line(case):
    """-> dict(line, cursor, rel, typed_chars, expected(set of accepted argv items)) or None (outside the domain)."""
    name, style, closed = case["name"], case["style"], bool(case.get("closed"))
    subdir, dot, opt = case.get("subdir") or "", bool(case.get("dot")), case.get("opt") or ""
    k = min(case["k"], len(name))
    dirpart = ("./" if dot else "") + (subdir + "/" if subdir else "")
    rel = dirpart + name
    chars = dirpart + name[:k]
    opening, closing, raw, pathlike = STYLES[style]
    if opt and style != "none":
        return None
    if closed and style == "none":
        return None
    if not raw and (chars.startswith("~") and "/" in chars):
        return None          # `~/x` in a non-raw word is the home directory, not a directory named ~
    if pathlike and (rel.startswith("~") or "$" in rel):
        return None          # a p-string always expands ~ and $NAME (even pr'..'): it cannot name such an entry
    typed = encode_typed(chars, style, closed)
    if typed is None:
        return None
    if not typed_selfcheck(typed, style, chars):
        raise common.HarnessError("typed text %r (style %s) does not denote %r" % (typed, style, chars))
    head = "rec " + opt + typed
    line = head + (closing if closed else "")
    after = bool(case.get("after")) and closed          # cursor behind the closing quote: appending to a closed string
    if pathlike:
        # pathlib's spelling when the candidate stays a p-string; the plain spelling when the completer replaces it
        want = {str(PurePosixPath(rel)), rel} | ({rel + "/"} if case["isdir"] else set())
    elif case["isdir"]:
        want = {opt + rel, opt + rel + "/"}
    else:
        want = {opt + rel}
    return {"line": line, "cursor": len(line) if after else len(head), "rel": rel, "chars": chars, "want": want, "dirpart": dirpart}


def _complete(line, cursor):
    """Candidates of the real pipeline as [(text, prefix_len)], the path completer's own answer as a set of
    texts.  Exceptions are returned as ('exc', text)."""
    st = _state
    comp = st["completer"]
    if comp.parse(line, cursor) is None:
        return [], set()                 # no context: nothing is completed (complete_line would raise by design)
    if cursor == len(line) and "\n" not in line:
        comps, lp = comp.complete_line(line)
    else:
        cur_line_start = line.rfind("\n", 0, cursor) + 1
        cur_line_end = line.find("\n", cursor)
        cur_line = line[cur_line_start: cur_line_end if cur_line_end >= 0 else len(line)]
        endidx = cursor - cur_line_start
        sp = cur_line[:endidx].rfind(" ")
        begidx = sp + 1 if sp >= 0 else 0
        comps, lp = comp.complete(cur_line[begidx:endidx], cur_line, begidx, endidx, {},
                                  multiline_text=line, cursor_index=cursor)
    pipeline = []
    for c in comps:
        pl = getattr(c, "prefix_len", None)
        pipeline.append((str(c), lp if pl is None else pl))
    ctx = comp.parse(line, cursor)
    direct = set()
    if ctx is not None:
        out = st["complete_path"](ctx)
        res = out[0] if isinstance(out, tuple) else out
        direct = {str(c) for c in (res or ())}
    return pipeline, direct


def _execute(src):
    st = _state
    rec = st["rec"]
    rec.calls.clear()
    st["XSH"].ctx.clear()
    old = sys.stderr
    sys.stderr = io.StringIO()
    try:
        try:
            st["session"].xexec(src + "\n")
        except KeyboardInterrupt:
            raise
        except BaseException as e:  # noqa: BLE001
            return ("%s" % type(e).__name__, str(e)[:160])
    finally:
        sys.stderr = old
    return [list(c[1]) for c in rec.calls]


def _classify_a(case, info, cand, got, kind):
    """Narrow predicates of the recorded Part A findings, evaluated on the failing case + failing candidate.

    C18-F1  file whose name ends in a backslash, raw-quoted by the completer: delivered with one backslash too many
            (odd count) or the completed line is a SyntaxError (even count)
    C18-F2  name containing `!` inserted bare (no quote in the candidate): the word is split at the `!`
    C18-F3  candidate is a raw string whose quote character occurs in the name: the escaping backslash is delivered
    C18-F4  name ending in a blank: the completer strips trailing blanks, the candidate names a different path
    C18-F6  (lexer) bare candidate whose word starts with a non-ASCII digit-like character: the lexer's error
            message is delivered
    C18-F10 closing TRIPLE quote already after the cursor: not noticed, a second closing quote (+ blank) is inserted
    C18-F11 the text typed after a non-raw opening quote is empty or ends in an (escaped) quote character: not
            recognised as a partial string, the quote itself is taken for the path prefix
    C18-F12 raw quote opened by the user, name with newline/tab/CR/FF/VT: the escape is written into the raw string
    C18-F13 triple quote opened by the user, file name ending in that quote character: four quotes in a row
    C18-F14 `./` `../` (and the r'~' candidate for an entry named ~) ignore the opened quote: with the closing quote
            after the cursor a stray quote is left
    C18-F15 name with `$NAME` of a defined variable and a character the completer escapes (newline/tab/CR/FF/VT and, since
            the repair of C18-F18, \\x1c \\x1d \\x1e \\x85 \\u2028 \\u2029): written as a non-raw string, expanded
    C18-F16 bare candidate starting with `=` `-=` `+=` `%=` `^=` `@=` `:`: the completed line is a Python statement
    C18-F17 name with `=` and a tilde-prefix at the start / after `=` / after `:` written bare or non-raw: expanded
    C18-F20 still-open quote whose typed content holds a command separator or sub-expression opener: the analyser
            splits the line there, only the tail is replaced (prefix_len stops short of the opening quote)
    C18-F18 name with \\x1c \\x1d \\x1e \\x85 \\u2028 \\u2029 (line boundaries for str.splitlines): written literally
    """
    name = case["name"]
    shapes = case_shapes(case)
    if "C18-F11" in shapes and kind in ("line-error", "target-lost", "argv-shape", "names-nothing"):
        return "C18-F11"
    entries = [(case["name"], case["isdir"])] + [(d[0], d[1]) for d in case.get("decoys", [])]
    text = cand[0] if cand else ""
    stripped = text.rstrip(" ")
    m = re.match(r"^(?:--o=)?([pP]?[rR][pP]?|[pP])?('''|\"\"\"|'|\")", stripped)
    cand_raw = bool(m and m.group(1) and "r" in m.group(1).lower())
    cand_q = m.group(2)[0] if m else ""
    for nm, isd in entries:
        relp = info["dirpart"] + nm
        if nm.endswith("\\") and cand_raw and "C18-F1" in shape_of(nm, isd, relp, case["style"]):
            nbs = len(nm) - len(nm.rstrip("\\"))
            if isinstance(got, tuple) and got[0] == "SyntaxError" and nbs % 2 == 0:
                return "C18-F1"
            if isinstance(got, list) and len(got) == 1 and len(got[0]) == 1 and got[0][0].endswith(relp + "\\"):
                return "C18-F1"
        if "!" in nm and not cand_q and "!" in text and kind in ("argv-shape", "names-nothing", "line-error"):
            return "C18-F2"
        if cand_raw and cand_q and cand_q in relp and isinstance(got, list) and len(got) == 1 and len(got[0]) == 1 \
                and got[0][0].replace("\\" + cand_q, cand_q) in (relp, relp + "/"):
            return "C18-F3"
        if nm.endswith(" ") and isinstance(got, list) and len(got) == 1 and len(got[0]) == 1:
            g = got[0][0]
            s = relp.rstrip(" ")
            if g in (s, s + "/", os.path.normpath(s or "."), case.get("opt", "") + s) or \
                    (case["style"] in ("psq", "pdq", "prsq") and g == str(PurePosixPath(s or "."))):
                return "C18-F4"
    if kind == "target-lost":
        # the candidate for the target collapsed onto / was replaced by another entry's text
        if name.endswith(" "):
            return "C18-F4"
    if "C18-F10" in shapes and kind in ("line-error", "argv-shape", "names-nothing") and cand_q and \
            stripped.endswith(cand_q * 3) and len(stripped) >= 6:
        return "C18-F10"
    if "C18-F6" in shapes and not cand_q and isinstance(got, list) and any(_LEXMSG in a for call in got for a in call):
        return "C18-F6"
    if "C18-F6" in shapes and case["style"] != "none" and not case.get("closed") and cand and cand[1] < info["cursor"] - 4 \
            and kind in ("line-error", "argv-shape", "names-nothing"):
        return "C18-F6"
    if "C18-F12" in shapes and cand_raw and kind in ("names-nothing", "target-lost", "ambiguous") and re.search(r"\\[ntrfvxu]", text):
        return "C18-F12"
    if "C18-F13" in shapes and kind in ("line-error", "argv-shape", "names-nothing") and cand_q and \
            re.search(re.escape(cand_q) + "{4,} ?$", text):
        return "C18-F13"
    if "C18-F14" in shapes and kind == "line-error" and text in ("./", "../", "r'~'", "r'~/'"):
        return "C18-F14"
    if "C18-F18" in shapes and kind == "line-error" and any(c in text for c in LINEBREAKS):
        return "C18-F18"
    if "C18-F20" in shapes and cand and cand[1] < info["cursor"] - 4 and kind in ("line-error", "argv-shape", "names-nothing"):
        return "C18-F20"
    if "C18-F15" in shapes and not cand_raw and cand_q and "$" in text and kind in ("names-nothing", "target-lost", "ambiguous"):
        return "C18-F15"
    if "C18-F16" in shapes and not cand_q and kind == "line-error" and _PYLINE_RE.match(text) and \
            isinstance(got, tuple) and got[0] in ("NameError", "SyntaxError"):
        return "C18-F16"
    if "C18-F17" in shapes and not cand_raw and "~" in text and kind in ("names-nothing", "target-lost", "ambiguous", "path-form-differs"):
        return "C18-F17"
    return None


def check_case_a(case):
    """-> (Failure|None, nontrivial, labels)"""
    st = _state
    cwd = st["cwd"]
    info = build_line(case)
    if info is None:
        return None, False, ["A:outside-domain"]
    if os.getcwd() != cwd:
        os.chdir(cwd)
    st["XSH"].env["PWD"] = cwd
    _wipe(cwd)
    base = cwd
    if case.get("subdir"):
        os.mkdir(os.path.join(cwd, case["subdir"]))
        base = os.path.join(cwd, case["subdir"])
        _make(cwd, "decoy", False)
    _make(base, case["name"], case["isdir"])
    for dn, disdir in case.get("decoys", []):
        if not os.path.lexists(os.path.join(base, dn)):
            _make(base, dn, disdir)
    line, cursor = info["line"], info["cursor"]
    nontrivial = (not _PLAIN_RE.match(case["name"])) or bool(case.get("subdir") and not _PLAIN_RE.match(case["subdir"])) \
        or case["style"] != "none"
    labels = ["A:style:" + case["style"], "A", "A:dir" if case["isdir"] else "A:file"]
    if case.get("closed"):
        labels.append("A:cursor-after-closing-quote" if case.get("after") else "A:closing-quote-after-cursor")
    if case.get("subdir"):
        labels.append("A:in-subdir")
    if case.get("dot"):
        labels.append("A:dot-slash")
    if case.get("opt"):
        labels.append("A:option-value")
    labels.append("A:k=0" if case["k"] == 0 else "A:k=full" if case["k"] >= len(case["name"]) else "A:k=partial")
    for cls, pred in _NAME_CLASSES:
        if pred(case["name"]):
            labels.append("A:name:" + cls)

    def fail(kind, detail, cand=None, got=None):
        fid = _classify_a(case, info, cand, got, kind)
        return Failure(kind, case, detail, finding=fid, bucket=fid or (kind + ":" + _style_class(case["style"]))), \
            nontrivial, labels

    err = io.StringIO()
    old = sys.stderr
    sys.stderr = err
    try:
        try:
            pipeline, direct = _complete(line, cursor)
        except (KeyboardInterrupt, SystemExit):
            raise
        except BaseException as e:  # noqa: BLE001
            sys.stderr = old
            return fail("completer-exception", "completing %r at %d raised %s: %s" % (line, cursor, type(e).__name__, str(e)[:200]))
    finally:
        sys.stderr = old
    if "raises exception" in err.getvalue():
        return fail("completer-exception", "a completer raised while completing %r at %d: %s" % (line, cursor, err.getvalue()[-300:]))
    cands = [(t, pl) for t, pl in pipeline if t in direct]
    if not cands:
        labels.append("A:masked-by-other-completer" if direct else "A:not-offered")
        return None, nontrivial, labels
    labels.append("A:offered")
    seen = {}
    hit = False
    for text, pl in cands[:10]:
        if pl > cursor:
            return fail("bad-prefix-len", "candidate %r has prefix_len %d > cursor %d in %r" % (text, pl, cursor, line), (text, pl))
        new = line[:cursor - pl] + text + line[cursor:]
        got = _execute(new)
        if isinstance(got, tuple):
            return fail("line-error", "completed line %r (candidate %r, prefix_len %d) does not run: %s: %s"
                        % (new, text, pl, got[0], got[1]), (text, pl), got)
        if len(got) != 1 or len(got[0]) != 1:
            return fail("argv-shape", "completed line %r (candidate %r, prefix_len %d) ran rec with %r, expected exactly one call "
                        "with one argument" % (new, text, pl, got), (text, pl), got)
        arg = got[0][0]
        probe = arg[len(case["opt"]):] if case.get("opt") and arg.startswith(case["opt"]) else arg
        try:
            exists = os.path.lexists(probe)
        except ValueError:
            exists = False
        if not exists:
            return fail("names-nothing", "completed line %r (candidate %r, prefix_len %d) delivers %r which names no existing entry "
                        "(entries: %r)" % (new, text, pl, arg, sorted(os.listdir(base))), (text, pl), got)
        key = os.path.normpath(probe)
        if key in seen:
            labels.append("A:two-candidates-for-one-entry")       # not forbidden (e.g. "./~" and r'~')
        seen[key] = text
        if arg in info["want"]:
            hit = True
        elif key == os.path.normpath(info["rel"]):
            hit = True                                  # same entry, other spelling (r'~' for a typed ./~)
            labels.append("A:delivered-in-other-spelling")
    if hit:
        labels.append("A:target-delivered")
    elif case["name"].startswith(".") and min(case["k"], len(case["name"])) == 0:
        labels.append("A:target-not-listed(dot-file)")       # $DOTGLOB: not listed for an empty name prefix
    elif len(cands) <= 10:
        # The candidate list need not be complete (a typed `r'$HOME` lists the home directory, not a file named $HOME).
        # What must not happen: the text meant for the generated entry collapses onto a sibling's text.  Decide by
        # completing once more with the siblings removed.
        if case.get("decoys"):
            f2, _nt, lab2 = check_case_a(dict(case, decoys=[]))
            if f2 is not None:
                return f2, nontrivial, labels
            if "A:target-delivered" in lab2:
                return fail("target-lost", "line %r cursor %d: with the siblings %r present the path candidates %r name %r and none "
                            "delivers the generated entry %r; without the siblings it is delivered"
                            % (line, cursor, case["decoys"], [c[0] for c in cands], sorted(seen), info["rel"]), None, None)
        labels.append("A:target-not-offered")
    return None, nontrivial, labels


def _style_class(style):
    return {"none": "bare", "rsq": "raw", "rdq": "raw", "prsq": "raw", "tsq": "triple", "tdq": "triple"}.get(style, "quoted")


_NAME_CLASSES = [
    ("blank", lambda n: " " in n),
    ("single-quote", lambda n: "'" in n),
    ("double-quote", lambda n: '"' in n),
    ("dollar", lambda n: "$" in n),
    ("backslash", lambda n: "\\" in n),
    ("trailing-backslash", lambda n: n.endswith("\\")),
    ("newline", lambda n: "\n" in n),
    ("tab-cr", lambda n: "\t" in n or "\r" in n),
    ("other-control", lambda n: any(is_ctrl(c) and c not in "\n\t\r" for c in n)),
    ("glob", lambda n: any(c in n for c in "*?[]")),
    ("shell-meta", lambda n: any(c in n for c in ";&|<>(){}`,")),
    ("bang", lambda n: "!" in n),
    ("lead-tilde", lambda n: n.startswith("~")),
    ("lead-dash", lambda n: n.startswith("-")),
    ("lead-hash", lambda n: n.startswith("#")),
    ("lead-dot", lambda n: n.startswith(".")),
    ("keyword", lambda n: n in KEYWORDS),
    ("non-ascii", lambda n: any(ord(c) > 127 for c in n)),
    ("at", lambda n: "@" in n),
    ("equals", lambda n: "=" in n),
]

KEYWORDS = ["and", "or", "not", "in", "is", "if", "else", "for", "None", "True", "lambda", "import", "del", "as", "with"]

FIXED_NAMES = [
    "plain", "a b", " lead", "a  b", "a'b", 'a"b', "'", '"', "''", "'a'", '"a"', "a'b\"x", "$", "$HOME", "${HOME}", "a$b", "$(a)", "@(a)", "@$(a)",
    "a\\b", "\\a", "a\\\\b", "a\\'b", "a\nb", "\n", "a\tb", "a\rb", "a\x0bb", "a\x01b", "a\x7fb", "a\\nb", "a\nb\\", "x*y", "*", "?", "[a]", "a[",
    "{a}", "{a,b}", "a;b", "a&b", "a&&b", "a|b", "a<b", "a>b", "e>o", "2>", "(a)", "a)", "`a`", "a,b", "#hash", "a#b", "~", "~x", "~~", "a~",
    "-", "-n", "--x=y", ".hid", "...", "a=b", "=", "a:b", "%a%", "^a", "+", "@", "a@b", "é", "中 文", "\xa0", "\u0663", "\xb2x", "a\u200bb", "sp ", " ", "trail\\", "tr\\\\", "a!b", "!a", "a!", "q'\"$", "a'$", 'a"\\b', "a'", 'a"',
    "and", "or", "not", "in", "None", "lambda", "import", "r'a'", "p'a'", "f'{a}'", "b'a'", "r", "p", "''' '''", "1", "2>&1", "&", "|", ";", "<", ">",
]


def _variants(name):
    out = [name + "x", "x" + name, name.swapcase(), name + " ", name.rstrip(" "), name.replace("\\", "\\\\"),
           name + "\\", name.replace("!", ""), name[:-1], name.replace("'", '"'), name.replace(" ", "  "),
           name.replace("\n", " "), name.replace("$", ""), name.upper()]
    return out


def pick_decoys(name, choices):
    """choices: list of (index, isdir) drawn by the generator; returns [[decoy, isdir], ...]"""
    pool = ["decoy", "zz top"] + _variants(name)
    out, seen = [], {name}
    for idx, isd in choices:
        d = pool[idx % len(pool)]
        if not d or d in seen or d in (".", "..") or "/" in d or "\x00" in d or len(d.encode("utf-8", "surrogatepass")) > 200:
            continue
        seen.add(d)
        out.append([d, bool(isd)])
    return out


_NONIDENT_RE = re.compile(r"[^\x00-\x7f]")


def repair_known(case, open_ids, stats=None, flip=False):
    """Recorded findings: while a finding is open its shape is not generated.  The drawn case is rewritten into
    the nearest case without the shape (counted once per finding in stats.excluded_known); None = give up."""
    counted = set()
    for _ in range(5):
        shp = case_shapes(case) & open_ids
        if not shp:
            return case
        if stats is not None:
            for fid in shp - counted:
                stats.excluded_known[fid] += 1
        counted |= shp
        case = dict(case)
        dirpart = ("./" if case["dot"] else "") + (case["subdir"] + "/" if case["subdir"] else "")
        case["decoys"] = [d for d in case["decoys"] if not (shape_of(d[0], d[1], dirpart + d[0], case["style"]) & open_ids)]
        name, subdir = case["name"], case["subdir"]
        if "C18-F1" in shp:
            name = name.rstrip("\\") + "b"
        if "C18-F2" in shp:
            name = name.replace("!", "i")
        if "C18-F4" in shp:
            name = name.rstrip(" ") + "_"
            subdir = (subdir.rstrip(" ") + "_") if subdir.endswith(" ") else subdir
        if "C18-F6" in shp:
            fix = lambda t: "".join("n" if (ord(c) > 127 and re.match(r"\w", c) and not c.isidentifier()) else c for c in t)  # noqa: E731
            name, subdir = fix(name), fix(subdir)
        if "C18-F3" in shape_of(name, case["isdir"], dirpart + name, case["style"]) & open_ids:
            if flip:
                name, subdir = name.replace("\\", "b").replace("$", "S"), subdir.replace("\\", "b").replace("$", "S")
            else:
                q = _quote_in_use(case["style"], dirpart + name)
                name, subdir = name.replace(q, "q"), subdir.replace(q, "q")
                if case["style"] == "none":
                    name, subdir = name.replace("'", "q"), subdir.replace("'", "q")
        if "C18-F12" in shp:
            fixc = lambda t: "".join("c" if c in "\n\t\r\x0c\x0b" else c for c in t)  # noqa: E731
            name, subdir = fixc(name), fixc(subdir)
        if "C18-F13" in shp:
            name = name + "e"
        if "C18-F15" in shp:
            name, subdir = name.replace("$", "S"), subdir.replace("$", "S")
        if "C18-F16" in shp:
            name = "e" + name
        if "C18-F18" in shp:
            fixl = lambda t: "".join("l" if c in LINEBREAKS else c for c in t)  # noqa: E731
            name, subdir = fixl(name), fixl(subdir)
        if "C18-F17" in shp:
            name, subdir = name.replace("~", "t"), subdir.replace("~", "t")
        if "C18-F10" in shp or "C18-F14" in shp:
            case["closed"] = False
        if "C18-F20" in shp:
            m20 = _SPLIT_RE.search(dirpart + name[:case["k"]])
            if m20 is not None and m20.start() >= len(dirpart):
                case["k"] = m20.start() - len(dirpart)
            else:
                subdir = "s d"
        if "C18-F11" in shp:
            q11 = STYLES[case["style"]][1][0]
            name = name.replace(q11, "q")
            case["k"] = max(1, case["k"])
        case["name"], case["subdir"] = name, subdir
        case["k"] = min(case["k"], len(name))
    return None


def case_strategy_a(open_ids, stats=None):
    from hypothesis import strategies as hs

    awkward = list(" \t\n\r'\"$\\*?[]{}()<>|&;`!#~-=,.@:%^+") + ["\x0b", "\x0c", "\x01", "\x7f"]
    safe = list("abxyzAB012_")
    nonascii = ["\xe9", "\xdf", "\u4e2d", "\U0001f600", "\u200b", "\xa0", "\u0301", "\u0663", "\xb2"]
    ch = hs.one_of(hs.sampled_from(awkward), hs.sampled_from(awkward), hs.sampled_from(safe), hs.sampled_from(safe),
                   hs.sampled_from(nonascii), hs.characters(codec="utf-8", exclude_characters="/\x00"))
    words = hs.sampled_from(KEYWORDS + ["$HOME", "~", "e>o", "2>", "&&", "||", "--x=", "r'", "p'", "'''", "$(", "@(", "\\\\", "\\"])
    piece = hs.one_of(ch, ch, ch, ch, ch, words)
    name_s = hs.one_of(
        hs.lists(piece, min_size=1, max_size=6).map("".join),
        hs.lists(piece, min_size=1, max_size=6).map("".join),
        hs.lists(piece, min_size=1, max_size=30).map("".join),
        hs.sampled_from(FIXED_NAMES),
    )
    subdir_s = hs.one_of(hs.sampled_from(["sub", "s d", "it's", 'q"d', "$d", "b\\s", "d;x", "d!", "n\nl", "[g]", "-d", "#d", "é d", "and"]),
                         hs.lists(piece, min_size=1, max_size=4).map("".join))

    def legal(n):
        return (n not in (".", "..") and "/" not in n and "\x00" not in n and 0 < len(n) <= 40
                and len(n.encode("utf-8")) <= 200)

    @hs.composite
    def cases(draw):
        name = draw(name_s)
        if not legal(name):
            name = "n" + "".join(c for c in name if c not in "/\x00")[:30]
        isdir = draw(hs.sampled_from([False, False, True]))
        subdir = ""
        if draw(hs.integers(0, 4)) == 0:
            subdir = draw(subdir_s)
            if not legal(subdir) or subdir.startswith("~"):
                subdir = "s " + "".join(c for c in subdir if c not in "/\x00~")[:20]
        dot = draw(hs.integers(0, 7)) == 0
        style = draw(hs.sampled_from(STYLE_IDS + ["none", "none", "sq", "dq"]))
        closed = style != "none" and draw(hs.integers(0, 2)) == 0
        k = draw(hs.one_of(hs.sampled_from([0, 0, 1, 2, len(name), len(name)]), hs.integers(0, len(name))))
        k = min(k, len(name))
        choices = draw(hs.lists(hs.tuples(hs.integers(0, 15), hs.booleans()), max_size=3))
        flip = draw(hs.booleans())
        after = closed and draw(hs.integers(0, 2)) == 0
        case = {"part": "A", "name": name, "isdir": isdir, "subdir": subdir, "dot": dot, "opt": "", "style": style,
                "closed": closed, "after": after, "k": k, "decoys": pick_decoys(name, choices)}
        return repair_known(case, open_ids, stats, flip)

    return cases()


def key_a(case):
    return ("A", case["name"], case["isdir"], case.get("subdir"), case.get("dot"), case.get("opt"), case["style"],
            case.get("closed"), bool(case.get("after")), case["k"], tuple(map(tuple, case.get("decoys", []))))


def fixed_cases(open_ids, stats=None, full=False):
    """Hand-picked awkward names x every quote style x (k, closing quote, file|dir).  quick: 5 combinations per
    (name, style); thorough (full): all."""
    for name in FIXED_NAMES:
        for style in STYLE_IDS:
            if full:
                combos = [(k, c, d) for k in sorted({0, 1, len(name)}) for c in (0, 1, 2) for d in (False, True)]
            else:
                combos = [(0, 0, False), (1, 0, False), (len(name), 0, False), (1, 1, False), (1, 0, True), (len(name), 2, False)]
            for k, closed, isdir in sorted(set(combos)):
                if closed and style == "none":
                    continue
                case = {"part": "A", "name": name, "isdir": isdir, "subdir": "", "dot": False, "opt": "", "style": style,
                        "closed": bool(closed), "after": closed == 2, "k": k, "decoys": [["decoy", False], [name + "x", False]]}
                shp = case_shapes(case) & open_ids
                if shp & case_shapes(dict(case, decoys=[])):
                    if stats is not None:
                        for fid in shp:
                            stats.excluded_known[fid] += 1
                    continue
                if shp:
                    case["decoys"] = [["decoy", False]]
                yield case


def worker_a_fixed(arg):
    shard, nshards, scratch, full, scale = arg
    st_ = _setup(scratch)
    st = Stats()
    thin = max(1, int(round(1 / scale))) if scale < 1 else 1
    for i, case in enumerate(fixed_cases(st_["open"], st if shard == 0 else None, full)):
        if i % nshards != shard or (i // nshards) % thin:
            continue
        f, nt, labels = check_case_a(case)
        if labels == ["A:outside-domain"]:
            st.hist["A:outside-domain"] += 1
            continue
        st.case(key_a(case), nt, ["A-fixed"] + labels, sample=None)
        if f is not None:
            st.fail(f)
    st.failures = _one_per_bucket(st.failures)
    return st


def _one_per_bucket(failures):
    best = {}
    for f in failures:
        b = best.get(f.bucket)
        if b is None or _size_a(f.case) < _size_a(b.case):
            best[f.bucket] = f
    return list(best.values())


def _size_a(case):
    if case.get("part") == "B":
        return len(case["text"])
    return len(case["name"]) + len(case.get("subdir") or "") + 3 * len(case.get("decoys", [])) + case["k"]


def worker_a(arg):
    seed, n, scratch = arg
    st_ = _setup(scratch)
    st = Stats()
    strat = case_strategy_a(st_["open"], st)

    def body(case):
        if case is None:
            st.discards += 1
            return
        f, nt, labels = check_case_a(case)
        if labels == ["A:outside-domain"]:
            st.hist["A:outside-domain"] += 1
            return
        st.case(key_a(case), nt, labels, sample=_sample_a(case) if nt else None, max_per_label=1)
        if f is not None:
            st.fail(f)

    common.run_given(strat, body, seed, n)
    out = []
    for i, f in enumerate(_one_per_bucket(st.failures)):
        out.append(_shrink_a(f, st_["open"], seed) if i < 4 else f)
    st.failures = out
    return st


def _sample_a(case):
    info = build_line(case)
    return {"name": case["name"], "style": case["style"], "line": info["line"] if info else None, "cursor": info["cursor"] if info else None,
            "isdir": case["isdir"], "decoys": case.get("decoys")}


def _shrink_a(f, open_ids, seed):
    """Greedy structural reduction: drop decoys, sub-directory, `./`, option, closing quote, shorten the name."""
    def still(c):
        g, _, _ = check_case_a(c)
        return g if (g is not None and g.bucket == f.bucket) else None

    cur, best = dict(f.case), f
    t0 = time.time()
    progress = True
    while progress and time.time() - t0 < 6:
        progress = False
        trials = []
        for i in range(len(cur.get("decoys", []))):
            trials.append(dict(cur, decoys=cur["decoys"][:i] + cur["decoys"][i + 1:]))
        if cur.get("subdir"):
            trials.append(dict(cur, subdir=""))
        if cur.get("dot"):
            trials.append(dict(cur, dot=False))
        if cur.get("opt"):
            trials.append(dict(cur, opt=""))
        if cur.get("after"):
            trials.append(dict(cur, after=False))
        if cur.get("closed"):
            trials.append(dict(cur, closed=False, after=False))
        if cur["k"]:
            trials.append(dict(cur, k=0))
        nm = cur["name"]
        for i in range(len(nm)):
            n2 = nm[:i] + nm[i + 1:]
            if n2 and n2 not in (".", ".."):
                trials.append(dict(cur, name=n2, k=min(cur["k"], len(n2))))
        for t in trials:
            if case_shapes(t) & open_ids and not (f.finding in open_ids):
                continue
            g = still(t)
            if g is not None:
                cur, best, progress = t, g, True
                break
    return best


# ----------------------------------------------------------------------------------------
# Part B: the analyser

_PB = {}
_B_NONTRIV = set("'\"()[]{}|&;<>$@!#\\`")
_LEXMSG = "Unexpected token: TokenInfo("

FRAGS = [" ", "  ", "\t", "\n", "\\\n", "\\", "\\\\", "'", '"', "'''", '"""', "r'", 'r"', "p'", "f'", "b'", "pr'", "fr'", "R'",
         "$(", "![", "$[", "!(", "@(", "@$(", "@!(", ")", "]", "(", "[", "{", "}", "&&", "||", "|", "&", ";", " and ", " or ", "and", "or",
         ">", ">>", "<", "2>", "e>o", "2>&1", "err>out", "a>", "o>", "$", "$HOME", "${", "~", "~/", "*", "?", "!", "#", "#c", "`", "`a`", ",",
         "=", "--opt=", "-", "ls", "echo", "cd", "a", "b", "x1", "é", "中", ".", "..", "/", "a/b", "import ", "from ", "@", ":", "%", "^",
         "\r", "\x0c", "\x00", "\\'", '\\"', "not ", "in", "if ", "else:", "def f():", "x = ", "lambda", "with ", "\n    ", "\n\n", "\t\t",
         "0", "1e", "0x", "1_", "a.b", "a.", "...", "->", ":=", "**", "//", "!=", "==", "<<", "e>", "all>", "1>2", "﻿", " ", "\x0b"]


def _parser(second=False):
    """The analyser object that is reused for every input (as the shell does) or, second=True, the second
    instance used to re-confirm a failure (constructing one costs ~1 s: PLY table load)."""
    from vlib import tables

    key = "p2" if second else "p"
    if key not in _PB:
        if "cc" not in _PB:
            try:
                tables.install()
            except FileNotFoundError:
                # another run (VERIF_REPO=...) pruned the table directory between the check and the load
                tables.install()
        from xonsh.parsers import completion_context as cc

        _PB["cc"] = cc
        _PB[key] = cc.CompletionContextParser()
    return _PB[key]


def starts_mod_cont(text, want, pair="\\\n"):
    """text starts with want when ANY subset of the backslash-newline pairs is removed on either side.  (The
    analyser removes the continuations between and inside plain words and strings but keeps a backslash-newline
    that the tokenizer hands out as string content - e.g. at the end of an unterminated f-string - and it
    reports sub-expression arguments as they stand: one text can hold removed and kept pairs side by side.)"""
    n, m = len(text), len(want)
    seen = set()
    todo = [(0, 0)]
    while todo:
        i, j = todo.pop()
        while (i, j) not in seen:
            if j == m:
                return True
            seen.add((i, j))
            if text.startswith(pair, i):
                todo.append((i + 2, j))
            if want.startswith(pair, j):
                todo.append((i, j + 2))
            if i < n and text[i] == want[j]:
                i, j = i + 1, j + 1
            else:
                break
    return False


def ends_mod_cont(text, want):
    """Mirror image of starts_mod_cont for the text before the cursor."""
    return starts_mod_cont(text[::-1], want[::-1], pair="\n\\")


class _Hang(BaseException):
    pass


def _on_vtalrm(signum, frame):
    raise _Hang()


def _arm(seconds):
    """CPU-time (ITIMER_VIRTUAL) bound: independent of machine load and of libFuzzer's own SIGALRM."""
    import signal

    if not _PB.get("armed"):
        signal.signal(signal.SIGVTALRM, _on_vtalrm)
        _PB["armed"] = True
    signal.setitimer(signal.ITIMER_VIRTUAL, seconds)


def _disarm():
    import signal

    signal.setitimer(signal.ITIMER_VIRTUAL, 0)


HANG_S = 3.0        # CPU seconds (ITIMER_VIRTUAL); a parse costs ~0.5 ms; re-confirmed once with the doubled bound


def _where(e):
    import traceback

    tb = traceback.extract_tb(e.__traceback__)
    frames = [t for t in tb if "/xonsh/" in t.filename] or list(tb)
    return "%s:%s" % (os.path.basename(frames[-1].filename), frames[-1].name) if frames else "?"


_OPENQ_RE = re.compile("^[A-Za-z]*('''|\"\"\"|'|\")$")


def analyse(parser, text, cursor, bound=HANG_S):
    """-> None when the oracle is satisfied, else (kind, detail, info); info = the reported command context's
    prefix / suffix / quotes (for the narrow predicates) or {}."""
    cc = _PB["cc"]
    try:
        _arm(bound)
        try:
            r = parser.parse(text, cursor)
        finally:
            _disarm()
    except (KeyboardInterrupt, SystemExit):
        raise
    except _Hang as e:
        where = _where(e)
        for k in ("p", "p2"):
            if _PB.get(k) is parser:
                _PB.pop(k)           # its lexer generator was interrupted half-way
        return "hang@%s" % where, "parse(%r, %d) did not return within %.0f CPU seconds (interrupted in %s)" % (
            text, cursor, bound, where), {}
    except BaseException as e:  # noqa: BLE001
        where = _where(e)
        return "exception:%s@%s" % (type(e).__name__, where), "parse(%r, %d) raised %s: %s (in %s)" % (
            text, cursor, type(e).__name__, str(e)[:120], where), {}
    if r is None:
        return None
    if not isinstance(r, cc.CompletionContext):
        return "result-type", "parse(%r, %d) returned %r" % (text, cursor, r), {}
    c, p = r.command, r.python
    if c is None and p is None:
        return "empty-context", "parse(%r, %d) returned a CompletionContext with neither command nor python" % (text, cursor), {}
    if c is not None:
        if not isinstance(c, cc.CommandContext):
            return "result-type", "command is %r" % (c,), {}
        info = {"prefix": c.prefix, "suffix": c.suffix, "opening_quote": c.opening_quote, "closing_quote": c.closing_quote,
                "after": c.is_after_closing_quote}
        # Continuations: the parser removes backslash-newline from simple arguments but reports sub-expression
        # arguments (`$(..)`, `@(..)`) as they stand in the text, and a backslash-newline inside a comment is no
        # continuation at all; nor is the backslash-newline that ends an unterminated f-string (string content).
        # Accepted: the comparison holds on the text as it stands OR with any subset of the backslash-newline
        # pairs removed on either side (starts_mod_cont / ends_mod_cont).
        raw_before, raw_after = text[:cursor], text[cursor:]
        raw_want = c.opening_quote + c.prefix + (c.closing_quote if c.is_after_closing_quote else "")
        inside_cont = raw_before.endswith("\\") and raw_after[:1] == "\n"
        ok = raw_before.endswith(raw_want) or ends_mod_cont(raw_before, raw_want)
        if not ok and inside_cont:
            # a cursor between the backslash and the newline of a continuation: also accept the reading in
            # which the whole continuation is removed
            ok = ends_mod_cont(raw_before[:-1], raw_want)
        if not ok:
            return "prefix", "parse(%r, %d): text before the cursor %r does not end with opening_quote+prefix%s %r (%r)" % (
                text, cursor, raw_before, "+closing_quote" if c.is_after_closing_quote else "", raw_want, c), info
        ok = raw_after.startswith(c.suffix) or starts_mod_cont(raw_after, c.suffix)
        if not ok and inside_cont:
            ok = starts_mod_cont(raw_after[1:], c.suffix)
        if not ok:
            return "suffix", "parse(%r, %d): text after the cursor %r does not start with suffix %r (%r)" % (
                text, cursor, raw_after, c.suffix, c), info
        # documented shape of the quote fields (CommandContext docstrings): opening_quote is string-prefix letters
        # followed by a quote; closing_quote, when present, is that quote; "after the closing quote" needs one
        if c.opening_quote or c.closing_quote or c.is_after_closing_quote:
            mq = _OPENQ_RE.match(c.opening_quote)
            if mq is None or (c.closing_quote and c.closing_quote != mq.group(1)) or (c.is_after_closing_quote and not c.closing_quote):
                return "quote-fields", "parse(%r, %d): inconsistent quote fields opening_quote=%r closing_quote=%r " \
                    "is_after_closing_quote=%r (%r)" % (text, cursor, c.opening_quote, c.closing_quote, c.is_after_closing_quote, c), info
        if not (0 <= c.arg_index <= len(c.args)):
            return "arg-index", "parse(%r, %d): arg_index %d outside 0..%d (%r)" % (text, cursor, c.arg_index, len(c.args), c), info
    if p is not None:
        if not isinstance(p, cc.PythonContext):
            return "result-type", "python is %r" % (p,), {}
        if not (0 <= p.cursor_index <= len(p.multiline_code)) or not text[:cursor].endswith(p.multiline_code[:p.cursor_index]):
            return "python-prefix", "parse(%r, %d): multiline_code[:cursor_index] %r (cursor_index %d) is not a suffix of the text " \
                "before the cursor" % (text, cursor, p.multiline_code[:max(p.cursor_index, 0)], p.cursor_index), {}
    return None


_FSTR_RE = re.compile(r"(?i)f[rbpu]*('|\")")


def _fstring_newline_shape(text):
    """An f-prefixed string start with a newline (or \\r) somewhere after it (conservative)."""
    m = _FSTR_RE.search(text)
    return bool(m and re.search(r"[\r\n]", text[m.end():]))


def _classify_b(text, cursor, kind, info):
    """Narrow predicates of the recorded Part B findings, evaluated on the failing (text, cursor).

    C18-F5  a backslash-newline before any token that sets the lexer's state['last'] (start of the text, after
            blank/comment lines, after a leading `||` / `&&` / unknown character): AttributeError in
            lexer.handle_error_linecont
    C18-F6  a word starting with a non-ASCII \\w character that cannot start an identifier (non-ASCII digit,
            superscript, fraction ...): the lexer's 'Unexpected token' message becomes the prefix/suffix
    C18-F7  unterminated single-line f-string followed by a newline: the tolerant tokenizer loops for ever
    C18-F8  cursor between the backslash and the newline of a continuation inside a word: the prefix takes one
            character from behind the continuation
    C18-F9  cursor inside the closing triple quote of a closed string (after its 1st or 2nd character): reported as
            if it stood inside the string value
    C18-F23 the word `async` followed - directly or after blanks / tabs - by a token the tokenizer hands out without
            flushing its stashed `async` (error-token characters such as backquote, NUL, control characters; also strings,
            `$NAME`): the two tokens come out in swapped order, `async` turns up behind the other text
    C18-F22 f-string with a doubled brace: the tokenizer hands out the un-doubled text, prefix/suffix lose a character
    C18-F21 still-open single-line string ending in a lone backslash: the backslash is reported as closing_quote
    C18-F19 cursor inside a sub-expression opener (`$(` `![` `@(` ...) that directly follows a continuation glued to a
            word: the cursor offset is taken on the unprocessed text, the prefix swallows the rest of the opener
    """
    if kind == "exception:AttributeError@lexer.py:handle_error_linecont" and "\\" in text:
        return "C18-F5"
    if kind in ("prefix", "suffix") and _lexmsg_shape(text) and _LEXMSG in (info.get("prefix", "") + info.get("suffix", "")):
        return "C18-F6"
    if kind == "hang@tokenize.py:_tokenize" and _fstring_newline_shape(text):
        return "C18-F7"
    if kind in ("prefix", "suffix") and _undoubling_explains(text, cursor, kind, info):
        return "C18-F22"        # before F9: exactly the lost brace
    if kind in ("prefix", "suffix") and _inside_closing_triple(text, cursor) and len(info.get("closing_quote", "")) == 3 \
            and not info.get("after"):
        return "C18-F9"
    if kind == "quote-fields" and info.get("closing_quote") == "\\":
        return "C18-F21"
    mf = _FSTR_RE.search(text) if kind in ("prefix", "suffix") else None
    if mf is not None and ("{{" in text[mf.end():] or "}}" in text[mf.end():]):
        return "C18-F22"        # (offsets behind the doubled brace shift: a character is lost, repeated or misplaced)
    if kind in ("prefix", "suffix") and cursor > 0 and text[cursor - 1:cursor + 1] == "\\\n":
        return "C18-F8"         # after F22: a cursor inside a continuation behind a doubled brace is still F22
    if kind in ("prefix", "suffix") and re.search(r"async[ \t]*[^\w \t\n]", text) \
            and "async" in info.get("prefix", "") + info.get("suffix", ""):
        return "C18-F23"
    if kind in ("prefix", "suffix") and "\\\n" in text[:cursor] and text[cursor - 1:cursor] in ("@", "$", "!") \
            and text[cursor:cursor + 1] in ("(", "[", "$", "!"):
        return "C18-F19"
    return None


def _undoubling_explains(text, cursor, kind, info):
    """C18-F22, exactly: an f-string with `{{` / `}}` is in the text and the reported prefix (suffix) is the text
    before (after) the cursor with doubled braces written once (continuations as in the oracle)."""
    mf = _FSTR_RE.search(text)
    if mf is None or ("{{" not in text[mf.end():] and "}}" not in text[mf.end():]):
        return False
    und = lambda t: t.replace("{{", "{").replace("}}", "}")  # noqa: E731
    before, after = text[:cursor], text[cursor:]
    if kind == "suffix":
        sfx = info.get("suffix", "")
        cands = [und(after)]
        if before.endswith("\\") and after[:1] == "\n":
            cands.append(und(after[1:]))            # cursor inside a continuation: either reading (as in analyse)
        return any(starts_mod_cont(a, sfx) for a in cands)
    want = info.get("opening_quote", "") + info.get("prefix", "") + (info.get("closing_quote", "") if info.get("after") else "")
    cands = [und(before)]
    if before.endswith("\\") and after[:1] == "\n":
        cands.append(und(before[:-1]))
    return any(ends_mod_cont(b, want) for b in cands)


def _inside_closing_triple(text, cursor):
    """The cursor stands after the first or second character of a run of three equal quote characters."""
    for j in (1, 2):
        t = text[cursor - j:cursor - j + 3] if cursor - j >= 0 else ""
        if t in ("'''", '"""'):
            return True
    return False


def check_case_b(case, tolerate=(), stats=None, bound=HANG_S):
    """case = {'part':'B','text':..., 'cursor': int|None [, 'prev': text]}  (cursor None = every position).
    Failures attributed to a finding listed in `tolerate` are counted in stats.excluded_known and skipped
    (the model tolerates exactly that shape).  -> Failure|None"""
    text = case["text"]
    p = _parser()
    if case.get("prev") is not None:
        for cur in range(len(case["prev"]) + 1):
            analyse(p, case["prev"], cur)
        p = _parser()
    cursors = range(len(text) + 1) if case.get("cursor") is None else [case["cursor"]]
    for cur in cursors:
        r = analyse(p, text, cur, bound=bound)
        if r is None:
            continue
        kind, detail, info = r
        fid = _classify_b(text, cur, kind, info)
        if fid is not None and fid in tolerate:
            if stats is not None:
                stats.excluded_known[fid] += 1
            p = _parser()
            continue
        p2 = _parser(second=True)
        analyse(p2, "", 0)                       # bring the second instance into its rest state
        r2 = analyse(p2, text, cur, bound=2 * bound)
        if r2 is None:
            if kind.startswith("hang@"):
                if stats is not None:
                    stats.inconclusive += 1      # not re-confirmed with the doubled bound
                p = _parser()
                continue
            _PB.pop("p", None)
            return Failure("state-leak:" + kind, {"part": "B", "text": text, "cursor": cur, "prev": _PB.get("prev")},
                           "reused parser only (previous input %r): %s" % (_PB.get("prev"), detail), bucket="state-leak:" + kind)
        kind, detail, info = r2
        fid = _classify_b(text, cur, kind, info)
        return Failure(kind, {"part": "B", "text": text, "cursor": cur}, detail, finding=fid, bucket=fid or kind)
    _PB["prev"] = text
    return None


def text_strategy_b():
    from hypothesis import strategies as hs

    alph = list(" \t\n\\'\"$()[]{}@!&|;<>#`,=*?~-rpfbeando12.:/%^")
    chars = hs.one_of(hs.sampled_from(alph), hs.sampled_from(alph), hs.characters(codec="utf-8"))
    frag = hs.one_of(hs.sampled_from(FRAGS), hs.sampled_from(FRAGS), hs.sampled_from(FRAGS), chars)
    return hs.one_of(
        hs.lists(frag, max_size=8).map("".join),
        hs.lists(frag, max_size=8).map("".join),
        hs.text(alphabet=chars, max_size=14),
        hs.lists(frag, min_size=8, max_size=24).map("".join),
    )


def _b_excluded(text, open_ids):
    """Shapes not generated at all while the finding is open (each costs the hang bound)."""
    out = set()
    if "C18-F7" in open_ids and _fstring_newline_shape(text):
        out.add("C18-F7")
    return out


def worker_b(arg):
    seed, n, scratch = arg
    _parser()
    open_ids = {e["id"] for e in common.load_known(PROP) if e.get("status") == "open"}
    st = Stats()
    budget = [n]

    def body(text):
        if budget[0] <= 0:
            return
        if text.startswith("\ufeff"):
            st.discards += 1             # a leading byte-order mark is an encoding marker for the tokenizer, not text
            return
        ex = _b_excluded(text, open_ids)
        if ex:
            for fid in ex:
                st.excluded_known[fid] += 1
            return
        f = check_case_b({"part": "B", "text": text, "cursor": None}, tolerate=open_ids, stats=st)
        nt = bool(_B_NONTRIV & set(text))
        labels = ["B"]
        for cls, chs in (("quote", "'\""), ("bracket", "()[]{}"), ("operator", "|&;<>"), ("continuation", None), ("dollar-at-bang", "$@!"),
                         ("comment", "#"), ("newline", "\n"), ("non-ascii", None)):
            if cls == "continuation":
                if "\\\n" in text:
                    labels.append("B:continuation")
            elif cls == "non-ascii":
                if any(ord(c) > 127 for c in text):
                    labels.append("B:non-ascii")
            elif any(c in text for c in chs):
                labels.append("B:" + cls)
        labels = labels[1:] + labels[:1]          # most specific class first (it names the evidence sample)
        st.case(("B", text), nt, labels, sample={"text": text} if nt and len(text) > 6 else None, max_per_label=1)
        st.evaluations += len(text)          # len+1 cursor positions were evaluated
        budget[0] -= len(text) + 1
        if f is not None:
            st.fail(f)

    # n is a budget of (text, cursor) pairs; texts average ~14 positions
    common.run_given(text_strategy_b(), body, seed, max(50, n // 10))
    st.failures = [_shrink_b(f, open_ids) for f in _one_per_bucket(st.failures)]
    return st


def _shrink_b(f, open_ids=()):
    """Character-deletion reduction of the text (all cursor positions re-tried)."""
    text = f.case["text"]
    best = f
    t0 = time.time()
    progress = True
    hang = f.kind.startswith("hang@")
    while progress and time.time() - t0 < (60 if hang else 15):
        progress = False
        for width in (4, 2, 1):
            for i in range(0, max(len(text) - width + 1, 0)):
                t2 = text[:i] + text[i + width:]
                if _b_excluded(t2, open_ids) and f.finding != "C18-F7":
                    continue
                g = check_case_b({"part": "B", "text": t2, "cursor": None}, tolerate=set(open_ids) - {f.finding},
                                 bound=1.0 if hang else HANG_S)
                if g is not None and g.bucket == f.bucket:
                    text, best, progress = t2, g, True
                    break
            if progress:
                break
    if hang and best is not f:
        g = check_case_b(dict(best.case), tolerate=set(open_ids) - {f.finding})
        best = g if (g is not None and g.bucket == f.bucket) else f
    return best


# ----------------------------------------------------------------------------------------
# atheris campaign (thorough tier): runs in sub-processes because libFuzzer ends the process

_ATHERIS_CHILD = r"""
import json, os, sys
sys.path.insert(0, %(deps)r)
sys.path.insert(0, %(verif)r)
from vlib import common
common.pin_environment(%(scratch)r)
import atheris
from vlib import tables
tables.install()
with atheris.instrument_imports(include=["xonsh.parsers.completion_context", "xonsh.parsers.lexer", "xonsh.parsers.tokenize", "xonsh.tools"]):
    import xonsh.tools, xonsh.parsers.tokenize, xonsh.parsers.lexer, xonsh.parsers.completion_context
from checks import c18_completion as chk
chk._parser()
open_ids = set(%(open_ids)r)
found = {}
stats = {"runs": 0, "excluded": {}}
def dump():
    with open(%(out)r + ".tmp", "w") as f:
        json.dump({"stats": stats, "found": list(found.values())}, f)
    os.replace(%(out)r + ".tmp", %(out)r)
def one(data):
    text = data.decode("utf-8", "replace")
    stats["runs"] += 1
    ex = chk._b_excluded(text, open_ids)
    if ex:
        for e in ex:
            stats["excluded"][e] = stats["excluded"].get(e, 0) + 1
        return
    f = chk.check_case_b({"part": "B", "text": text, "cursor": None}, tolerate=open_ids)
    if f is not None:
        b = found.get(f.bucket)
        if b is None or len(b["case"]["text"]) > len(text):
            found[f.bucket] = f.to_json()
            dump()
    if stats["runs"] %% 250 == 0:
        dump()
import atexit
atexit.register(dump)
atheris.Setup([sys.argv[0]] + %(args)r, one)
atheris.Fuzz()
"""


def run_atheris(run, nproc, seconds):
    """-> (list of Failure, total runs, note)"""
    import subprocess

    deps = os.path.join(common.VERIF, ".deps")
    probe = subprocess.run([sys.executable, "-c", "import sys; sys.path.insert(0, %r); import atheris" % deps],
                           capture_output=True, text=True)
    if probe.returncode != 0:
        return [], 0, "atheris is not importable (%s); Part B ran with Hypothesis only" % probe.stderr.strip().splitlines()[-1:]
    open_ids = sorted(run.known_open)
    procs = []
    for i in range(nproc):
        sc = os.path.join(run.scratch, "ath%d" % i)
        corpus = os.path.join(sc, "corpus")
        os.makedirs(corpus, exist_ok=True)
        for j, frag in enumerate(["ls 'a b", "echo $(ls ", "a && b | c; d", "x = @(1)", "cd r'~/", "a \\\nb 'c", 'e """x\ny', "![a] > f 2>&1"]):
            with open(os.path.join(corpus, "seed%d" % j), "wb") as fh:
                fh.write(frag.encode())
        out = os.path.join(sc, "result.json")
        args = ["-max_len=96", "-seed=%d" % (common.worker_seed(run.seed, 500 + i) % (2 ** 31)), "-max_total_time=%d" % seconds,
                "-timeout=60", "-print_final_stats=0", "-verbosity=0", corpus]
        src = _ATHERIS_CHILD % dict(deps=deps, verif=common.VERIF, scratch=sc, out=out, args=args, open_ids=open_ids)
        script = os.path.join(sc, "fuzz.py")
        with open(script, "w") as fh:
            fh.write(src)
        log = open(os.path.join(sc, "log.txt"), "w")
        procs.append((subprocess.Popen([sys.executable, script], stdout=log, stderr=log, cwd=sc,
                                       env=dict(os.environ, VERIF_REPO=common.REPO)), out, log, sc))
    fails, runs, excluded = [], 0, {}
    for pr, out, log, sc in procs:
        try:
            pr.wait(timeout=seconds + 180)
        except subprocess.TimeoutExpired:
            pr.kill()
            run.stats.inconclusive += 1
        log.close()
        if not os.path.exists(out):
            with open(os.path.join(sc, "log.txt")) as fh:
                raise common.HarnessError("atheris child produced no result:\n" + fh.read()[-3000:])
        with open(out) as fh:
            d = json.load(fh)
        runs += d["stats"]["runs"]
        for k, v in d["stats"]["excluded"].items():
            excluded[k] = excluded.get(k, 0) + v
        for fj in d["found"]:
            fails.append(fj)
    # re-confirm every reported input in this process, without atheris
    _parser()
    out_f = []
    for fj in fails:
        g = check_case_b({"part": "B", "text": fj["case"]["text"], "cursor": None}, tolerate=set(open_ids))
        if g is not None:
            out_f.append(_shrink_b(g, set(open_ids)))
    for k, v in excluded.items():
        run.stats.excluded_known[k] += v
    return out_f, runs, "atheris: %d processes x %d s, %d executions (each = every cursor position of one text)" % (nproc, seconds, runs)


# ----------------------------------------------------------------------------------------


def worker(arg):
    kind = arg[0]
    fn = {"A": worker_a, "AF": worker_a_fixed, "B": worker_b}.get(kind)
    if fn is None:
        raise common.HarnessError("bad worker kind %r" % (kind,))
    t0 = time.time()
    st = fn(arg[1:])
    st.hist["worker-seconds:" + kind] += int(time.time() - t0)
    return st


def _replay_case(case):
    if case.get("part") == "B":
        _parser()
        return check_case_b(case)
    if not _state:
        raise common.HarnessError("Part A replay before _setup()")
    return check_case_a(case)[0]


def main(run):
    _state_scratch = os.path.join(run.scratch, "main")
    _setup(_state_scratch)
    common.replay_tier(run, _replay_case)
    os.chdir(common.VERIF)
    quick = run.tier != "thorough"
    naf, na, nb = (4, 6, 6) if quick else (2, 7, 7)
    scale = float(os.environ.get("C18_SCALE", "1"))          # development aid: shrink a tier proportionally
    per_a = max(20, int(run.n(1000, 14000) * scale))         # cases per worker (~25 ms each)
    per_b = max(500, int(run.n(30000, 600000) * scale))      # (text, cursor) pairs per worker (~0.7 ms each)
    args = []
    for w in range(naf):
        args.append(("AF", w, naf, os.path.join(run.scratch, "af%d" % w), not quick, scale))
    for w in range(na):
        args.append(("A", common.worker_seed(run.seed, w), per_a, os.path.join(run.scratch, "a%d" % w)))
    for w in range(nb):
        args.append(("B", common.worker_seed(run.seed, 100 + w), per_b, os.path.join(run.scratch, "b%d" % w)))
    common.pool_map(run, __name__, "worker", args, procs=int(os.environ.get("VERIF_PROCS", "16")))
    h = run.stats.hist
    offered, total_a = h.get("A:offered", 0), h.get("A", 0)
    if total_a and offered < 0.5 * total_a:
        raise common.HarnessError("generator incomplete: the path completer offered candidates in only %d of %d Part A cases"
                                  % (offered, total_a))
    if scale != 1:
        run.stats.notes.append("C18_SCALE=%s: this run is a scaled-down %s tier" % (scale, run.tier))
    if run.tier == "thorough":
        fails, runs, note = run_atheris(run, min(8, int(os.environ.get("VERIF_PROCS", "16"))), int(os.environ.get("C18_ATHERIS_SECONDS", "540")))
        run.stats.notes.append(note)
        run.extra["atheris_executions"] = runs
        run.stats.evaluations += runs
        for f in fails:
            run.stats.fail(f)
    else:
        run.stats.notes.append("atheris campaign runs in the thorough tier only")
    run.assumptions += [
        "file names are valid UTF-8 (no undecodable bytes), 1-40 characters, not `.` / `..`; sub-directory names do not start with ~",
        "the bash and man completion bridges are not registered ($PATH holds no bash): the candidates examined are the path completer's, "
        "identified by calling complete_path on the same context",
        "a bare (unquoted) typed prefix contains no blank, quote, backslash, `$`, backquote, `! # ; & | < > ( ) { } ,` or control character "
        "(xonsh does not read such text as a literal word); a prefix typed inside a non-raw string contains no `$`; `~/...` is typed only "
        "inside raw strings; p-strings are not used for names with `$` or a leading `~` (a p-string always expands them)",
        "every path candidate must run as exactly one argument naming an existing entry; the candidate list need not be complete - the "
        "generated entry must be delivered only if it is delivered when its siblings are absent (collapse onto a sibling's text)",
        "a candidate may spell the entry differently from what was typed (r'~' for ./~; a trailing / for directories; pathlib's spelling for p-strings)",
        "dot files are not expected for an empty name prefix ($DOTGLOB)",
        "Part B: cursor positions 0..len(text); the text does not start with a byte-order mark; prefix/suffix are compared with the text as it "
        "stands or with any subset of its backslash-newline pairs removed on either side; a cursor between the backslash and the newline of a continuation may be "
        "attributed to either side; hang bound 3 CPU-seconds per parse, re-confirmed with 6",
    ]


def replay(run, path):
    with open(path) as f:
        d = json.load(f)
    case = d.get("case", d)
    if case.get("part") != "B":
        _setup(os.path.join(run.scratch, "replay"))
    fail = _replay_case(case)
    os.chdir(common.VERIF)
    if fail is None:
        print("replay: property holds on this case")
        return 0
    if fail.finding and fail.finding in run.known_open:
        # a recorded, open finding reproduces on this case (narrow predicate): that is not a violation
        print("KNOWN-FINDING: property=%s %s kind=%s %s" % (PROP, fail.finding, fail.kind, common._oneline(fail.detail)))
        return 0
    print("VIOLATION property=%s replay=%s kind=%s %s" % (PROP, path, fail.kind, common._oneline(fail.detail)))
    return 1

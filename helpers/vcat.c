/* vcat [chunk] [exit] [stderr-marker] : copy stdin to stdout using read/write of `chunk` bytes
   (default 4096), exit with `exit` (default 0); a third argument is written to stderr first. */
#include <stdlib.h>
#include <string.h>
#include <unistd.h>
#include <errno.h>
int main(int argc, char **argv) {
    size_t chunk = argc > 1 ? (size_t)atol(argv[1]) : 4096;
    int code = argc > 2 ? atoi(argv[2]) : 0;
    if (argc > 3) { (void)!write(2, argv[3], strlen(argv[3])); (void)!write(2, "\n", 1); }
    if (chunk == 0) chunk = 1;
    char *buf = malloc(chunk);
    for (;;) {
        ssize_t n = read(0, buf, chunk);
        if (n == 0) break;
        if (n < 0) { if (errno == EINTR) continue; return 3; }
        ssize_t off = 0;
        while (off < n) {
            ssize_t w = write(1, buf + off, n - off);
            if (w < 0) { if (errno == EINTR) continue; return 4; }
            off += w;
        }
    }
    return code;
}

"""Root-cause isolation for C17 failures.

The formatter is a text -> text function that (by its own description) only rewrites the blanks
between tokens.  For a failing pair (src, out) this module

  1. computes the edit script src -> out: the tokens of `src` (xonsh's tokenizer) are located in `out` one after
     the other (the formatter re-emits token text verbatim), so every edit is a whole inter-token gap - split per
     physical line - or lies inside one string / comment token; token alignment and a character diff are fallbacks,
  2. lets the check delta-debug the script (which edits have to be taken back for the rest to be right),
  3. describes every remaining edit by the *formatter rule class* that produces such an edit
     (decided from the two neighbouring tokens, in the priority order documented in the
     formatter's module docstring) and by the *lexical context* of the place in `src`
     (subprocess text, capture brackets, macro body, f-string replacement field, string token,
     plain Python), using xonsh's own tokenizer and the parse tree of `src`.

The set of (rule, context) pairs is the failure's signature; the narrow predicates of the recorded
findings (vlib.c17_findings) and the bucket of an unattributed failure are functions of it."""

from __future__ import annotations

import ast
import difflib
import io

OPENERS = ("(", "[", "{", "$(", "$[", "${", "!(", "![", "@(", "@!(", "@$(")
CAPTURE_OPENERS = ("$(", "$[", "!(", "![", "@$(", "@!(")
PYTHON_OPENERS_IN_SUBPROC = ("@(", "${")
CLOSERS = (")", "]", "}")
ALWAYS_SPACED = ("==", "!=", "<=", ">=", "->", ":=", "+=", "-=", "*=", "/=", "//=", "%=", "**=", "@=", "|=", "&=", "^=", "<<=", ">>=")
KEYWORDS = frozenset("and as assert async await class def del elif else except finally for from global if import in is lambda "
                     "nonlocal not or raise return try while with yield".split())
LINE_START_PY = KEYWORDS | {"True", "False", "None", "match", "case", "type"}
CHAIN_WORDS = ("&&", "||", "|", ";", "and", "or", "&")
SUBPROC_HELPERS = ("subproc_captured_hiddenobject", "subproc_captured_stdout", "subproc_captured_object", "subproc_captured_inject",
                   "subproc_uncaptured", "subproc_check_boolop")


class Tok:
    __slots__ = ("type", "string", "a", "b", "line", "sline", "i", "brk", "fdepth", "macro", "first", "cmdpos", "macro_head_first", "quirk")

    def __repr__(self):
        return "Tok(%s %r %d:%d)" % (self.type, self.string, self.a, self.b)


def _mods():
    from xonsh.parsers import tokenize as xtok

    return xtok


def tokenize(src):
    """xonsh's own tokenizer in the formatter's (strict) mode -> list of raw TokenInfo."""
    xtok = _mods()
    if src and not src.endswith("\n"):
        src += "\n"
    return [t for t in xtok.tokenize(io.BytesIO(src.encode("utf-8", "surrogatepass")).readline, tolerant=False) if t.type != xtok.ENCODING]


def real_tokens(src):
    """Tokens that carry text (no INDENT/DEDENT/NL/NEWLINE/ENDMARKER), with character offsets into
    `src`, bracket stack, f-string depth and macro context *at* the token."""
    xtok = _mods()
    if src and not src.endswith("\n"):
        src += "\n"
    raw = tokenize(src)
    starts = [0]
    for ln in src.split("\n"):
        starts.append(starts[-1] + len(ln) + 1)
    skip = {xtok.INDENT, xtok.DEDENT, xtok.NL, xtok.NEWLINE, xtok.ENDMARKER}
    out = []
    prev_end = 0
    brk = []
    fdepth = 0
    level = 0                    # indentation level (INDENT/DEDENT)
    at_stmt_start = True
    cmdpos = True                # next token is in command position (start of a simple command)
    alias_macro = False          # inside `name! ...` until the end of the logical line / closing capture bracket
    alias_macro_depth = 0
    func_macro_depth = []        # bracket depths at which a function macro was opened
    block_macro_level = []       # indentation levels of open `with!` headers
    pending_block = None         # a `with!` header line is being read
    header_body = False          # after the ':' of a `with!` header on the same line
    stmt_line = None
    alias_head_first = None
    for t in raw:
        if t.type == xtok.INDENT:
            level += 1
            if pending_block == "await-indent":
                block_macro_level.append(level)
                pending_block = None
            continue
        if t.type == xtok.DEDENT:
            level -= 1
            while block_macro_level and block_macro_level[-1] > level:
                block_macro_level.pop()
            continue
        if t.type in (xtok.NEWLINE,):
            at_stmt_start = True
            cmdpos = True
            alias_macro = False
            header_body = False
            if pending_block == "header":
                pending_block = "await-indent"
            continue
        if t.type in skip:
            continue
        if t.type == xtok.ERRORTOKEN and not t.string.strip(" \t\x0c"):
            continue                      # the tokenizer reports a blank before `!` as a token: it is a gap
        if pending_block == "await-indent" and t.type != xtok.COMMENT:
            pending_block = None           # no indented body followed
        k = Tok()
        k.type = t.type
        k.string = t.string
        a = starts[t.start[0] - 1] + t.start[1] if 1 <= t.start[0] < len(starts) else prev_end
        b = starts[t.end[0] - 1] + t.end[1] if 1 <= t.end[0] < len(starts) else a
        if a < prev_end:          # multi-line FSTRING_MIDDLE: the reported start is unreliable
            a = prev_end
        if b < a:
            b = a
        k.quirk = False
        if t.type == xtok.COMMENT and k.string[:1] in (" ", "\t"):
            k.quirk = True
            # tokenizer quirk: after a capture the COMMENT token may carry the blank(s) before the `#`
            lead = len(k.string) - len(k.string.lstrip(" \t"))
            a = min(a + lead, b)
            k.string = k.string[lead:]
        k.a, k.b = a, b
        prev_end = b
        k.line = t.start[0]
        is_comment = t.type == xtok.COMMENT
        if (at_stmt_start or stmt_line is None) and not is_comment:
            stmt_line = t.start[0]
        k.sline = t.start[0] if (is_comment and at_stmt_start) else stmt_line
        k.i = len(out)
        k.brk = tuple(brk)
        k.fdepth = fdepth
        k.first = at_stmt_start and not is_comment
        k.cmdpos = cmdpos
        macro = None
        if block_macro_level or header_body or (pending_block == "await-indent" and is_comment):
            macro = "block"
        elif func_macro_depth:
            macro = "func"
        elif alias_macro:
            macro = "alias"
        k.macro = macro
        k.macro_head_first = alias_head_first if macro == "alias" else None
        out.append(k)
        # ---- state updates
        s = t.string
        if t.type == xtok.FSTRING_START:
            fdepth += 1
        elif t.type == xtok.FSTRING_END:
            fdepth = max(0, fdepth - 1)
        if t.type == xtok.OP:
            if s in OPENERS:
                brk.append(s)
                if s == "!(" and len(out) >= 2 and out[-2].type == xtok.NAME and out[-2].b == k.a:
                    func_macro_depth.append(len(brk))
            elif s in CLOSERS and brk:
                if func_macro_depth and func_macro_depth[-1] == len(brk):
                    func_macro_depth.pop()
                if alias_macro and alias_macro_depth == len(brk):
                    alias_macro = False
                brk.pop()
        if t.type == xtok.ERRORTOKEN and s == "!" and not k.fdepth and not k.macro:
            p = out[-2] if len(out) >= 2 else None
            glued = p is not None and p.b == k.a
            if glued and p.type == xtok.NAME and p.string == "with" and p.first:
                pending_block = "header"
            else:
                # `subproc BANG nocloser`: everything up to the end of the line / the closing
                # bracket of the enclosing capture is one raw string
                alias_macro = True
                alias_macro_depth = len(brk)
                alias_head_first = bool(glued and p.type == xtok.NAME and p.first and p.string not in LINE_START_PY)
        if pending_block == "header" and t.type == xtok.OP and s == ":" and not brk:
            header_body = True
        if is_comment:
            continue
        at_stmt_start = False
        if (t.type == xtok.OP and (s in ("&&", "||", "|", ";", "&") or s in CAPTURE_OPENERS)) or \
                (t.type == xtok.NAME and s in ("and", "or")) or (t.type == xtok.DOLLARNAME and len(out) >= 1 and _is_env_prefix(src, k)):
            cmdpos = True
        elif t.type == xtok.OP and s in ("=",) and cmdpos:
            pass
        else:
            cmdpos = False
    # xonsh's tokenizer reports unreliable positions for the literal parts of an f-string that span lines, and
    # for every token after them on the same logical line.  Re-locate tokens whose reported span does not hold
    # their text by searching forward; the literal parts of f-strings then lie between their neighbours.
    pos = 0
    for i, k in enumerate(out):
        if k.type == xtok.FSTRING_MIDDLE:
            continue
        text = k.string
        if not (k.a >= pos and src[k.a:k.b] == text):
            j = pos
            after_middle = i > 0 and out[i - 1].type == xtok.FSTRING_MIDDLE
            found = -1
            while j < len(src):
                if after_middle and src[j:j + 2] in ("{{", "}}"):
                    j += 2
                    continue
                if after_middle and src[j] == "\\" and "r" not in _fprefix(out, i):
                    j += 2
                    continue
                if src.startswith(text, j):
                    found = j
                    break
                if not after_middle and src[j] not in " \t\n\x0c\\":
                    break
                j += 1
            if found >= 0:
                k.a, k.b = found, found + len(text)
        pos = max(pos, k.b)
    for i, k in enumerate(out):
        if k.type == xtok.FSTRING_MIDDLE and 0 < i < len(out) - 1:
            a0, b0 = out[i - 1].b, out[i + 1].a
            if a0 <= b0:
                k.a, k.b = a0, b0
    return out


def _fprefix(out, i):
    """prefix letters of the f-string the token at index i belongs to"""
    xtok = _mods()
    depth = 0
    for j in range(i - 1, -1, -1):
        if out[j].type == xtok.FSTRING_END:
            depth += 1
        elif out[j].type == xtok.FSTRING_START:
            if depth == 0:
                return out[j].string.rstrip("'\"").lower()
            depth -= 1
    return ""


def _is_env_prefix(src, k):
    return src[k.b:k.b + 1] == "="


def subproc_lines(tree):
    """Line numbers that hold an expression statement which xonsh's parser turned into a
    subprocess call (whole-line wrapping), as opposed to Python code that merely contains a capture."""
    lines = set()
    if tree is None:
        return lines
    if isinstance(tree, ast.Expression):
        if _subproc_rooted(tree.body):
            lines.add(getattr(tree.body, "lineno", 1))
        return lines
    for node in ast.walk(tree):
        if isinstance(node, ast.Expr) and _subproc_rooted(node.value):
            lines.add(getattr(node, "lineno", None))
    return lines


def _is_helper(node):
    return isinstance(node, ast.Call) and isinstance(node.func, ast.Attribute) and isinstance(node.func.value, ast.Name) \
        and node.func.value.id == "__xonsh__" and node.func.attr in SUBPROC_HELPERS


def _subproc_rooted(v):
    if _is_helper(v):
        return True
    if isinstance(v, ast.BoolOp):
        return any(_subproc_rooted(x) for x in v.values)
    if isinstance(v, ast.UnaryOp) and isinstance(v.op, ast.Not):
        return _subproc_rooted(v.operand)
    return False


# ----------------------------------------------------------------------------------------
# edit scripts


def _char_script(src, out, base=0):
    sm = difflib.SequenceMatcher(None, src, out, autojunk=False)
    return [(base + i1, base + i2, out[j1:j2]) for tag, i1, i2, j1, j2 in sm.get_opcodes() if tag != "equal"]


def _token_script(sx, sy, base):
    """Differences inside one token (string / f-string literal part / comment): line by line when the
    number of lines agrees (blanks removed at the end of a line are reported as exactly that)."""
    lx, ly = sx.split("\n"), sy.split("\n")
    if len(lx) != len(ly):
        return _char_script(sx, sy, base)
    out, pos = [], base
    for a, b in zip(lx, ly):
        if a != b:
            if a.rstrip(" \t\x0c") == b and len(b) < len(a):
                out.append((pos + len(b), pos + len(a), ""))
            else:
                out.extend(_char_script(a, b, pos))
        pos += len(a) + 1
    return out


def _split_gap(pos, sg, og):
    """One changed inter-token gap -> edits per physical-line part (trailing blanks of the first
    line | the line breaks and blank lines | the leading blanks of the last line)."""
    if "\n" not in sg or "\n" not in og:
        return [(pos, pos + len(sg), og)]
    s1, s3 = sg[:sg.index("\n")], sg[sg.rindex("\n") + 1:]
    o1, o3 = og[:og.index("\n")], og[og.rindex("\n") + 1:]
    sm, om = sg[len(s1):len(sg) - len(s3)], og[len(o1):len(og) - len(o3)]
    out = []
    if s1 != o1:
        out.append((pos, pos + len(s1), o1))
    if sm != om:
        out.append((pos + len(s1), pos + len(s1) + len(sm), om))
    if s3 != o3:
        out.append((pos + len(s1) + len(sm), pos + len(sg), o3))
    return out


def _key(t):
    """alignment key of a token: text-bearing tokens whose *inside* the formatter may touch (strings,
    f-string literal parts, comments) are compared without blanks / escapes"""
    xtok = _mods()
    if t.type in (xtok.STRING, xtok.COMMENT):
        return (t.type, "".join(t.string.split()))
    if t.type == xtok.FSTRING_MIDDLE:
        return (t.type, "".join(t.string.split()).replace("{", "").replace("}", "").replace("\\", ""))
    return (t.type, t.string)


def _snapped_script(src, out, ts):
    """Edit script when `out` cannot be tokenised (or its token positions cannot be trusted): a
    character alignment (difflib) snapped to the tokens and gaps of `src`, so that every edit is again
    a whole gap or lies inside one token.  Tokens whose boundaries cannot be located are merged with
    their neighbourhood into one region."""
    blocks = [(i, j, n) for i, j, n in difflib.SequenceMatcher(None, src, out, autojunk=False).get_matching_blocks() if n]

    def f(x, start):
        """out offset of src offset x; start=True: x is where a token starts (blanks inserted before it
        belong to the gap), start=False: x is where a token ends"""
        cands = [(i, j, n) for i, j, n in blocks if i <= x <= i + n]
        if start:
            cands = [c for c in cands if x < c[0] + c[2]] or cands     # prefer the block the token's first char is in
            if not cands:
                return None
            i, j, n = max(cands, key=lambda c: c[0])
        else:
            cands = [c for c in cands if x > c[0]] or cands            # prefer the block the token's last char is in
            if not cands:
                return None
            i, j, n = min(cands, key=lambda c: c[0])
        return j + (x - i)

    edits = []
    ps = po = 0                 # end of the last placed token in src / out
    pending = None              # start (in src) of a region whose tokens could not be located
    for t in ts:
        if t.b <= t.a:
            continue
        oa, ob = f(t.a, True), f(t.b, False)
        if oa is None or ob is None or oa < po or ob < oa:
            if pending is None:
                pending = ps
            continue
        if pending is not None:
            # region: from the end of the last located token to the start of this one
            if src[pending:t.a] != out[po:oa]:
                edits.append((pending, t.a, out[po:oa]))
            pending = None
        else:
            sg, og = src[ps:t.a], out[po:oa]
            if sg != og:
                if sg.strip(" \t\n\x0c") == "" and og.strip(" \t\n\x0c") == "":
                    edits.extend(_split_gap(ps, sg, og))
                else:
                    edits.append((ps, t.a, og))
        sx, sy = src[t.a:t.b], out[oa:ob]
        if sx != sy:
            edits.extend(_token_script(sx, sy, t.a))
        ps, po = t.b, ob
    start = pending if pending is not None else ps
    if src[start:] != out[po:]:
        sg, og = src[start:], out[po:]
        if sg.strip(" \t\n\x0c") == "" and og.strip(" \t\n\x0c") == "":
            edits.extend(_split_gap(start, sg, og))
        else:
            edits.append((start, len(src), og))
    if apply_edits(src, edits) != out:
        return _char_script(src, out)
    return edits


def _strip_blanks(x):
    return x.replace(" ", "").replace("\t", "").replace("\x0c", "")


def _sequential_script(src, out, ts):
    """The formatter re-emits every token's text verbatim (its contract), so the tokens of `src` can be
    located in `out` one after the other with nothing but blanks and line breaks between them; no
    tokenisation of `out` is needed (it may not even tokenise).  Strings, comments and f-string literal
    parts may differ inside by blanks.  Returns None when a token cannot be located that way."""
    xtok = _mods()
    soft = (xtok.STRING, xtok.COMMENT, xtok.FSTRING_MIDDLE)
    edits = []
    ps = po = 0
    n = len(out)
    for t in ts:
        text = src[t.a:t.b]
        if t.b <= t.a or (not text.strip(" \t\n\x0c") and t.type != xtok.FSTRING_MIDDLE):
            continue
        if src[ps:t.a].strip(" \t\n\x0c"):
            return None
        q = po
        if t.type != xtok.FSTRING_MIDDLE and not (t.type == xtok.FSTRING_END):
            while q < n and out[q] in " \t\n\x0c":
                q += 1
        if out.startswith(text, q):
            oa, ob = q, q + len(text)
        elif t.type in soft:
            want = _strip_blanks(text)
            if t.type != xtok.FSTRING_MIDDLE:
                while q < n and out[q] in " \t\n\x0c":
                    q += 1
            j, k = q, 0
            while j < n and k < len(want):
                if out[j] in " \t\x0c":
                    j += 1
                    continue
                if out[j] != want[k]:
                    return None
                j += 1
                k += 1
            if k < len(want):
                return None
            # trailing blanks inside the token's last line stay with the token only when the source token ends with blanks
            oa, ob = q, j
            if t.type == xtok.FSTRING_MIDDLE:
                while ob < n and out[ob] in " \t\x0c" and text[-1:] in " \t\x0c":
                    ob += 1
        else:
            return None
        sg, og = src[ps:t.a], out[po:oa]
        if sg != og:
            edits.extend(_split_gap(ps, sg, og))
        if text != out[oa:ob]:
            edits.extend(_token_script(text, out[oa:ob], t.a))
        ps, po = t.b, ob
    sg, og = src[ps:], out[po:]
    if sg.strip(" \t\n\x0c") or og.strip(" \t\n\x0c"):
        return None
    if sg != og:
        edits.extend(_split_gap(ps, sg, og))
    if apply_edits(src, edits) != out:
        return None
    return edits


def edit_script(src, out):
    """[(a, b, repl)] in src coordinates, left to right, non-overlapping.  The two token sequences
    (xonsh's tokenizer) are aligned; between aligned tokens the edits are whole inter-token gaps
    (split per physical line) and in-token differences; a stretch where the token sequences differ
    (the formatter changed how the text tokenises, e.g. `{ {` -> `{{` in an f-string) is one edit."""
    try:
        ts = real_tokens(src)
    except Exception:  # noqa: BLE001
        return _char_script(src, out)
    seq = _sequential_script(src, out, ts)
    if seq is not None:
        return seq
    try:
        to = real_tokens(out)
    except Exception:  # noqa: BLE001
        return _snapped_script(src, out, ts)
    ks = [_key(x) for x in ts]
    ko = [_key(y) for y in to]
    if ks == ko:
        ops = [("equal", 0, len(ks), 0, len(ko))]
    else:
        ops = difflib.SequenceMatcher(None, ks, ko, autojunk=False).get_opcodes()
    edits = []
    ps = po = 0
    for tag, i1, i2, j1, j2 in ops:
        if tag == "equal":
            for x, y in zip(ts[i1:i2], to[j1:j2]):
                sg, og = src[ps:x.a], out[po:y.a]
                if sg.strip(" \t\n\x0c") or og.strip(" \t\n\x0c"):
                    return _snapped_script(src, out, ts)       # offsets are not trustworthy for this text
                if sg != og:
                    edits.extend(_split_gap(ps, sg, og))
                sx, sy = src[x.a:x.b], out[y.a:y.b]
                if sx != sy:
                    edits.extend(_token_script(sx, sy, x.a))
                ps, po = x.b, y.b
        else:
            es = ts[i2 - 1].b if i2 > i1 else ps
            eo = to[j2 - 1].b if j2 > j1 else po
            if es < ps or eo < po:
                return _snapped_script(src, out, ts)
            # keep the leading gap out of the region when it is unchanged
            k = 0
            while ps + k < es and po + k < eo and src[ps + k] == out[po + k] and src[ps + k] in " \t\n":
                k += 1
            edits.append((ps + k, es, out[po + k:eo]))
            ps, po = es, eo
    sg, og = src[ps:], out[po:]
    if sg != og:
        edits.extend(_split_gap(ps, sg, og))
    if apply_edits(src, edits) != out:
        return _snapped_script(src, out, ts)
    return edits


def apply_edits(src, edits):
    out, pos = [], 0
    for a, b, repl in sorted(edits):
        out.append(src[pos:a])
        out.append(repl)
        pos = b
    out.append(src[pos:])
    return "".join(out)


# ----------------------------------------------------------------------------------------
# description of one edit


def _tok_at(toks, a, b):
    """(inside, prev, next): the token that contains the edit [a, b) without being replaced as a whole
    (or None), the last token ending at or before a, the first token starting at or after b."""
    inside = prev = nxt = None
    for t in toks:
        if t.b > t.a and t.a <= a and b <= t.b and (a > t.a or b < t.b) and not (a == b and a in (t.a, t.b)):
            inside = t
            continue
        if t.b <= a:
            prev = t
        if nxt is None and t.a >= b:
            nxt = t
    return inside, prev, nxt


def context_of(tok, other, sub_lines):
    """lexical context of the gap next to `tok` (the token after the gap; the one before it at the
    end of the text)."""
    xtok = _mods()
    if tok is None:
        return "python"
    if tok.macro == "block" or (other is not None and other.macro == "block"):
        return "macro-block"
    if tok.macro:
        return "macro-" + tok.macro
    if tok.fdepth and tok.type != xtok.FSTRING_START:
        return "fstring"
    for op in reversed(tok.brk):
        if op in PYTHON_OPENERS_IN_SUBPROC:
            return "python"
        if op in CAPTURE_OPENERS:
            return "subproc"
    if tok.sline in sub_lines or (other is not None and other.sline in sub_lines):
        return "subproc"
    return "python"


def _shape(removed, inserted):
    if not removed:
        return "insert"
    if not inserted:
        return "remove"
    return "respace"


def describe(src, edit, toks, sub_lines):
    """(rule, shape, context) of one edit of the formatter."""
    xtok = _mods()
    a, b, repl = edit
    removed = src[a:b]
    inside, prev, nxt = _tok_at(toks, a, b)
    blank = removed.strip(" \t\x0c") == "" and repl.strip(" \t\x0c") == ""
    if inside is not None:
        name = xtok.tok_name.get(inside.type, str(inside.type))
        ctx = "macro-" + inside.macro if inside.macro else ("fstring" if inside.fdepth else "token")
        if blank and removed and repl == "" and src[b:b + 1] in ("\n", ""):
            return ("in-%s:strip-trailing-blank" % name, "remove", ctx)
        if blank:
            return ("in-%s:blank-change" % name, _shape(removed, repl), ctx)
        return ("in-%s:rewrite" % name, "rewrite", ctx)
    ctx = context_of(nxt if nxt is not None else prev, prev, sub_lines)
    if "\n" in removed or "\n" in repl:
        if removed.strip(" \t\n\x0c") == "" and repl.strip(" \t\n\x0c") == "":
            if nxt is None:
                return ("eof-newlines", "lines", ctx)
            if removed.count("\n") > repl.count("\n"):
                return ("blank-lines-removed" if repl.count("\n") else "newline-removed", "lines", ctx)
            if removed.count("\n") < repl.count("\n"):
                return ("newline-inserted", "lines", ctx)
            return ("blank-line-content", "lines", ctx)
        return ("rewrite-across-lines", "rewrite", ctx)
    if not blank:
        return ("retokenised", "rewrite", ctx)
    shape = _shape(removed, repl)
    ls = src.rfind("\n", 0, a) + 1
    if src[ls:a].strip(" \t\x0c") == "" and a == ls:
        # the leading blanks of a physical line
        if prev is not None and prev.type == xtok.ERRORTOKEN and prev.string.endswith("\n"):
            return ("continuation-indent", shape, ctx)
        if nxt is not None and nxt.brk:
            return ("bracket-continuation-indent", shape, ctx)
        if nxt is not None and nxt.type == xtok.COMMENT:
            return ("comment-indent", shape, ctx)
        return ("indent", shape, ctx)
    if src[b:b + 1] in ("\n", "") and (nxt is None or nxt.a > b):
        return ("trailing-blank", shape, ctx)
    ps = prev.string if prev is not None else ""
    cs = nxt.string if nxt is not None else ""
    pt = prev.type if prev is not None else None
    ct = nxt.type if nxt is not None else None
    if ct == xtok.ERRORTOKEN and cs == "!":
        return ("before-bang", shape, ctx)
    if pt == xtok.ERRORTOKEN and ps.endswith("\n"):
        return ("continuation-indent", shape, ctx)
    cont = ct == xtok.ERRORTOKEN and cs.endswith("\n")      # the gap ends at a backslash-newline
    if ct == xtok.COMMENT:
        return ("comment-pad", shape, ctx)
    if ps in OPENERS and pt == xtok.OP:
        return ("after-opener", shape, ctx)
    if cs in CLOSERS and ct == xtok.OP:
        return ("before-closer", shape, ctx)
    if ct == xtok.OP and cs in (",", ";"):
        return ("before-comma" if cs == "," else "before-semicolon", shape, ctx)
    if pt == xtok.OP and ps in (",", ";"):
        return ("after-comma" if ps == "," else "after-semicolon", shape, ctx)
    if ct == xtok.OP and cs == ":":
        return ("before-colon", shape, ctx)
    if pt == xtok.OP and ps == ":":
        return ("after-colon", shape, ctx)
    if (pt == xtok.OP and ps == "=") or (ct == xtok.OP and cs == "="):
        return ("equals", shape, ctx)
    if (pt == xtok.OP and ps in ALWAYS_SPACED) or (ct == xtok.OP and cs in ALWAYS_SPACED):
        return ("spaced-op", shape, ctx)
    if pt == xtok.NAME and ps in KEYWORDS:
        return ("after-keyword", shape, ctx)
    if cont:
        return ("before-continuation", shape, ctx)
    return ("default-gap", shape, ctx)


def signature(src, edits, tree, probe=None):
    """(sorted tuple of distinct (rule, shape, context), per-edit details).

    `probe(text) -> bool` (optional): is this logical line, parsed on its own, a command?  The line numbers of
    xonsh's tree are not reliable (every statement after a command line that holds a multi-line string literal is
    reported one line too low), so a statement that the tree's line numbers do not show as a command is asked
    about directly before an edit in it is called an edit of Python text."""
    if src and not src.endswith("\n"):
        src += "\n"
    try:
        toks = real_tokens(src)
    except Exception:  # noqa: BLE001
        return (("untokenisable-source", "?", "?"),), []
    sub = subproc_lines(tree)
    if probe is not None:
        asked = {}
        for e in edits:
            for t in _tok_at(toks, e[0], e[1]):
                if t is None or t.sline in sub or t.sline in asked:
                    continue
                line = [k for k in toks if k.sline == t.sline and k.type != _mods().COMMENT]
                asked[t.sline] = bool(line) and bool(probe(src[line[0].a:line[-1].b]))
        sub |= {ln for ln, yes in asked.items() if yes}
    det = []
    for e in edits:
        r = describe(src, e, toks, sub)
        inside, prev, nxt = _tok_at(toks, e[0], e[1])
        det.append({"rule": r[0], "shape": r[1], "ctx": r[2], "removed": src[e[0]:e[1]], "inserted": e[2],
                    "prev": prev, "next": nxt, "inside": inside, "at": e[0], "toks": toks, "follows": src[e[1]:e[1] + 1]})
    return tuple(sorted({(d["rule"], d["shape"], d["ctx"]) for d in det})), det


def brief(det):
    """JSON-able summary of the per-edit details."""
    return [{"rule": d["rule"], "shape": d["shape"], "ctx": d["ctx"], "removed": d["removed"], "inserted": d["inserted"],
             "prev": d["prev"].string if d["prev"] is not None else None, "next": d["next"].string if d["next"] is not None else None,
             "inside": d["inside"].string if d["inside"] is not None else None} for d in det]


# ----------------------------------------------------------------------------------------
# where in the *tree* the effect of an edit shows (robust against unreliable line numbers)


def _helper_name(c):
    """name X when the canonical node `c` is a call of __xonsh__.X, else None"""
    try:
        if c[0] != "Call":
            return None
        f = dict(c[1]).get("func")
        if f and f[0] == "Attribute":
            fd = dict(f[1])
            v = fd.get("value")
            if v and v[0] == "Name" and dict(v[1]).get("id") == ("str", "'__xonsh__'"):
                return fd.get("attr")[1].strip("'")
    except Exception:  # noqa: BLE001
        return None
    return None


def diff_flags(a, b, flags=None):
    """Walk two canonical trees (vlib.astcanon) to their first difference.  Returns a set of flags:
    'subproc' / 'macro' / 'fstring' when a xonsh subprocess helper call / macro call / JoinedStr encloses
    the difference or is the *first* tree's node at the difference; 'b-subproc' when only the second
    tree has a subprocess call there (the statement turned from Python into a command)."""
    if flags is None:
        flags = set()
    if a == b:
        return flags

    def kind(c):
        if isinstance(c, tuple) and len(c) == 2 and c[0] == "Expr" and isinstance(c[1], tuple):
            c = dict(c[1]).get("value")          # an expression statement is what its value is
        if isinstance(c, tuple) and len(c) == 2 and c[0] == "BoolOp" and isinstance(c[1], tuple):
            vals = dict(c[1]).get("values") or ()
            return "subproc" if any(kind(v) == "subproc" for v in vals) else None
        if isinstance(c, tuple) and len(c) == 2 and c[0] == "UnaryOp" and isinstance(c[1], tuple):
            return kind(dict(c[1]).get("operand"))
        h = _helper_name(c) if isinstance(c, tuple) and c else None
        if h == "subproc_check_boolop":
            # only a wrapper around the statement's value: look at what it wraps
            try:
                arg = dict(c[1]).get("args")[0]
            except Exception:  # noqa: BLE001
                arg = None
            if isinstance(arg, tuple) and arg and arg[0] == "BoolOp":
                vals = dict(arg[1]).get("values") or ()
                return "subproc" if any(kind(v) == "subproc" for v in vals) else None
            return kind(arg) if arg is not None else None
        if h:
            if h.startswith(("subproc_captured", "subproc_uncaptured")):
                return "subproc"
            if h in ("call_macro", "enter_macro"):
                return "macro"
        if isinstance(c, tuple) and c and c[0] == "JoinedStr":
            return "fstring"
        return None

    ka, kb = kind(a), kind(b)
    if isinstance(a, tuple) and isinstance(b, tuple) and len(a) == 2 and len(b) == 2 and isinstance(a[0], str) and a[0] == b[0] \
            and isinstance(a[1], tuple) and isinstance(b[1], tuple) and a[1] and b[1] and isinstance(a[1][0], tuple) \
            and len(a[1][0]) == 2 and isinstance(a[1][0][0], str):
        fa, fb = dict(a[1]), dict(b[1])
        if ka and ka == kb and fa.get("func") == fb.get("func"):
            # same helper on both sides encloses the difference.  Only the helper call itself (or the f-string) does:
            # an expression statement, the boolop wrapper, `and` / `or` / `not` with a command among the operands do not
            # make their *other* operands commands (`cat --x . y[ 1 ] && ls`: the left operand may be Python to the parser)
            if (a[0] == "Call" and _helper_name(a) and _helper_name(a) != "subproc_check_boolop") or a[0] == "JoinedStr":
                flags.add(ka)
        elif ka or kb:
            if ka:
                flags.add(ka)
            elif kb == "subproc":
                flags.add("b-subproc")
            return flags
        for k in fa:
            if fa.get(k) != fb.get(k):
                return diff_flags(fa.get(k), fb.get(k), flags)
        return flags
    if ka:
        flags.add(ka)
    elif kb == "subproc":
        flags.add("b-subproc")
    if isinstance(a, tuple) and isinstance(b, tuple) and a and b and isinstance(a[0], tuple) and isinstance(b[0], tuple) and not ka and not kb:
        for x, y in zip(a, b):
            if x != y:
                return diff_flags(x, y, flags)
    return flags

"""C12, session-end family: a generated history is played in a CHILD interpreter that really exits.

The in-process machines of checks/c12_history.py own the flusher schedule but can never see what the end
of the interpreter does to a flush that is still running.  Here one case = one whole session:

  mode "driver"  a small program (DRIVER_SRC) bootstraps a session the way xonsh does - XSH.load(), then
                 xonsh.shell.Shell(shell_type="none") with $XONSH_INTERACTIVE on, which builds the history
                 backend exactly as an interactive shell gets it (construct_history(env=..., ts=[now, None],
                 locked=True, sessionid=XSH.sessionid, backend=...), the start-up GC thread included) -,
                 sets hist.buffersize, records every generated command through BaseShell._append_history
                 (return code handed over through hist.last_cmd_rtn like a pipeline does), runs
                 `history flush` through the real alias at generated points, and ends in one of the ways a
                 session ends: XSH.unload() + end of program ("unload"), the `exit` alias followed by the
                 main_xonsh epilogue ("exit"), plain end of program with only the atexit handler
                 ("atexit"), sys.exit(n) ("sysexit"), an unhandled exception ("raise"), SIGTERM to itself
                 ("sigterm": xonsh's handler flushes and raises SystemExit).  kill -9 is C13's subject.
  mode "xonsh"   `python -m xonsh --no-rc -i` (entered through xonsh.main.main()) reads the generated
                 command lines from a pipe; the first line is `__xonsh__.history.buffersize = N`.

An optional generated delay keeps the background flusher busy while the session ends: in the driver by
wrapping JsonHistoryFlusher.dump / .run for the flushers started during the last k operations, in the real
xonsh child through the env-guarded schedule points of xonsh/_verif.py (XONSH_XONSH_VERIF_SCHED).

Oracle (parent, after the child is gone): the session's store decodes (LazyJSON / SELECT) and holds every
recorded command that no reading of $HISTCONTROL / the ignore regex drops, exactly once, in order, verbatim
(SQLite: after rstrip); nothing that every reading drops, nothing invented, no duplicates; the child ended
with the exit status its way of ending implies and within the time bound.
"""

from __future__ import annotations

import glob
import json
import os
import re
import shutil
import sqlite3
import subprocess
import sys

from . import common
from .common import Failure, Stats

CHILD_TIMEOUT = 45.0          # a session costs 0.3-1.5 s (3 s on a loaded machine); 45 s means it will not end
BASE_TS = 1_700_000_000.0
HARNESS_RC = 97

ENDS = ("unload", "exit", "atexit", "sysexit", "raise", "sigterm")
END_RC = {"unload": 0, "exit": 0, "atexit": 0, "sysexit": 3, "raise": 1, "sigterm": 15}
XONSH_ENDS = ("eof", "exit", "exit-code", "sysexit")

DRIVER_SRC = r'''
import json, os, sys, time
HARNESS_RC = 97
try:
    with open(sys.argv[1]) as f:
        case = json.load(f)
    p = case["params"]
    from xonsh.built_ins import XSH
    from xonsh.environ import Env
    envd = {"XONSH_DATA_DIR": case["data"], "XONSH_CACHE_DIR": case["data"] + "-cache", "XONSH_INTERACTIVE": True,
            "XONSH_HISTORY_BACKEND": case["backend"], "UPDATE_OS_ENVIRON": False,
            "HISTCONTROL": set(p.get("histcontrol") or ()), "XONSH_STORE_STDOUT": bool(p.get("store_stdout")),
            "XONSH_HISTORY_SAVE_CWD": bool(p.get("save_cwd", True)), "XONSH_SHOW_TRACEBACK": False,
            "PATH": ["/usr/bin", "/bin"], "HOME": case["data"] + "-home"}
    if p.get("regex"):
        envd["XONSH_HISTORY_IGNORE_REGEX"] = p["regex"]
    XSH.load(ctx={}, execer=None, env=Env(envd))
    gcmode = case.get("startup_gc") or ("wait" if case["backend"] == "sqlite" else "race")
    if gcmode == "sync-race" and case["backend"] == "sqlite":
        # schedule only: the start-up GC thread and the first command run their SQL statements in lock step
        import threading
        import xonsh.history.sqlite as xhs
        _bar = threading.Barrier(2, timeout=0.5)
        _create = xhs._xh_sqlite_create_history_table

        class _Cur:
            def __init__(self, c):
                self.c = c

            def execute(self, *a):
                try:
                    _bar.wait()
                except threading.BrokenBarrierError:
                    pass
                return self.c.execute(*a)

            def __getattr__(self, k):
                return getattr(self.c, k)

        xhs._xh_sqlite_create_history_table = lambda cursor: _create(_Cur(cursor))
    from xonsh.shell import Shell
    XSH.shell = Shell(None, ctx=XSH.ctx, shell_type="none")
    hist = XSH.history
    if gcmode == "wait" and getattr(hist, "gc", None) is not None:
        hist.gc.join(60)        # the first command arrives after the start-up housekeeping has finished
    if type(hist).__name__ != {"json": "JsonHistory", "sqlite": "SqliteHistory"}[case["backend"]]:
        raise RuntimeError("history backend is %r" % type(hist).__name__)
    if case["backend"] == "json" and p.get("buffersize"):
        hist.buffersize = int(p["buffersize"])
    base = XSH.shell.shell
    delay = float(case.get("delay_ms") or 0) / 1000.0
    cur = {"delay": 0.0}
    if delay and case["backend"] == "json":
        import threading
        import xonsh.history.json as xhj
        cls = xhj.JsonHistoryFlusher
        _dump, _run, _start = cls.dump, cls.run, threading.Thread.start
        where = case.get("delay_at") or "dump"

        def start(self):
            self._c12_delay = cur["delay"]
            _start(self)

        def run(self):
            if where == "run" and getattr(self, "_c12_delay", 0):
                time.sleep(self._c12_delay)
            return _run(self)

        def dump(self):
            if where == "dump" and getattr(self, "_c12_delay", 0):
                time.sleep(self._c12_delay)     # a slow disk / a long session file
            return _dump(self)

        cls.start, cls.run, cls.dump = start, run, dump
    ops = case["ops"]
    arm_from = len(ops) - int(case.get("delay_last") or 1)
except BaseException:
    import traceback
    sys.stderr.write("C12-DRIVER-HARNESS\n" + traceback.format_exc())
    sys.stderr.flush()
    os._exit(HARNESS_RC)

# ---- the session itself: nothing below is guarded, what xonsh raises ends the session
for i, op in enumerate(ops):
    if i >= arm_from:
        cur["delay"] = delay
    if op["op"] == "append":
        hist.last_cmd_rtn = op["rtn"]
        inp = op["inp"]
        base._append_history(inp=inp, ts=list(op["ts"]), spc=bool(inp[:1].isspace()), tee_out=op.get("out"),
                             cwd=op.get("cwd"))
    elif op["op"] == "flush":
        XSH.aliases["history"](["flush"])
    else:
        sys.stderr.write("C12-DRIVER-HARNESS unknown op\n")
        os._exit(HARNESS_RC)

end = case["end"]
if end == "unload":
    XSH.unload()
    XSH.shell = None
elif end == "exit":
    XSH.aliases["exit"]([])
    if XSH.exit != 0:
        sys.stderr.write("C12-DRIVER-HARNESS exit alias did not set XSH.exit\n")
        os._exit(HARNESS_RC)
    from xonsh.events import events
    events.on_exit.fire(exit_code=0)
    XSH.unload()
    XSH.shell = None
elif end == "atexit":
    pass
elif end == "sysexit":
    sys.exit(3)
elif end == "raise":
    raise RuntimeError("C12 session ends with an unhandled exception")
elif end == "sigterm":
    import signal
    os.kill(os.getpid(), signal.SIGTERM)
    time.sleep(30)          # the handler raises SystemExit out of this sleep
    os._exit(HARNESS_RC)
else:
    os._exit(HARNESS_RC)
'''

# the real entry point, with the LALR tables of the tree under test taken from byte-compiled copies
XONSH_SHIM = ("import sys, marshal, types, xonsh\n"
              "for mod, f in (('xonsh.parser_table', 'vp_table'), ('xonsh.completion_parser_table', 'vc_table')):\n"
              "    m = types.ModuleType(mod)\n"
              "    with open(%r + '/' + f + '.bin', 'rb') as fh:\n"
              "        exec(marshal.load(fh), m.__dict__)\n"
              "    sys.modules[mod] = m\n"
              "from xonsh.main import main\nmain()\n")


def prepare_tables(scratch):
    """Byte-compile the LALR tables of the working tree into the run's scratch dir (once per run)."""
    import marshal

    from . import tables

    src = tables.ensure_built()
    d = os.path.join(scratch, "c12-tables")
    os.makedirs(d, exist_ok=True)
    for f in ("vp_table", "vc_table"):
        out = os.path.join(d, f + ".bin")
        if os.path.exists(out):
            continue
        path = os.path.join(src, f + ".py")
        with open(path, "rb") as fh:
            code = compile(fh.read(), path, "exec")
        tmp = out + ".%d.tmp" % os.getpid()
        with open(tmp, "wb") as fh:
            marshal.dump(code, fh)
        os.replace(tmp, out)
    return d


# ----------------------------------------------------------------------------------------
# the model


def appends_of(case):
    """-> list of {'k', 'inp', 'rtn', 'ts', 'out', 'cwd', 'rtn_unknown'} in recording order."""
    out = []
    if case["mode"] == "driver":
        for op in case["ops"]:
            if op["op"] == "append":
                out.append({"k": len(out), "inp": op["inp"], "rtn": op["rtn"], "ts": list(op["ts"]),
                            "out": op.get("out"), "cwd": op.get("cwd"), "rtn_unknown": False})
        return out
    for ln in xonsh_lines(case):
        out.append({"k": len(out), "inp": ln["text"] + "\n", "rtn": ln["rtn"], "ts": None, "out": None, "cwd": None,
                    "rtn_unknown": ln["rtn"] is None})
    return out


def classify(params, appends):
    """must / allowed for the on-disk store after the session ended (same readings as the in-process model:
    ignore regex as match or search, ignorespace by the first character, ignoredups against every command
    since the last certainly-kept one compared after rstrip, ignoreerr)."""
    hc = set(params.get("histcontrol") or ())
    rx = None
    if params.get("regex"):
        try:
            rx = re.compile(params["regex"])
        except re.error:
            rx = None
    since = []
    for a in appends:
        inp = a["inp"]
        hard = soft = False
        if rx is not None:
            if rx.match(inp):
                hard = True
            elif rx.search(inp):
                soft = True
        if "ignorespace" in hc and inp[:1].isspace():
            hard = True
        err = False
        if "ignoreerr" in hc:
            if a["rtn_unknown"]:
                soft = True
            elif a["rtn"] != 0:
                err = True
        key = inp.rstrip()
        dup = "ignoredups" in hc and key in since
        a["allowed"] = not hard and not err
        a["must"] = not (hard or soft or err or dup)
        a["hard"] = hard
        if a["must"]:
            since = [key]
        else:
            since.append(key)
    return appends


def facts(case):
    """Shape of the session, computed from the case alone (labels / non-triviality)."""
    ap = classify(case["params"], appends_of(case))
    bs = int(case["params"].get("buffersize") or 100)
    exact = all(a["must"] == a["allowed"] for a in ap)
    fill = 0
    periodic = 0
    if case["backend"] == "json" and exact:
        if case["mode"] == "driver":
            k = 0
            for op in case["ops"]:
                if op["op"] == "flush":
                    fill = 0
                    continue
                a = ap[k]
                k += 1
                if a["hard"]:           # a failed command is buffered too (ignoreerr acts at flush time)
                    continue
                fill += 1
                if fill >= bs:
                    fill = 0
                    periodic += 1
        else:
            for a, ln in zip(ap, xonsh_lines(case)):
                if ln["text"] == "history flush":
                    fill = 0            # the alias flushes what is buffered, then the line itself is recorded
                if not a["hard"]:       # a failed command is buffered too (ignoreerr acts at flush time)
                    fill += 1
                    if fill >= bs:      # the first line has already set the buffer size when it is recorded
                        fill = 0
                        periodic += 1
    return {"appends": ap, "exact": exact, "periodic": periodic,
            "ends_on_boundary": bool(case["backend"] == "json" and exact and periodic and fill == 0),
            "stored_min": sum(1 for a in ap if a["must"])}


# ----------------------------------------------------------------------------------------
# mode "xonsh": the command lines

_PY_OK = ["v%d = %d", "w%d = 'a b %d'", "z%d = [%d, 2]", "t%d = (%d,)"]
_UNI = ["caf\u00e9", "\u65e5\u672c\u8a9e", "\U0001F600", "e\u0301"]


def xonsh_lines(case):
    """Expand the compact description into the typed lines: -> [{'text', 'rtn'}]; rtn None = not known"""
    out = [{"text": "__xonsh__.history.buffersize = %d" % int(case["params"]["buffersize"]), "rtn": 0}]
    last = None
    for i, (kind, x) in enumerate(case["lines"]):
        if kind in ("dup", "dup-blank") and last is None:
            kind = "py"
        if kind == "py":
            ln = {"text": _PY_OK[x % len(_PY_OK)] % (i, x), "rtn": 0}
        elif kind == "fail":
            ln = {"text": ["1/0", "undefined_name_%d" % i, "int('x%d')" % i][x % 3], "rtn": 1}
        elif kind == "space":
            ln = {"text": " s%d = %d" % (i, x), "rtn": 0}
        elif kind == "dup":
            ln = dict(last)
        elif kind == "dup-blank":
            ln = dict(last, text=last["text"].rstrip() + " ")
        elif kind == "uni":
            ln = {"text": "u%d = '%s'" % (i, _UNI[x % 4]), "rtn": 0}
        elif kind == "echo":
            ln = {"text": "echo out-%d" % x, "rtn": 0}
        elif kind == "flush":
            ln = {"text": "history flush", "rtn": 0}
        else:
            raise common.HarnessError("unknown line kind %r" % kind)
        out.append(ln)
        last = ln
    end = case["end"]
    if end == "exit":
        out.append({"text": "exit", "rtn": 0})
    elif end == "exit-code":
        out.append({"text": "exit 4", "rtn": 0})
    elif end == "sysexit":
        out.append({"text": "import sys", "rtn": 0})
        out.append({"text": "sys.exit(3)", "rtn": None})
    elif end != "eof":
        raise common.HarnessError("unknown ending %r" % end)
    return out


# ----------------------------------------------------------------------------------------
# running one session

import itertools

_counter = itertools.count(1)


def _child_env(data, extra=()):
    keep = ("PATH", "LC_ALL", "LANG", "TERM", "PYTHONHASHSEED", "PYTHONWARNINGS", "PYTHONDONTWRITEBYTECODE")
    e = {k: os.environ[k] for k in keep if k in os.environ}
    e.update({"PATH": "/usr/bin:/bin", "PYTHONPATH": common.REPO, "VERIF_REPO": common.REPO, "HOME": data + "-home",
              "XDG_CONFIG_HOME": data + "-home/cfg", "XDG_DATA_HOME": data + "-home/xd",
              "XDG_CACHE_HOME": data + "-home/xc", "XONSH_DATA_DIR": data, "XONSH_CACHE_DIR": data + "-cache",
              "PYTHONDONTWRITEBYTECODE": "1", "TERM": "dumb", "LC_ALL": "C.UTF-8"})
    e.update(dict(extra))
    return e


def run_session(case, scratch, tabledir=None):
    """Play the session in a child; -> observation dict (JSON-able)."""
    root = os.path.join(scratch, "sess-%d-%d" % (os.getpid(), next(_counter)))
    shutil.rmtree(root, ignore_errors=True)
    data = os.path.join(root, "data")
    os.makedirs(data)
    os.makedirs(data + "-home")
    obs = {"rc": None, "timeout": False, "stderr": "", "stdout": "", "files": [], "cmds": None, "load_error": None}
    try:
        if case["mode"] == "driver":
            cpath = os.path.join(root, "case.json")
            with open(cpath, "w") as f:
                json.dump(dict(case, data=data), f)
            cmd = [sys.executable, "-c", DRIVER_SRC, cpath]
            env = _child_env(data)
            stdin_bytes = None
        else:
            if tabledir is None:
                tabledir = prepare_tables(scratch)
            cmd = [sys.executable, "-c", XONSH_SHIM % tabledir, "--no-rc", "-i"]
            extra = {"XONSH_HISTORY_BACKEND": case["backend"]}
            hc = case["params"].get("histcontrol") or ()
            if hc:
                extra["HISTCONTROL"] = ",".join(hc)
            if case.get("delay_ms"):
                extra[common.GUARD] = "1"
                extra["XONSH_XONSH_VERIF_SCHED"] = "%d:1.0:%d" % (int(case.get("delay_seed") or 1), int(case["delay_ms"]))
            env = _child_env(data, extra)
            stdin_bytes = "".join(ln["text"] + "\n" for ln in xonsh_lines(case)).encode("utf-8")
        try:
            r = subprocess.run(cmd, env=env, cwd=root, input=stdin_bytes,
                               stdin=(subprocess.DEVNULL if stdin_bytes is None else None),
                               stdout=(subprocess.PIPE if case["mode"] == "driver" else subprocess.DEVNULL),
                               stderr=subprocess.PIPE, timeout=CHILD_TIMEOUT)
            obs["rc"] = r.returncode
            obs["stderr"] = r.stderr.decode("utf-8", "replace")[-2500:]
            obs["stdout"] = (r.stdout or b"").decode("utf-8", "replace")[-1500:]
        except subprocess.TimeoutExpired as e:
            obs["timeout"] = True
            obs["stderr"] = (e.stderr or b"").decode("utf-8", "replace")[-2500:]
            return obs
        if case["backend"] == "json":
            files = sorted(glob.glob(os.path.join(data, "history_json", "xonsh-*.json")))
            obs["files"] = [os.path.basename(f) for f in files]
            obs["leftovers"] = sorted(os.path.basename(f) for f in glob.glob(os.path.join(data, "history_json", "*"))
                                      if f not in files)
            if len(files) == 1:
                import xonsh.lib.lazyjson as xlj

                try:
                    with open(files[0], newline="\n", encoding="utf-8") as f:
                        d = xlj.LazyJSON(f).load()
                    obs["cmds"] = d["cmds"]
                    obs["locked"] = d.get("locked")
                except Exception as e:  # noqa: BLE001
                    obs["load_error"] = "%s: %s" % (type(e).__name__, e)
        else:
            db = os.path.join(data, "xonsh-history.sqlite")
            obs["files"] = [os.path.basename(db)] if os.path.exists(db) else []
            if obs["files"]:
                try:
                    con = sqlite3.connect(db)
                    try:
                        rows = con.execute("SELECT inp, rtn, tsb, tse, sessionid, out, cwd FROM xonsh_history "
                                           "ORDER BY rowid").fetchall()
                    except sqlite3.OperationalError as e:
                        if "no such table" not in str(e):
                            raise
                        rows = []
                    finally:
                        con.close()
                    obs["cmds"] = [{"inp": r[0], "rtn": r[1], "ts": [r[2], r[3]], "sessionid": r[4], "out": r[5],
                                    "cwd": r[6]} for r in rows]
                except Exception as e:  # noqa: BLE001
                    obs["load_error"] = "%s: %s" % (type(e).__name__, e)
        return obs
    finally:
        shutil.rmtree(root, ignore_errors=True)


F7 = "C12-F7"


def is_f7_shape(case, obs):
    """C12-F7: SQLite session whose first commands are recorded while the start-up GC thread is still at work on
    the database: SqliteHistory.append reports 'database is locked' on stdout and drops the command."""
    return (case["backend"] == "sqlite" and (case.get("startup_gc") or "wait") != "wait"
            and "SQLite History Backend Error: database is locked" in (obs.get("stdout") or ""))


def _short(x, n=140):
    s = repr(x)
    return s if len(s) <= n else s[:n] + "..."


def judge(case, obs):
    """-> Failure | None"""
    backend, mode = case["backend"], case["mode"]
    ap = classify(case["params"], appends_of(case))
    head = "%s backend, %s session of %d commands (buffer size %s, ends by %r, flusher delay %s ms)" % (
        backend, "real `xonsh -i`" if mode == "xonsh" else "driver", len(ap),
        case["params"].get("buffersize") if backend == "json" else "n/a", case["end"], case.get("delay_ms") or 0)

    def fail(kind, detail):
        fid = None
        if kind == "lost" and is_f7_shape(case, obs):
            fid = F7
        return Failure(kind, case, "%s: %s" % (head, detail), finding=fid, bucket=fid or "session:%s:%s" % (backend, kind))

    if obs["rc"] == HARNESS_RC or "C12-DRIVER-HARNESS" in obs["stderr"]:
        raise common.HarnessError("C12 session driver failed before the session started:\n" + obs["stderr"])
    if obs["timeout"]:
        return fail("hang", "the session did not end within %.0f s; stderr: %s" % (CHILD_TIMEOUT, _short(obs["stderr"], 400)))
    want_rc = END_RC[case["end"]] if mode == "driver" else {"eof": 0, "exit": 0, "exit-code": 4, "sysexit": 3}[case["end"]]
    if obs["rc"] != want_rc:
        return fail("exception", "the session ended with exit status %r (expected %r); stderr: %s" % (
            obs["rc"], want_rc, _short(obs["stderr"][-700:], 800)))
    if mode == "driver" and case["end"] != "raise" and "Traceback (most recent call last)" in obs["stderr"]:
        return fail("exception", "a traceback was printed while the session ran / ended: %s" % _short(obs["stderr"][-700:], 800))
    if mode == "driver" and backend == "json" and "Exception in thread" in obs["stderr"]:
        return fail("flusher-exception", "a history thread died: %s" % _short(obs["stderr"][-700:], 800))
    any_allowed = any(a["allowed"] for a in ap)
    if len(obs["files"]) != 1:
        if not obs["files"] and backend == "sqlite" and not any_allowed:
            return None
        return fail("store-missing", "the data dir holds %d session stores %r after the session (expected 1)" % (
            len(obs["files"]), obs["files"]))
    if obs["load_error"] is not None:
        return fail("disk-unreadable", "the session's store does not decode: %s" % obs["load_error"])
    cmds = obs["cmds"]
    strip = backend == "sqlite"

    def text(a):
        return a["inp"].rstrip() if strip else a["inp"]

    # ---- identify every stored command with one recorded command
    ids = []
    if mode == "driver":
        by_ts = {a["ts"][0]: a for a in ap}
        for c in cmds:
            ts = c.get("ts")
            a = by_ts.get(ts[0] if isinstance(ts, (list, tuple)) and ts else None)
            if a is None:
                return fail("invented", "the store holds %s which was never recorded" % _short(c))
            ids.append(a["k"])
            if c.get("inp") != text(a):
                return fail("text", "the store holds %r for command #%d, recorded %r" % (c.get("inp"), a["k"], a["inp"]))
            if c.get("rtn") != a["rtn"] or list(c.get("ts") or ()) != a["ts"]:
                return fail("rtn", "the store holds rtn=%r ts=%r for command #%d, recorded rtn=%r ts=%r" % (
                    c.get("rtn"), c.get("ts"), a["k"], a["rtn"], a["ts"]))
            if c.get("out") is not None and c.get("out") != a["out"]:
                return fail("out", "the store holds out=%r for #%d, recorded %r" % (c.get("out"), a["k"], a["out"]))
            if c.get("cwd") is not None and c.get("cwd") != a["cwd"]:
                return fail("cwd", "the store holds cwd=%r for #%d, recorded %r" % (c.get("cwd"), a["k"], a["cwd"]))
    else:
        # real time stamps: align by text, greedily, against the commands that may be stored.  The shell
        # records deindent(src): outer blanks are not compared here (verbatim text is the driver mode's job)
        def norm(t):
            return t.strip() if isinstance(t, str) else t

        j = 0
        for c in cmds:
            while j < len(ap) and not (ap[j]["allowed"] and norm(ap[j]["inp"]) == norm(c.get("inp"))):
                j += 1
            if j == len(ap):
                return fail("not-allowed", "the store holds %r at a place where no recorded, not excluded command "
                            "with that text fits; stored %s, typed %s" % (
                                c.get("inp"), _short([x.get("inp") for x in cmds], 500), _short([a["inp"] for a in ap], 500)))
            a = ap[j]
            if not a["rtn_unknown"] and c.get("rtn") != a["rtn"]:
                return fail("rtn", "the store holds rtn=%r for %r, the command returned %r" % (c.get("rtn"), a["inp"], a["rtn"]))
            ids.append(j)
            j += 1
        # the greedy match takes the earliest candidates; for the `must` test take the best case instead
        got = [norm(c.get("inp")) for c in cmds]
        i = 0
        for a in ap:
            if not a["must"]:
                continue
            while i < len(got) and got[i] != norm(a["inp"]):
                i += 1
            if i == len(got):
                return fail("lost", "command #%d %r, which no exclusion rule covers, is not in the store after the "
                            "session ended (in order); stored %d commands %s of %d typed" % (
                                a["k"], a["inp"], len(got), _short(got, 500), len(ap)))
            i += 1
        return None
    for x, y in zip(ids, ids[1:]):
        if x == y:
            return fail("duplicate", "the store holds command #%d twice (stored #%r)" % (x, ids))
        if y < x:
            return fail("order", "the store holds #%d before #%d (stored #%r)" % (x, y, ids))
    have = set(ids)
    for k in ids:
        if not ap[k]["allowed"]:
            return fail("not-allowed", "the store holds command #%d %r (rtn %r) which $HISTCONTROL / the ignore "
                        "regex excludes under every reading" % (k, ap[k]["inp"], ap[k]["rtn"]))
    for a in ap:
        if a["must"] and a["k"] not in have:
            return fail("lost", "command #%d %r (rtn %r), which no exclusion rule covers, is not in the store after "
                        "the session ended; the store holds %d of %d recorded commands: #%r" % (
                            a["k"], a["inp"], a["rtn"], len(ids), len(ap), ids))
    if backend == "sqlite":
        sids = {c.get("sessionid") for c in cmds}
        if len(sids) > 1:
            return fail("session", "the rows of one session carry %d session ids" % len(sids))
    return None


def check_session(case, scratch, tabledir=None):
    """-> (Failure | None, observation).  'repeat': N (committed replays of schedule-dependent findings only)
    plays the session up to N times, 8 at a time, and reports the first failing one."""
    rep = int(case.get("repeat") or 1)
    if rep <= 1:
        obs = run_session(case, scratch, tabledir)
        return judge(case, obs), obs
    import concurrent.futures as cf

    obs = None
    with cf.ThreadPoolExecutor(max_workers=8) as ex:
        for k in range(0, rep, 8):
            for obs in ex.map(lambda _i: run_session(case, scratch, tabledir), range(min(8, rep - k))):
                f = judge(case, obs)
                if f is not None:
                    return f, obs
    return None, obs


# ----------------------------------------------------------------------------------------
# generation

_POOL = ["ls", "ls -la", "echo hi", "cd /tmp", "git status", "echo 'a b'", 'echo "q"', "x = 1", "secret --token",
         "# note", "café", "日本語", "\U0001F600 -v", "for i in range(3):\n    print(i)\n",
         "ẹ́   \x1b[0m", "tab\tsep \\n '''", "\udc80 raw byte"]
_HISTCONTROLS = [[], [], [], [], ["ignoredups"], ["ignoreerr"], ["ignorespace"], ["ignoredups", "ignoreerr"],
                 ["ignoredups", "ignoreerr", "ignorespace"]]
_REGEXES = [None, None, None, None, "^secret", r"\s*#"]
_BUFS = [1, 1, 2, 2, 3, 3, 4, 5, 8, 100]


def driver_strategy():
    from hypothesis import strategies as st

    s_bs = st.sampled_from(_BUFS)
    s_shape = st.sampled_from(["k", "k", "k", "k+1", "k+1", "k-1", "one", "free"])
    s_k = st.integers(1, 3)
    s_free = st.integers(0, 12)
    s_hc = st.sampled_from(_HISTCONTROLS)
    s_rx = st.sampled_from(_REGEXES)
    s_x = st.integers(0, 2 ** 30 - 1)
    s_flush = st.lists(st.integers(0, 40), max_size=2)
    s_backend = st.sampled_from(["json", "json", "json", "json", "sqlite"])

    @st.composite
    def cases(draw):
        backend = draw(s_backend)
        pool = _POOL if backend == "json" else [t for t in _POOL if "\udc80" not in t]
        bs = draw(s_bs)
        shape = draw(s_shape)
        if shape == "one":
            n = 1
        elif shape == "free":
            n = draw(s_free)
        else:
            k = 1 if bs == 100 else draw(s_k)
            n = max(0, k * bs + {"k": 0, "k-1": -1, "k+1": 1}[shape])
        x = draw(s_x)
        # most sessions consist of commands no exclusion rule can touch: the number stored is exact
        plain = (x & 3) != 0
        x >>= 2
        hc = draw(s_hc)
        rx = draw(s_rx)
        ops = []
        last = None
        for i in range(n):
            y = draw(s_x) if n <= 16 else (i * 7919 + x)
            inp = pool[y % len(pool)]
            y //= len(pool)
            tail = ["\n", "\n", "\n", "", " \n", "\n\n"][y % 6]
            y //= 6
            if plain:
                word = inp.strip() if "\n" not in inp.strip() else "multi"
                if (rx and re.search(rx, word)) or not word:
                    word = "cmd"
                text, rtn = "%s %d%s" % (word, i, tail), 0
            else:
                rtn = [0, 0, 0, 0, 1, 2, 127, -1][y % 8]
                y //= 8
                lead = ["", "", "", "", "", " ", "\t"][y % 7]
                y //= 7
                if y % 5 == 0 and last is not None:
                    text = last
                elif y % 5 == 1 and last is not None:
                    text = last.rstrip() + tail
                else:
                    text = lead + inp + tail
                y //= 5
            op = {"op": "append", "inp": text, "rtn": rtn, "ts": [BASE_TS + i, BASE_TS + i + 0.5]}
            if y % 3 == 0:
                op["out"] = ["out\n", "\u00e9\U0001F600\n", "x"][(y // 3) % 3]
            if y % 5 != 0:
                op["cwd"] = ["/", "/tmp/x y", "/home/\u00e9"][(y // 15) % 3]
            ops.append(op)
            last = text
        for pos in sorted(draw(s_flush) if n else [], reverse=True):
            ops.insert(min(pos, len(ops)), {"op": "flush"})
        case = {"family": "session", "mode": "driver", "backend": backend,
                "params": {"buffersize": bs, "histcontrol": hc, "regex": rx, "store_stdout": bool(x & 1),
                           "save_cwd": (x >> 1) % 4 != 0},
                "ops": ops}
        # the way of ending and the delay are spread evenly by a hash of what was drawn (Hypothesis' own small
        # draws favour the first alternatives far too much for a few hundred cases)
        hv = int(common.h64(json.dumps([backend, bs, shape, n, x, hc, rx, ops], sort_keys=True)), 16)
        case["end"] = ENDS[hv % len(ENDS)]
        delay = [0, 0, 40, 150, 150, 400][(hv >> 8) % 6] if backend == "json" else 0
        if delay:
            case.update(delay_ms=delay, delay_at="run" if (hv >> 16) & 1 else "dump", delay_last=1 + ((hv >> 20) % 3))
        return case

    return cases()


def xonsh_strategy():
    from hypothesis import strategies as st

    kinds = ["py"] * 8 + ["fail", "fail", "space", "dup", "dup", "dup-blank", "uni", "echo", "flush"]
    s_line = st.tuples(st.sampled_from(kinds), st.integers(0, 99))
    s_plain = st.tuples(st.sampled_from(["py", "py", "py", "uni"]), st.integers(0, 99))

    @st.composite
    def cases(draw):
        bs = draw(st.sampled_from([1, 2, 2, 3, 3, 4, 5]))
        end = draw(st.sampled_from(XONSH_ENDS))
        tail = {"eof": 0, "exit": 1, "exit-code": 1, "sysexit": 2}[end]
        shape = draw(st.sampled_from(["k", "k", "k", "k-1", "k+1", "free"]))
        if shape == "free":
            n = draw(st.integers(0, 9))
        else:
            # number of recorded lines (the buffersize line and the ending lines count) = k * bs + d
            total = draw(st.integers(1, 3)) * bs + {"k": 0, "k-1": -1, "k+1": 1}[shape]
            while total - 1 - tail < 0:
                total += bs
            n = total - 1 - tail
        plain = draw(st.integers(0, 3)) != 0
        lines = [list(draw(s_plain if plain else s_line)) for _ in range(n)]
        hc = [] if plain else draw(st.sampled_from(_HISTCONTROLS))
        case = {"family": "session", "mode": "xonsh",
                "backend": draw(st.sampled_from(["json", "json", "json", "sqlite"])),
                "params": {"buffersize": bs, "histcontrol": hc}, "lines": lines, "end": end}
        delay = draw(st.sampled_from([0, 60, 150, 150]))
        if delay:
            case.update(delay_ms=delay, delay_seed=draw(st.integers(1, 999)))
        return case

    return cases()


# ----------------------------------------------------------------------------------------
# reduction (each trial is one child session)


def reduce_session(case, failure, scratch, tabledir=None, budget=14):
    runs = [0]
    best = [failure]

    def fails(c):
        if runs[0] >= budget:
            return False
        runs[0] += 1
        try:
            f, _ = check_session(c, scratch, tabledir)
        except common.HarnessError:
            return False
        if f is not None and f.bucket == failure.bucket:
            best[0] = f
            return True
        return False

    cur = json.loads(json.dumps(case))
    if cur["backend"] == "json" and not cur.get("delay_ms"):
        c2 = dict(cur, delay_ms=300, delay_at="dump", delay_last=1)
        if fails(c2):
            cur = c2            # the same failure without depending on the machine's speed
    for k, v in (("histcontrol", []), ("regex", None), ("store_stdout", False)):
        if cur["params"].get(k) not in (v, None):
            c2 = dict(cur, params=dict(cur["params"], **{k: v}))
            if fails(c2):
                cur = c2
    seq = "ops" if cur["mode"] == "driver" else "lines"
    # shorter sessions of the same shape: drop whole buffer loads from the front, then single operations
    bs = int(cur["params"].get("buffersize") or 1)
    while len(cur[seq]) > bs and runs[0] < budget:
        c2 = dict(cur, **{seq: cur[seq][bs:]})
        if not fails(c2):
            break
        cur = c2
    i = 0
    while i < len(cur[seq]) and runs[0] < budget:
        c2 = dict(cur, **{seq: cur[seq][:i] + cur[seq][i + 1:]})
        if fails(c2):
            cur = c2
        else:
            i += 1
    f, _ = check_session(cur, scratch, tabledir)
    if f is not None and f.bucket == failure.bucket:
        return f
    return best[0]


# ----------------------------------------------------------------------------------------
# worker


def worker_sessions(arg):
    """arg = (mode, seed, n_cases, scratch, parallel, tabledir, ids of findings recorded as fixed)"""
    import concurrent.futures as cf

    mode, seed, n, scratch, par, tabledir, fixed_ids = arg
    if common.REPO not in sys.path:
        sys.path.insert(0, common.REPO)
    stats = Stats()
    cases = []
    seen = set()

    def body(case):
        h = common.h64(json.dumps(case, sort_keys=True))
        if h not in seen:
            seen.add(h)
            if mode == "driver" and case["backend"] == "sqlite":
                if F7 in fixed_ids:
                    case["startup_gc"] = "race"
                else:
                    stats.excluded_known[F7] += 1      # the driver lets the start-up GC finish first
            cases.append(case)

    common.run_given(driver_strategy() if mode == "driver" else xonsh_strategy(), body, seed, n)

    def one(case):
        return case, check_session(case, scratch, tabledir)

    results = []
    with cf.ThreadPoolExecutor(max_workers=max(1, par)) as ex:
        for case, (f, obs) in ex.map(one, cases):
            results.append((case, f, obs))
    fam = "session-" + mode
    first = {}
    for case, f, obs in results:
        fx = facts(case)
        be = case["backend"]
        nontrivial = (fx["periodic"] >= 1) if be == "json" else fx["stored_min"] >= 2
        labels = [fam, "%s:%s" % (fam, be), "%s:end-%s" % (fam, case["end"])]
        if fx["ends_on_boundary"]:
            labels.append(fam + ":ends-with-empty-buffer-after-periodic-flush")
            labels.append("session:ends-with-empty-buffer-after-periodic-flush")
        if case.get("delay_ms") and be == "json":
            labels.append(fam + ":flusher-delayed")
            if fx["ends_on_boundary"]:
                labels.append("session:boundary+delay")
        if not fx["exact"]:
            labels.append(fam + ":soft-exclusion")
        if case["params"].get("histcontrol"):
            labels.append(fam + ":histcontrol-set")
        if any(op.get("op") == "flush" for op in case.get("ops", ())) or any(k == "flush" for k, _ in case.get("lines", ())):
            labels.append(fam + ":explicit-history-flush")
        if obs.get("locked") is True:
            labels.append(fam + ":file-still-locked-after-exit")
        key = ("session", json.dumps(case, sort_keys=True))
        stats.case(key, nontrivial, labels, sample=case if nontrivial else None, max_per_label=1)
        stats.hist["session-commands"] += len(fx["appends"])
        if f is not None:
            first.setdefault(f.bucket, f)
    for b, f in first.items():
        stats.fail(reduce_session(f.case, f, scratch, tabledir))
    return stats

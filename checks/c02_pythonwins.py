"""C02 - Python wins: code whose names are all bound runs as Python, never as a command.

Generator : programs built as  [binder of NAME at a scope]  +  [probe statements that are valid Python
            but look like commands: `NAME -l`, `NAME | b`, `NAME and b`, `NAME > b`, `NAME & b`, bare NAME ...]
            for every binder kind the property lists (assignment in all target shapes, annotated
            assignment with value, import / from-import, def, class, for, with-as, except-as, walrus,
            global + assignment, function parameters of every kind) x scope (module, function, class body,
            nested function, class in function, probe deeper than the binder) x probe shape.  NAME is drawn
            from names that are real executables / xonsh aliases (ls, echo, cd, test, id, zip, cat ...).
            Second family: `del NAME` then the probe line.  Third family: logged statements followed by a
            syntactically invalid last line.
Oracle    : (1) tree - Execer.parse(src, ctx) has no __xonsh__.subproc_* call and equals ast.parse(src)
            in the C01 canonical form (after unwrapping the inert __xonsh__.builtin_cmd('name') wrapper);
            (2) run - Execer.exec and builtin exec of the same text in equal fresh namespaces give the same
            ordered operator log (operands are logging objects), the same exception type, and no alias /
            command is launched; (3) after `del NAME` the probe line is a command whenever its explicit
            ![..] form parses; (4) invalid last line -> SyntaxError and an empty side-effect log.
            Precondition: the text passes the C01 oracle (else counted as skipped_c01).
"""

from __future__ import annotations

import ast
import builtins
import io
import json
import os
import sys

from vlib import astcanon, common, pyoracle
from vlib.common import Failure, Stats

PROP = "C02"
LEVEL = "exploration"
RULE = ("binder kind x scope path x probe shape (+ del family, + invalid-last-line family); every name read is definitely bound "
        "by construction (self-check: builtin exec raises no NameError); non-trivial = the probe's first name is bound in the same "
        "source (not pre-seeded); distinct = (binder kind, scope path, probe shape, NAME)")

POOL = ["ls", "echo", "cd", "test", "id", "zip", "cat", "grep", "time", "true", "env", "pwd", "dirs", "which", "history", "source"]
PROBES = [
    "{N} -l", "{N} | b", "{N} and b", "{N} -b", "{N} < b > c", "{N} and b or c", "{N} - n", "{N}", "{N}(b)", "{N}.x", "{N} == 'a'",
    "{N} -l | b", "not {N}", "{N} * b", "{N} > b", "{N} >> b", "{N} < b", "{N} & b", "{N} -l -b", "{N} / b", "{N} -- b", "{N} + b - c",
    "{N} or b", "{N} if b else c", "{N}[b]", "{N} -l; {N} | b", "{N} @ b", "{N} ^ b", "{N} -l if b else c", "({N} -l)", "{N} % b", "~{N}", "-{N}",
    "{N} -l and b -l", "{N} != b", "{N} in b", "{N} is b",
]
BUILTIN_NAMES = ["id", "zip", "type", "len", "print", "dir", "max", "min", "sum", "set", "list", "help", "open", "format", "hash", "iter",
                 "next", "vars", "sorted", "filter", "map", "all", "any", "bin", "hex", "oct", "ord", "chr", "pow", "round", "input", "compile", "exec"]
BINDERS = ["builtin", "import_dotted", "assign", "tuple", "star", "chain", "annassign", "import_as", "from_import_as", "import_plain", "def", "class", "for", "for_after",
           "with", "with_after", "except", "walrus", "walrus_if", "global", "param", "param_posonly", "param_kwonly", "param_default",
           "param_varargs", "param_kwargs", "augassign_after_assign", "nested_tuple", "for_tuple", "with_tuple", "list_target",
           "attr_then_name", "while_walrus", "global_in_method", "global_in_nested", "global_in_nested_class"]
SCOPES = ["module", "function", "class", "nested_function", "class_in_function", "module_probe_in_function", "module_probe_in_nested",
          "function_probe_in_nested", "module_probe_in_class", "if_block", "try_block", "loop_block", "with_block", "match_block"]
INVALID_LAST = ["x = = 1", "def (", "ls -l )", "if:", "echo 'a", "for in x:", "1 +", "class :", "a b c )(", "x = (", "return return", "]", "$[", "@(",
                "lambda: :", "try:", "  indented_wrongly"]

PRELUDE = '''
LOG = []
def _nm(o):
    if isinstance(o, L): return o.n
    if isinstance(o, (str, int, float, bool)) or o is None: return repr(o)
    if isinstance(o, (tuple, list)): return type(o).__name__ + "[" + ",".join(_nm(x) for x in o) + "]"
    if isinstance(o, dict): return "dict[" + ",".join("%s=%s" % (k, _nm(v)) for k, v in o.items()) + "]"
    return "<" + type(o).__name__ + ">"
class L:
    def __init__(self, name): self.n = name
    def _b(self, op, other):
        o = _nm(other)
        LOG.append((op, self.n, o)); return L("(%s%s%s)" % (self.n, op, o))
    def _u(self, op):
        LOG.append((op, self.n)); return L("(%s%s)" % (op, self.n))
    def __sub__(s, o): return s._b("-", o)
    def __rsub__(s, o): return s._b("r-", o)
    def __add__(s, o): return s._b("+", o)
    def __or__(s, o): return s._b("|", o)
    def __and__(s, o): return s._b("&", o)
    def __xor__(s, o): return s._b("^", o)
    def __mul__(s, o): return s._b("*", o)
    def __truediv__(s, o): return s._b("/", o)
    def __mod__(s, o): return s._b("%", o)
    def __matmul__(s, o): return s._b("@", o)
    def __rshift__(s, o): return s._b(">>", o)
    def __lshift__(s, o): return s._b("<<", o)
    def __lt__(s, o): return s._b("<", o)
    def __gt__(s, o): return s._b(">", o)
    def __le__(s, o): return s._b("<=", o)
    def __ge__(s, o): return s._b(">=", o)
    def __eq__(s, o): return s._b("==", o)
    def __ne__(s, o): return s._b("!=", o)
    def __hash__(s): return hash(s.n)
    def __neg__(s): return s._u("neg")
    def __pos__(s): return s._u("pos")
    def __invert__(s): return s._u("~")
    def __bool__(s): LOG.append(("bool", s.n)); return len(s.n) % 2 == 0
    def __call__(s, *a, **k): LOG.append(("call", s.n, len(a))); return L(s.n + "()")
    def __getattr__(s, a):
        if a.startswith("__"): raise AttributeError(a)
        LOG.append(("attr", s.n, a)); return L(s.n + "." + a)
    def __getitem__(s, i): LOG.append(("item", s.n, _nm(i))); return L(s.n + "[]")
    def __contains__(s, o): LOG.append(("in", s.n, _nm(o))); return True
    def __iter__(s): LOG.append(("iter", s.n)); return iter([L(s.n + "0")])
    def __enter__(s): LOG.append(("enter", s.n)); return s
    def __exit__(s, *a): LOG.append(("exit", s.n)); return False
class E(Exception): pass
l, b, c, n = L("l"), L("b"), L("c"), L("n")
'''

_state = {}


def _setup(scratch):
    if _state:
        return _state
    from vlib import session

    empty = os.path.join(scratch, "c02-emptypath")
    os.makedirs(empty, exist_ok=True)
    XSH = session.load_session(scratch, path=[empty])
    rec = session.Recorder()
    for nm in POOL + ["l", "b", "c", "n"]:
        XSH.aliases[nm] = rec.make(nm)
    _state.update(XSH=XSH, rec=rec, session=session, ex=session.get_execer(),
                  open={e["id"] for e in common.load_known(PROP) if e.get("status") == "open"})
    return _state


def fresh_ns(preseed=None):
    ns = {}
    exec(PRELUDE, ns)
    for k, v in (preseed or {}).items():
        ns[k] = ns["L"](v)          # a name bound in the session by an earlier input
    return ns


# ----------------------------------------------------------------------------------------
# generator


def _ind(lines, n=1):
    return ["    " * n + ln for ln in lines]


def bind(kind, N):
    """-> (lines that bind N, 'inside' | 'after', body-prefix) : probe goes inside the last opened block
    (lines end with an open block header) or after the lines."""
    v = "L(%r)" % N
    if kind == "builtin":
        return [], "after"           # N is a builtin: nothing to bind
    if kind == "import_dotted":
        return ["import %s.%s" % (N, {"os": "path", "xml": "dom", "email": "utils", "json": "decoder"}[N])], "after"
    if kind == "assign":
        return [N + " = " + v], "after"
    if kind == "tuple":
        return [N + ", z9 = " + v + ", 0"], "after"
    if kind == "star":
        return [N + ", *z9 = " + v + ", 0, 1"], "after"
    if kind == "chain":
        return ["z9 = " + N + " = " + v], "after"
    if kind == "annassign":
        return [N + ": object = " + v], "after"
    if kind == "import_as":
        return ["import string as " + N], "after"
    if kind == "from_import_as":
        return ["from string import digits as " + N], "after"
    if kind == "import_plain":
        return ["import string", N + " = string"], "after"
    if kind == "def":
        return ["def " + N + "(*a):", "    return L(%r)" % (N + "()")], "after"
    if kind == "class":
        return ["class " + N + ":", "    x = 1"], "after"
    if kind == "for":
        return ["for " + N + " in [" + v + "]:"], "inside"
    if kind == "for_after":
        return ["for " + N + " in [" + v + "]:", "    pass"], "after"
    if kind == "for_tuple":
        return ["for z9, (" + N + ", z8) in [(0, (" + v + ", 1))]:"], "inside"
    if kind == "with":
        return ["with " + v + " as " + N + ":"], "inside"
    if kind == "with_after":
        return ["with " + v + " as " + N + ":", "    pass"], "after"
    if kind == "with_tuple":
        return ["with L('m') as z9, " + v + " as " + N + ":"], "inside"
    if kind == "except":
        return ["try:", "    raise E('x')", "except E as " + N + ":"], "inside"
    if kind == "walrus":
        return ["(" + N + " := " + v + ")"], "after"
    if kind == "walrus_if":
        return ["if (" + N + " := " + v + ") is not None:", "    pass"], "after"
    if kind == "while_walrus":
        return ["while (" + N + " := " + v + ") is None:", "    pass"], "after"
    if kind == "global":
        return ["def g9():", "    global " + N, "    " + N + " = " + v, "g9()"], "after"
    if kind == "global_in_method":
        return ["class G9:", "    def m(self):", "        global " + N, "        " + N + " = " + v, "G9().m()"], "after"
    if kind == "global_in_nested":
        return ["def g9():", "    def g8():", "        global " + N, "        " + N + " = " + v, "    g8()", "g9()"], "after"
    if kind == "global_in_nested_class":
        return ["def g9():", "    class G8:", "        def m(self):", "            global " + N, "            " + N + " = " + v,
                "    G8().m()", "g9()"], "after"
    if kind == "augassign_after_assign":
        return [N + " = " + v, N + " -= b"], "after"
    if kind == "nested_tuple":
        return ["(z9, [" + N + ", z8]) = (0, [" + v + ", 1])"], "after"
    if kind == "list_target":
        return ["[" + N + "] = [" + v + "]"], "after"
    if kind == "attr_then_name":
        return ["z9 = L('z9')", N + " = z9.attr"], "after"
    if kind.startswith("param"):
        sig = {"param": N, "param_posonly": N + ", /", "param_kwonly": "*, " + N, "param_default": N + "=" + v,
               "param_varargs": "*" + N, "param_kwargs": "**" + N}[kind]
        call = {"param": v, "param_posonly": v, "param_kwonly": N + "=" + v, "param_default": "", "param_varargs": v,
                "param_kwargs": "k=" + v}[kind]
        return ["def f9(" + sig + "):"], "inside:f9(" + call + ")"
    raise common.HarnessError("unknown binder " + kind)


def build(binder, scope, probes, N):
    """Program text for one case."""
    blines, where = bind(binder, N)
    plines = [p.replace("{N}", N) for p in probes]
    tail = []
    if where.startswith("inside"):
        unit = blines + _ind(plines)
        if ":" in where:
            tail = [where.split(":", 1)[1]]
        unit += tail
        inner_probe_possible = False
    else:
        unit = blines + plines
        inner_probe_possible = True
    if scope == "module":
        return unit
    if scope == "function":
        return ["def f1():"] + _ind(unit) + ["f1()"]
    if scope == "class":
        return ["class C1:"] + _ind(unit)
    if scope == "nested_function":
        return ["def f1():", "    def f2():"] + _ind(unit, 2) + ["    f2()", "f1()"]
    if scope == "class_in_function":
        return ["def f1():", "    class C2:"] + _ind(unit, 2) + ["f1()"]
    if scope == "if_block":
        return ["if True:"] + _ind(unit)
    if scope == "try_block":
        return ["try:"] + _ind(unit) + ["finally:", "    pass"]
    if scope == "loop_block":
        return ["for z7 in [0]:"] + _ind(unit)
    if scope == "with_block":
        return ["with L('w'):"] + _ind(unit)
    if scope == "match_block":
        return ["match 1:", "    case 1:"] + _ind(unit, 2)
    if not inner_probe_possible:
        return None
    # binder at an outer scope, probe deeper
    if scope == "module_probe_in_function":
        return blines + ["def f1():"] + _ind(plines) + ["f1()"]
    if scope == "module_probe_in_nested":
        return blines + ["def f1():", "    def f2():"] + _ind(plines, 2) + ["    f2()", "f1()"]
    if scope == "function_probe_in_nested":
        if binder.startswith("global"):
            return None
        return ["def f1():"] + _ind(blines) + ["    def f2():"] + _ind(plines, 2) + ["    f2()", "f1()"]
    if scope == "module_probe_in_class":
        return blines + ["class C1:"] + _ind(plines)
    raise common.HarnessError("unknown scope " + scope)


# ----------------------------------------------------------------------------------------
# oracle


def _unwrap(tree):
    """Replace the inert wrapper __xonsh__.builtin_cmd('name') (returns the builtin itself unless
    $XONSH_BUILTINS_TO_CMD is set) by Name('name')."""
    class T(ast.NodeTransformer):
        def visit_Call(self, node):
            self.generic_visit(node)
            f = node.func
            if isinstance(f, ast.Attribute) and isinstance(f.value, ast.Name) and f.value.id == "__xonsh__" and f.attr == "builtin_cmd" \
                    and len(node.args) == 1 and isinstance(node.args[0], ast.Constant):
                return ast.Name(id=node.args[0].value, ctx=ast.Load())
            return node
    return T().visit(tree)


def _has_subproc(tree):
    for n in ast.walk(tree):
        if isinstance(n, ast.Attribute) and isinstance(n.value, ast.Name) and n.value.id == "__xonsh__" and n.attr.startswith("subproc"):
            return True
    return False


def run_both(src, preseed=None):
    """-> dict with tree verdicts and run outcomes for xonsh and CPython."""
    st = _state
    ex, rec = st["ex"], st["rec"]
    out = {}
    ns_c = fresh_ns(preseed)
    old_err, old_out = sys.stderr, sys.stdout
    sys.stderr, sys.stdout = io.StringIO(), io.StringIO()
    try:
        try:
            exec(compile(src, "<c02>", "exec"), ns_c)
            out["c_exc"] = None
        except BaseException as e:  # noqa: BLE001
            out["c_exc"] = type(e).__name__
    finally:
        sys.stderr, sys.stdout = old_err, old_out
    out["c_log"] = list(ns_c["LOG"])
    ns_x = fresh_ns(preseed)
    user_names = set(ns_x)
    ctx = set(dir(builtins)) | user_names
    try:
        # the way Execer.compile calls it: session names are passed as user_names
        tree = ex.parse(src, ctx, user_names=user_names)
        out["x_parse_exc"] = None
    except SyntaxError as e:
        tree = None
        out["x_parse_exc"] = "SyntaxError: %s" % str(e)[:120]
    except Exception as e:  # noqa: BLE001
        tree = None
        out["x_parse_exc"] = "%s: %s" % (type(e).__name__, str(e)[:120])
    out["subproc_in_tree"] = bool(tree is not None and _has_subproc(tree))
    if tree is not None and not out["subproc_in_tree"]:
        ccan = astcanon.root_canon(ast.parse(src))
        # the builtin_cmd wrapper is inert only for names that are *not* shadowed by a session variable
        shadowed = {n.args[0].value for n in ast.walk(tree)
                    if isinstance(n, ast.Call) and isinstance(n.func, ast.Attribute) and n.func.attr == "builtin_cmd"
                    and n.args and isinstance(n.args[0], ast.Constant) and n.args[0].value in (preseed or {})}
        out["wrapped_shadowed"] = sorted(shadowed)
        xcan = astcanon.root_canon(_unwrap(tree))
        out["tree_diff"] = None if ccan == xcan else astcanon.first_diff(ccan, xcan)
    rec.calls.clear()
    old_err, old_out = sys.stderr, sys.stdout
    sys.stderr, sys.stdout = io.StringIO(), io.StringIO()
    try:
        try:
            ex.exec(src, glbs=ns_x)
            out["x_exc"] = None
        except BaseException as e:  # noqa: BLE001
            out["x_exc"] = type(e).__name__
    finally:
        sys.stderr, sys.stdout = old_err, old_out
    out["x_log"] = list(ns_x["LOG"])
    out["launched"] = [[c[0], c[1]] for c in rec.calls]
    return out


def classify(case, out):
    b = case.get("binder")
    if b in ("walrus", "walrus_if", "while_walrus") and out.get("subproc_in_tree"):
        return "C02-F1"
    if b == "nested_tuple" and out.get("subproc_in_tree"):
        return "C02-F2"
    if b == "import_dotted" and out.get("subproc_in_tree"):
        return "C02-F3"
    return None


def check_bound(case):
    src = case["src"]
    out = run_both(src, case.get("preseed"))
    if out["c_exc"] == "NameError" or out["c_exc"] == "UnboundLocalError":
        return "selfcheck", None
    problems = []
    if out.get("wrapped_shadowed"):
        problems.append(("builtin-instead-of-variable", "the session variable(s) %s shadow builtins but the bare name is compiled to "
                         "__xonsh__.builtin_cmd(..), i.e. the builtin" % out["wrapped_shadowed"]))
    if out["x_parse_exc"]:
        problems.append(("rejected", "Execer.parse raised %s" % out["x_parse_exc"]))
    elif out["subproc_in_tree"]:
        problems.append(("treated-as-command", "tree contains a __xonsh__.subproc_* call although every name is bound"))
    elif out.get("tree_diff"):
        problems.append(("tree-differs", "tree differs from CPython's: %s" % out["tree_diff"]))
    if out["launched"]:
        problems.append(("launched", "commands/aliases were launched: %r" % out["launched"]))
    if out["x_exc"] != out["c_exc"] or out["x_log"] != out["c_log"]:
        problems.append(("run-differs", "xonsh run: exc=%s log=%r ; python run: exc=%s log=%r" % (
            out["x_exc"], out["x_log"][:8], out["c_exc"], out["c_log"][:8])))
    if not problems:
        return "ok", None
    kind = problems[0][0]
    fid = classify(case, out)
    return "fail", Failure(kind, case, "; ".join(p[1] for p in problems), finding=fid,
                           bucket=fid or "%s:%s" % (kind, case.get("binder", "?")))


def check_del(case):
    """NAME bound, deleted, then probe: the probe line must be a command whenever ![probe] parses."""
    st = _state
    ex = st["ex"]
    src = case["src"]
    ns = fresh_ns()
    ctx = set(dir(builtins)) | set(ns)
    try:
        ex.parse("![" + case["probe"] + "]\n", ctx)
    except Exception:  # noqa: BLE001
        return "discard", None
    try:
        tree = ex.parse(src, ctx)
    except SyntaxError as e:
        return "fail", Failure("del-rejected", case, "after del the program is rejected: %s" % str(e)[:150], bucket="del-rejected")
    # locate the probe statement: it is the last statement of the innermost body
    last = tree
    while True:
        body = getattr(last, "body", None)
        if isinstance(body, list) and body:
            last = body[-1]
        else:
            break
    if not _has_subproc(last):
        return "fail", Failure("del-still-python", case, "after `del %s` the line %r is still treated as Python" % (case["name"], case["probe"]),
                               bucket="del-still-python:" + case.get("scope", ""))
    return "ok", None


def check_atomic(case):
    st = _state
    ex = st["ex"]
    ns = fresh_ns()
    try:
        compile(case["src"], "<c02>", "exec")
        return "discard", None           # CPython accepts it: not an invalid program
    except SyntaxError:
        pass
    old_err, old_out = sys.stderr, sys.stdout
    sys.stderr, sys.stdout = io.StringIO(), io.StringIO()
    st["rec"].calls.clear()
    try:
        try:
            ex.exec(case["src"], glbs=ns)
            exc = None
        except SyntaxError:
            exc = "SyntaxError"
        except BaseException as e:  # noqa: BLE001
            exc = type(e).__name__
    finally:
        sys.stderr, sys.stdout = old_err, old_out
    if exc == "SyntaxError" and not ns["LOG"] and not st["rec"].calls:
        return "ok", None
    if exc is None or exc != "SyntaxError":
        # the invalid line may be a *valid xonsh* line (e.g. `ls -l )` is not, `echo 'a` is not); if xonsh
        # accepted the whole program there is no partial execution to speak of
        try:
            ex.parse(case["src"], set(dir(builtins)) | set(ns))
            return "discard", None
        except SyntaxError:
            pass
        except Exception:  # noqa: BLE001
            pass
    return "fail", Failure("partial-execution", case, "invalid last line: exc=%s, side effects before it: log=%r launched=%r" % (
        exc, ns["LOG"][:6], st["rec"].calls[:3]), bucket="partial-execution")


# ----------------------------------------------------------------------------------------


def gen_case(rnd):
    fam = rnd.randrange(10)
    N = POOL[rnd.randrange(len(POOL))]
    if fam < 7:
        binder = BINDERS[rnd.randrange(len(BINDERS))]
        scope = SCOPES[rnd.randrange(len(SCOPES))]
        if binder == "builtin":
            N = BUILTIN_NAMES[rnd.randrange(len(BUILTIN_NAMES))]
        if binder == "import_dotted":
            N = ["os", "xml", "email", "json"][rnd.randrange(4)]
        probes = [PROBES[rnd.randrange(len(PROBES))] for _ in range(1 + rnd.randrange(3))]
        lines = build(binder, scope, probes, N)
        if lines is None:
            return None
        if binder in ("import_as", "from_import_as", "import_plain", "def", "class"):
            pass
        return {"family": "bound", "src": "\n".join(lines) + "\n", "binder": binder, "scope": scope, "probes": probes, "name": N}
    if fam < 9:
        scope = ["module", "function", "if_block", "loop_block"][rnd.randrange(4)]
        probe = ["{N} -l", "{N} -b", "{N} - n", "{N} | b", "{N} -l | b", "{N}", "{N} -l -b"][rnd.randrange(7)].replace("{N}", N)
        binder = ["assign", "tuple", "def", "import_as", "walrus", "for_after"][rnd.randrange(6)]
        blines, _w = bind(binder, N)
        unit = blines + ["del " + N, probe]
        if scope == "function":
            unit = ["def f1():"] + _ind(unit)
        elif scope == "if_block":
            unit = ["if True:"] + _ind(unit)
        elif scope == "loop_block":
            unit = ["for z7 in [0]:"] + _ind(unit)
        if N in dir(builtins):
            return None          # deleting a shadowing binding leaves the builtin bound
        return {"family": "del", "src": "\n".join(unit) + "\n", "binder": binder, "scope": scope, "probe": probe, "name": N}
    if rnd.randrange(2) == 0:
        # shadowing: NAME bound in an outer scope, an inner scope binds and deletes its *own* NAME; the outer
        # binding is untouched, so a later outer-scope probe is still Python
        probe = PROBES[rnd.randrange(len(PROBES))].replace("{N}", N)
        inner = ["function", "class", "nested"][rnd.randrange(3)]
        outer = ["module", "session", "function"][rnd.randrange(3)]
        v = "L(%r)" % N
        if inner == "function":
            blk = ["def g8():", "    " + N + " = L('inner')", "    del " + N, "g8()"]
        elif inner == "class":
            blk = ["class C8:", "    " + N + " = L('inner')", "    del " + N]
        else:
            blk = ["def g8():", "    def g7():", "        " + N + " = L('inner')", "        del " + N, "    g7()", "g8()"]
        if outer == "module":
            lines = [N + " = " + v] + blk + [probe]
            pre = {}
        elif outer == "session":
            lines = blk + [probe]
            pre = {N: N}
        else:
            lines = ["def f1():", "    " + N + " = " + v] + _ind(blk) + ["    " + probe, "f1()"]
            pre = {}
        return {"family": "bound", "src": "\n".join(lines) + "\n", "binder": "shadow-del:" + outer, "scope": "inner:" + inner,
                "probes": [probe], "name": N, "preseed": pre}
    if rnd.randrange(2) == 0:
        # a session variable (bound by an earlier input) that shadows a builtin: Python's meaning is the variable
        N = BUILTIN_NAMES[rnd.randrange(len(BUILTIN_NAMES))]
        probes = [["{N}", "{N} -l", "{N} | b", "{N}(b)", "x9 = {N}", "{N} and b"][rnd.randrange(6)].replace("{N}", N) for _ in range(1 + rnd.randrange(2))]
        scope = ["module", "function", "if_block"][rnd.randrange(3)]
        unit = list(probes)
        if scope == "function":
            unit = ["def f1():"] + _ind(unit) + ["f1()"]
        elif scope == "if_block":
            unit = ["if True:"] + _ind(unit)
        return {"family": "bound", "src": "\n".join(unit) + "\n", "binder": "session-shadows-builtin", "scope": scope, "probes": probes,
                "name": N, "preseed": {N: N}}
    k = 1 + rnd.randrange(3)
    first = ["b -c", "l | b", "x9 = b - n", "print(b -c, file=open('/dev/null','w'))"]
    lines = [first[rnd.randrange(len(first))] for _ in range(k)]
    bad = INVALID_LAST[rnd.randrange(len(INVALID_LAST))]
    return {"family": "atomic", "src": "\n".join(lines + [bad]) + "\n", "bad": bad}


def check_case(case):
    fam = case["family"]
    if fam == "bound":
        r = pyoracle.compare(case["src"])
        if r.failed:
            return "skipped_c01", None
        if r.kind == "invalid":
            return "discard", None
        return check_bound(case)
    if fam == "del":
        return check_del(case)
    return check_atomic(case)


def worker(arg):
    seed, n, scratch = arg
    from hypothesis import strategies as hs

    _setup(scratch)
    st = Stats()

    def body(rnd):
        case = gen_case(rnd)
        if case is None:
            st.discards += 1
            return
        if case["family"] == "bound" and rnd.randrange(5) != 0:
            fid = {"walrus": "C02-F1", "walrus_if": "C02-F1", "while_walrus": "C02-F1", "nested_tuple": "C02-F2", "import_dotted": "C02-F3"}.get(case["binder"])
            if fid and fid in _state["open"]:
                st.excluded_known[fid] += 1
                return
        verdict, f = check_case(case)
        if verdict in ("discard", "selfcheck"):
            st.discards += 1
            st.hist["discard:" + verdict] += 1
            return
        if verdict == "skipped_c01":
            st.hist["skipped_c01"] += 1
            return
        if case["family"] == "bound":
            key = (case["binder"], case["scope"], tuple(case["probes"]), case["name"])
            st.case(key, True, ["family:bound", "binder:" + case["binder"], "scope:" + case["scope"]], sample=case["src"], max_per_label=1)
            st.hist["cell:%s/%s" % (case["binder"], case["scope"])] += 1
        else:
            st.case(case["src"], True, ["family:" + case["family"]], sample=case["src"], max_per_label=2)
        if f is not None:
            st.fail(f)

    common.run_given(hs.randoms(use_true_random=False), body, seed, n)
    best = {}
    for f in st.failures:
        b = best.get(f.bucket)
        if b is None or len(f.case["src"]) < len(b.case["src"]):
            best[f.bucket] = f
    st.failures = list(best.values())
    return st


def _replay_case(case):
    verdict, f = check_case(case)
    return f


def main(run):
    _setup(run.scratch)
    common.replay_tier(run, _replay_case)
    nw = 16
    per = run.n(900, 25000)
    common.pool_map(run, __name__, "worker", [(common.worker_seed(run.seed, w), per, run.scratch) for w in range(nw)])
    cells = {k for k in run.stats.hist if k.startswith("cell:")}
    run.extra["binder_x_scope_cells_hit"] = len(cells)
    run.extra["binder_x_scope_cells_possible"] = len(BINDERS) * len(SCOPES)
    run.assumptions += [
        "binders outside the property's list (match captures, type X = ..., nonlocal, comprehension variables, names assigned textually after the reading function, annotated names without value) are not generated",
        "programs whose text fails the C01 parser oracle are skipped and counted (skipped_c01)",
    ]


def replay(run, path):
    with open(path) as f:
        d = json.load(f)
    case = d.get("case", d)
    _setup(run.scratch)
    fail = _replay_case(case)
    if fail is None:
        print("replay: property holds on this case")
        return 0
    print("VIOLATION property=%s replay=%s kind=%s %s" % (PROP, path, fail.kind, fail.detail))
    return 1

"""C03 - a bare command line means exactly its explicit ![...] form, everywhere; detection terminates.

Part 1 (equivalence, differential): a generated chain of 1-4 command segments (words, quoted strings,
    $VAR, @(), $(), redirects, pipes, trailing &) joined by && / || / and / or, embedded in a
    generated Python context (top level, after `;`, indented blocks of every compound statement kind
    at depth 1-4 with tab/2/4/8-space indents, backslash continuations between words).  The generator
    emits the *bare* program and its *explicit* twin (every segment wrapped in ![...] by the generator,
    not by xonsh).  Both run in fresh identical sessions; the traces - ordered (alias, argv, stdin)
    records, contents of redirect targets, escaping exception type - must be equal.
Part 2 (termination, fuzz): any string through Execer.parse(text, ctx=set()): a tree / None or a
    SyntaxError, within a hang bound; any other exception type is a failure.  Two drivers: Hypothesis
    (metacharacter-weighted text, splices / truncations of valid programs) and coverage-guided atheris
    children (vlib/c03_atheris.py; same target, failures bucketed by exception type and innermost xonsh
    frame instead of ending the campaign; saved inputs are re-checked here without the fuzzer).  An input
    over the CPU bound is a hang only if it is still running after the long confirmation bound - the
    recovery loop may double a line at each of its 25 retries and still end.
"""

from __future__ import annotations

import io
import json
import os
import signal
import sys
import time
import traceback

from vlib import common
from vlib.common import Failure, Stats

PROP = "C03"
LEVEL = "exploration"
RULE = ("(1) chain of 1-4 generated command segments x joiners x enclosing Python context x indentation x continuation placement, "
        "bare program vs generator-made explicit ![..] twin, traces compared; non-trivial = >= 2 segments or enclosing context not plain "
        "top level; (2) arbitrary strings (metacharacter-weighted text, splices and truncations of valid programs; plus coverage-guided "
        "atheris/libFuzzer campaigns from an empty and from a valid-program corpus, failures bucketed so the search continues) through "
        "Execer.parse; non-trivial = the first plain parse fails so the recovery loop runs; distinct = hash of source")

WORDS = ["a", "b", "x1", "-l", "-a", "--flag", "--k=v", "k=v", "./p", "/x/y", "a.py", "1", "2.5", "a,b", "a:b", "-", "--", "+x", "%s",
         "*.zz", "n?pe", "[q]z"]
CMDS = ["t", "ok", "fail", "emit"]
HANG_S = 60          # equivalence part: wall clock (children are involved)
PARSE_CPU_S = 60     # termination part: CPU seconds of this process (robust against a loaded machine)
CONFIRM_CPU_S = 300  # an input over PARSE_CPU_S is run again with this bound before it is called a hang: the recovery loop
                     # may double the line at every retry (25 retries: 44 characters -> 12 MB, 105-125 CPU-s measured) and still end

_state = {}


class _Timeout(BaseException):
    """BaseException, and re-armed every 2 s after the first expiry, so that an `except Exception`
    or a retry loop inside the code under test cannot swallow the hang bound."""


def _alarm(signum, frame):
    raise _Timeout()


def _setup(scratch):
    if _state:
        return _state
    from vlib import session

    cwd = os.path.join(scratch, "c03cwd-%d" % os.getpid())
    os.makedirs(cwd, exist_ok=True)
    _state.update(session=session, cwd=cwd, scratch=scratch,
                  open={e["id"] for e in common.load_known(PROP) if e.get("status") == "open"})
    signal.signal(signal.SIGALRM, _alarm)
    signal.signal(signal.SIGVTALRM, _alarm)
    return _state


def fresh_session():
    st = _state
    session = st["session"]
    XSH = session.load_session(st["scratch"], EVAR="ev", XONSH_SUBPROC_RAISE_ERROR=True)
    os.chdir(st["cwd"])
    XSH.env["PWD"] = st["cwd"]
    for f in os.listdir(st["cwd"]):
        try:
            os.unlink(os.path.join(st["cwd"], f))
        except OSError:
            pass
    rec = session.Recorder()
    XSH.aliases["t"] = rec.make("t")
    XSH.aliases["ok"] = rec.make("ok")
    XSH.aliases["fail"] = rec.make("fail", rtn=1)
    XSH.aliases["sink"] = rec.make("sink", read_stdin=True)

    def emit(args, stdin=None, stdout=None):
        rec.calls.append(("emit", list(args), None))
        stdout.write(" ".join(args) + "\n")
        return 0

    XSH.aliases["emit"] = emit
    XSH.ctx.clear()
    XSH.ctx.update({"V": "v w", "L": ["l1", "l 2"], "LOG": []})
    return XSH, rec


# ----------------------------------------------------------------------------------------
# generator


class CmdGen:
    def __init__(self, rnd):
        self.r = rnd
        self.nfile = 0

    def k(self, n):
        return self.r.randrange(n)

    def pick(self, xs):
        return xs[self.k(len(xs))]

    def word(self):
        c = self.k(12)
        if c < 6:
            return self.pick(WORDS)
        if c == 6:
            return self.pick(["'q s'", '"d  q"', "'it\\'s'", "r'raw\\n'", "'$EVAR'", '"a#b"', "'&&'", "'|'", "';'"])
        if c == 7:
            return "$EVAR"
        if c == 8:
            return self.pick(["@(V)", "@(L)", "@(1+1)", "@('a b')", "pre@(V)"])
        if c == 9:
            return self.pick(["$(emit in ner)", "@$(emit i j)"])
        if c == 10:
            return self.pick(["${'EVAR'}", "x=y", "a%b"])
        return self.pick(WORDS)

    def segment(self):
        """One pipeline: returns text (single logical line)."""
        cmd = self.pick(CMDS)
        words = [cmd] + [self.word() for _ in range(self.k(4))]
        text = " ".join(words)
        extras = []
        c = self.k(8)
        if c == 0:
            self.nfile += 1
            extras.append(self.pick([">", ">>", "o>", "1>"]) + " out%d.txt" % self.nfile)
        elif c == 1:
            text = text + " | sink " + self.pick(["", "-x", "s1"])
        elif c == 2:
            text = "emit p q | " + text.replace(cmd, "sink", 1)
        if extras:
            text += " " + " ".join(extras)
        return text.rstrip()

    def chain(self):
        n = 1 + (self.k(4) if self.k(2) else 0)
        segs = [self.segment() for _ in range(n)]
        joins = [self.pick(["&&", "||", "and", "or"]) for _ in range(n - 1)]
        return segs, joins

    def continuation(self, seg):
        """Insert a backslash-newline between two words of a segment (never inside a quoted/@()/$() word)."""
        parts = seg.split(" ")
        if len(parts) < 2:
            return seg
        # only split at plain-word boundaries: both neighbours must be free of quotes/parens
        idxs = [i for i in range(1, len(parts)) if not any(ch in parts[i - 1] + parts[i] for ch in "'\"()")
                and _balanced(" ".join(parts[:i]))]
        if not idxs:
            return seg
        i = self.pick(idxs)
        return " ".join(parts[:i]) + " \\\n" + self.pick(["", "  ", "    "]) + " ".join(parts[i:])

    def program(self):
        segs, joins = self.chain()
        use_cont = self.k(5) == 0
        bare_segs = [self.continuation(s) if (use_cont and self.k(2) == 0) else s for s in segs]
        # continuation lines are part of the bare text only; the twin wraps the same text
        def join(parts):
            out = parts[0]
            for j, p in zip(joins, parts[1:]):
                out += " " + j + " " + p
            return out
        # operands the *user* already wrapped (any capture form) stand unchanged in both programs; the others are
        # bare on one side and wrapped by the generator on the other
        user = [None] * len(segs)
        if len(segs) >= 2 and self.k(4) == 0:
            for i in range(len(segs)):
                if self.k(3) == 0 and "\\\n" not in bare_segs[i]:
                    user[i] = self.pick(["![%s]", "$[%s]", "!(%s)", "$(%s)"])
            if all(user):
                user[self.k(len(user))] = None
        bare = join([(u % s) if u else s for u, s in zip(user, bare_segs)])
        explicit = join([(u % s) if u else "![" + s + "]" for u, s in zip(user, bare_segs)])
        labels = ["segments:%d" % len(segs)]
        if any(user):
            labels.append("user-wrapped-operand")
        if joins:
            labels.append("joiners:" + "/".join(sorted(set(joins))))
        if use_cont and "\\\n" in bare:
            labels.append("continuation")
        ctxkind, wrap = self.context()
        labels.append("ctx:" + ctxkind)
        if self.k(4) == 0:
            # the command names are bound elsewhere in the same source, but in scopes that are NOT visible from the
            # command line (parameters / locals of another function, a comprehension variable, another class's
            # attribute): the line still does not start with a bound name, so it is still a command
            kind = self.pick(["params", "locals", "comprehension", "class-attr", "lambda", "nested-params"])
            pre = {
                "params": "def _p9(t, ok, fail=1, *emit, **sink):\n    return t\n",
                "locals": "def _p9():\n    t = ok = fail = emit = sink = 1\n    return t\n",
                "comprehension": "_c9 = [t for t in [1]] + [ok for ok, fail in [(1, 2)]] + [emit for emit in [3] for sink in [4]]\n",
                "class-attr": "class _K9:\n    t = ok = fail = emit = sink = 1\n",
                "lambda": "_l9 = lambda t, ok, fail, emit, sink: t\n",
                "nested-params": "def _p9():\n    def _p8(t, ok, fail, emit, sink):\n        return ok\n    return _p8\n",
            }[kind]
            inner_wrap = wrap

            def wrap(s, _pre=pre, _w=inner_wrap):          # noqa: F811
                return _pre + _w(s)
            labels.append("hidden-binding:" + kind)
        meta = {"segs": bare_segs, "joins": joins, "ctx": ctxkind}
        return wrap(bare), wrap(explicit), labels, ctxkind != "top" or len(segs) >= 2, meta

    def context(self):
        c = self.k(14)
        ind = self.pick(["    ", "  ", "\t", "        "])
        if c < 3:
            return "top", lambda s: s + "\n"
        if c == 3:
            return "after-semicolon", lambda s: "LOG.append(1); " + s + "\n"
        if c == 4:
            return "before-semicolon", lambda s: s + "; LOG.append(2)\n"
        depth = 1 + self.k(4)
        kinds = ["if", "for", "while", "def", "try", "except", "finally", "with", "class", "else", "elif", "match"]
        chosen = [self.pick(kinds) for _ in range(depth)]

        def wrap(s, chosen=tuple(chosen), ind=ind):
            return _nest(s, list(chosen), ind)
        return "block:" + chosen[-1] + ":d%d" % depth, wrap


def _balanced(s):
    return s.count("(") == s.count(")") and s.count("[") == s.count("]") and s.count("'") % 2 == 0 and s.count('"') % 2 == 0


def _indent(text, ind):
    return "".join((ind + ln if ln.strip() else ln) for ln in text.splitlines(True))


def _nest(stmt, kinds, ind):
    """Put `stmt` (one logical line, may contain a continuation) inside nested compound statements."""
    body = stmt + "\n"
    n = 0
    for kind in reversed(kinds):
        n += 1
        b = _indent(body, ind)
        p = ind + "pass\n"
        if kind == "if":
            body = "if True:\n" + b
        elif kind == "else":
            body = "if False:\n" + p + "else:\n" + b
        elif kind == "elif":
            body = "if False:\n" + p + "elif True:\n" + b
        elif kind == "for":
            body = "for _i%d in [1]:\n" % n + b
        elif kind == "while":
            body = "_w%d = True\nwhile _w%d:\n" % (n, n) + ind + "_w%d = False\n" % n + b
        elif kind == "def":
            body = "def _f%d():\n" % n + b + "_f%d()\n" % n
        elif kind == "try":
            body = "try:\n" + b + "finally:\n" + ind + "LOG.append('f%d')\n" % n
        elif kind == "except":
            body = "try:\n" + ind + "raise KeyError('k')\nexcept KeyError:\n" + b
        elif kind == "finally":
            body = "try:\n" + p + "finally:\n" + b
        elif kind == "with":
            body = "import contextlib\nwith contextlib.nullcontext():\n" + b
        elif kind == "class":
            body = "class _C%d:\n" % n + b
        elif kind == "match":
            body = "match 1:\n" + ind + "case 1:\n" + _indent(b, ind)
    return body


# ----------------------------------------------------------------------------------------
# execution + trace


def run_program(src):
    XSH, rec = fresh_session()
    st = _state
    old_err, old_out = sys.stderr, sys.stdout
    sys.stderr = io.StringIO()
    my_out = sys.stdout = io.StringIO()
    exc = None
    signal.setitimer(signal.ITIMER_REAL, HANG_S, 2.0)
    try:
        try:
            st["session"].xexec(src)
        except _Timeout:
            exc = "HANG"
        except SyntaxError:
            exc = "SyntaxError"
        except BaseException as e:  # noqa: BLE001
            exc = type(e).__name__ + (":%s" % getattr(e, "returncode", "")) if hasattr(e, "returncode") else type(e).__name__
    finally:
        signal.setitimer(signal.ITIMER_REAL, 0)
        printed = my_out.getvalue()
        sys.stderr, sys.stdout = old_err, old_out
    # a `!(...)` that ends the statement is not waited for by xonsh (in either form): finish it before reading the trace
    try:
        if XSH.lastcmd is not None:
            XSH.lastcmd.end()
    except BaseException:  # noqa: BLE001
        pass
    import threading

    for t in threading.enumerate():
        if t is not threading.main_thread() and not t.daemon:
            t.join(timeout=5)
    # wait for background jobs
    try:
        from xonsh.procs.jobs import get_tasks

        for _ in range(200):
            if not XSH.all_jobs:
                break
            import time

            time.sleep(0.01)
        XSH.all_jobs.clear()
        get_tasks().clear()
    except Exception:  # noqa: BLE001
        pass
    files = {}
    for f in sorted(os.listdir(st["cwd"])):
        try:
            with open(os.path.join(st["cwd"], f), "rb") as fh:
                files[f] = fh.read().decode("utf-8", "replace")
        except OSError:
            files[f] = "<unreadable>"
    # what lands on the shell's own stdout is C06/C07's subject and depends on which thread wrote it;
    # it is kept for the report but not compared
    return {"calls": [[c[0], c[1], c[2]] for c in rec.calls], "files": files, "exc": exc, "log": list(XSH.ctx.get("LOG", [])),
            "_printed": printed}


def shape_findings(meta):
    """Recorded findings whose syntactic shape the generated program has (ids)."""
    out = []
    segs, joins, ctx = meta.get("segs", []), meta.get("joins", []), meta.get("ctx", "")
    cont = any("\\\n" in s for s in segs)
    if joins and any(("=" in w or ":" in w) and not w.startswith(("'", '"')) for s in segs[1:] for w in s.replace("\\\n", " ").split(" ")):
        out.append("C03-F1")
    if joins and cont:
        out.append("C03-F2")
    if joins and any(_py_parsable_dollar(sg) for sg in segs):
        out.append("C03-F6")
    if any("," in w and not w.startswith(("'", '"', "@", "$")) for s in segs for w in s.replace("\\\n", " ").split(" ")):
        out.append("C03-F5")
    if cont and "semicolon" in ctx:
        out.append("C03-F3")
    return out


_pp_cache = {}


def _py_parsable_dollar(seg):
    """The segment is also a valid xonsh *Python-mode* expression and contains a $ / @ construct
    (`t - $(emit i)`, `t -- $EVAR`)."""
    if "$" not in seg and "@" not in seg:
        return False
    if seg in _pp_cache:
        return _pp_cache[seg]
    from vlib import pyoracle

    try:
        pyoracle.get_parser().parse(seg.replace("\\\n", " ") + "\n")
        ok = True
    except Exception:  # noqa: BLE001
        ok = False
    _pp_cache[seg] = ok
    return ok


def classify(meta, tb, te):
    """Attribute a disagreement to a recorded finding only when the program has that finding's
    shape and the failure is of the kind that finding produces."""
    if not meta:
        return None
    shapes = shape_findings(meta)
    if "C03-F1" in shapes and tb["exc"] == "SyntaxError" and not tb["calls"]:
        return "C03-F1"
    if "C03-F3" in shapes and tb["exc"] == "NameError" and not tb["calls"] and "C03-F2" not in shapes:
        return "C03-F3"
    if "C03-F2" in shapes:
        return "C03-F2"
    if "C03-F5" in shapes:
        return "C03-F5"
    if "C03-F6" in shapes:
        return "C03-F6"
    return None


def check_pair(bare, explicit, meta=None):
    te = run_program(explicit)
    if te["exc"] == "SyntaxError":
        return "discard", None          # the explicit twin itself is not a program: generator discard
    tb = run_program(bare)
    diffs = [k for k in tb if tb[k] != te[k] and not k.startswith("_")]
    if not diffs:
        return "ok", None
    kind = "hang" if tb["exc"] == "HANG" else ("bare-rejected" if tb["exc"] == "SyntaxError" else "trace-differs")
    detail = "bare form differs from explicit form in %s: bare %r / explicit %r" % (
        diffs, {k: tb[k] for k in diffs}, {k: te[k] for k in diffs})
    case = {"bare": bare, "explicit": explicit, "meta": meta}
    fid = classify(meta, tb, te)
    return "fail", Failure(kind, case, detail, finding=fid, bucket=fid or (kind + ":" + ",".join(diffs)))


def worker_equiv(arg):
    seed, n, scratch = arg
    from hypothesis import strategies as hs

    _setup(scratch)
    os.dup2(os.open(os.devnull, os.O_WRONLY), 2)
    st = Stats()

    def body(rnd):
        g = CmdGen(rnd)
        bare, explicit, labels, nontrivial, meta = g.program()
        shapes = [x for x in shape_findings(meta) if x in _state["open"]]
        if shapes and rnd.randrange(6) != 0:
            # shape of a recorded finding: mostly avoided so that the campaign explores the rest
            for x in shapes:
                st.excluded_known[x] += 1
            return
        verdict, f = check_pair(bare, explicit, meta)
        if verdict == "discard":
            st.discards += 1
            return
        st.case(bare, nontrivial, ["equiv"] + labels, sample={"bare": bare, "explicit": explicit} if nontrivial else None,
                max_per_label=1)
        if f is not None:
            st.fail(f)

    common.run_given(hs.randoms(use_true_random=False), body, seed, n)
    best = {}
    for f in st.failures:
        b = best.get(f.bucket)
        if b is None or len(f.case["bare"]) < len(b.case["bare"]):
            best[f.bucket] = f
    st.failures = list(best.values())
    return st


# ----------------------------------------------------------------------------------------
# part 2: termination / no internal exception

ALPHA = list("![]()$@&|;\\'\"#:\n\t {}<>=,.-*?~`^%") + ["a", "b", "ls", "echo", "if", "and", "or", "not", "in", "$(", "@(", "![", "$[", "!(", "${",
                                                        "&&", "||", "\\\n", "    ", "def f():\n", "for x in y:\n", "'''", '"""', "#c\n", "2>", "e>o",
                                                        "a>", ">>", "1", "x=1", "@$(", "f'", "p'", "r'", "with! x:\n", "f!(", "g`", "`"]
VALID = [
    "ls -l\n", "echo hi && echo there\n", "x = $(ls)\n", "if True:\n    ls -l\n", "for i in range(3):\n    echo @(i)\n",
    "echo 'a b' > out.txt\n", "cat f | grep x | wc -l\n", "![ls] and ![pwd]\n", "def f():\n    return $(echo 1)\n", "$X = 1\n",
    "echo $HOME ${'PATH'} @(1+1) @$(which ls)\n", "with open('f') as f:\n    cat @(f.name)\n", "ls \\\n  -l \\\n  -a\n",
    "echo \"\"\"multi\nline\"\"\"\n", "try:\n    ls\nexcept Exception:\n    pass\nfinally:\n    echo done\n", "echo a; echo b\n",
    "sleep 1 &\n", "echo! raw text here\n", "x = !(ls) ; print(x.rtn)\n", "cd ..  # comment\n", "git commit -m 'msg' --amend\n",
    "match x:\n    case 1:\n        ls\n", "class A:\n    def m(self):\n        ls -la | head\n", "aliases['x'] = 'ls'\n", "echo @(f'{x}')\n",
]


def parse_only(text, cpu_s=None):
    """-> None when fine (tree / None / SyntaxError), else (kind, detail)."""
    from vlib import session

    ex = session.get_execer()
    cpu_s = cpu_s or _state.get("cpu_bound", PARSE_CPU_S)
    signal.setitimer(signal.ITIMER_VIRTUAL, cpu_s, 2.0)
    try:
        try:
            ex.parse(text, ctx=set())
        except SyntaxError:
            return None
        except _Timeout:
            return ("hang", "Execer.parse did not return within %d CPU-seconds" % cpu_s)
        except RecursionError:
            return ("internal:RecursionError", "RecursionError")
        except BaseException as e:  # noqa: BLE001
            tb = traceback.extract_tb(e.__traceback__)
            frames = [f for f in tb if "/xonsh/" in f.filename]
            where = "%s:%s" % (os.path.basename(frames[-1].filename), frames[-1].name) if frames else "?"
            return ("internal:%s@%s" % (type(e).__name__, where), "%s: %s at %s" % (type(e).__name__, str(e)[:150], where))
    finally:
        signal.setitimer(signal.ITIMER_VIRTUAL, 0)
    return None


def classify_fuzz(text, kind):
    if kind.startswith("internal:AttributeError@base.py:_append_subproc_bang") and "!" in text:
        return "C03-F4"
    if kind.startswith("internal:TypeError@fstring_rules_llm.py:p_fstring_conversion") and "!" in text:
        return "C03-F7"
    if kind.startswith("internal:AssertionError@base.py:_set_error"):
        return "C03-F8"
    if kind.startswith("internal:AssertionError@base.py:_set_var_args") and "*" in text:
        return "C03-F9"
    if kind.startswith("internal:AssertionError@v310.py:p_complex_number") and ("+" in text or "-" in text):
        return "C03-F10"
    return None


def confirm_hang(text, st):
    """An input over the first bound is run again with the long one; only then is it a hang.  -> (kind, detail) / None"""
    if st.hist.get("hang-confirmed", 0) >= 1:
        # one confirmed hang per worker is reported; further candidates of the same run are not worth 300 CPU-s each
        st.hist["hang-candidates-after-a-confirmed-hang"] = st.hist.get("hang-candidates-after-a-confirmed-hang", 0) + 1
        return None
    if st.hist.get("hang-confirmations", 0) >= 3:
        st.inconclusive += 1
        st.hist["slow-unconfirmed"] = st.hist.get("slow-unconfirmed", 0) + 1
        return None
    st.hist["hang-confirmations"] = st.hist.get("hang-confirmations", 0) + 1
    t0 = time.process_time()
    r = parse_only(text, CONFIRM_CPU_S)
    if r is not None and r[0] == "hang":
        st.hist["hang-confirmed"] = st.hist.get("hang-confirmed", 0) + 1
        _state["cpu_bound"] = 10      # a hang is already being reported by this worker: do not spend a minute on every further one
        return r
    st.inconclusive += 1
    st.hist["slow-but-terminates"] = st.hist.get("slow-but-terminates", 0) + 1
    if len(st.notes) < 3:
        st.notes.append("slow but terminating input (%.0f CPU-s): %r" % (time.process_time() - t0, text))
    return r


def worker_fuzz(arg):
    seed, n, scratch = arg
    from hypothesis import strategies as hs

    _setup(scratch)
    from vlib import pyoracle, session

    fresh_session()          # Execer.parse consults the loaded session (XSH.execer) in its recovery helpers
    os.chdir(common.VERIF)
    st = Stats()
    frag = hs.sampled_from(ALPHA)
    texts = hs.one_of(
        hs.lists(frag, min_size=1, max_size=14).map("".join),
        hs.tuples(hs.sampled_from(VALID), hs.integers(0, 200)).map(lambda t: t[0][:t[1] % (len(t[0]) + 1)]),
        hs.tuples(hs.sampled_from(VALID), hs.sampled_from(VALID), hs.integers(0, 200), hs.integers(0, 200)).map(
            lambda t: t[0][:t[2] % (len(t[0]) + 1)] + t[1][t[3] % (len(t[1]) + 1):]),
        hs.tuples(hs.sampled_from(VALID), hs.lists(frag, min_size=1, max_size=4).map("".join), hs.integers(0, 200)).map(
            lambda t: t[0][:t[2] % (len(t[0]) + 1)] + t[1] + t[0][t[2] % (len(t[0]) + 1):]),
    )

    def body(text):
        if "\x00" in text:
            return
        first_fails = False
        try:
            pyoracle.get_parser().parse(text if text.endswith("\n") else text + "\n")
        except SyntaxError:
            first_fails = True
        except Exception:  # noqa: BLE001
            first_fails = True
        r = parse_only(text)
        if r is not None and r[0] == "hang":
            r = confirm_hang(text, st)
        st.case(text, first_fails, ["fuzz", "fuzz:recovery" if first_fails else "fuzz:direct"],
                sample={"text": text} if first_fails else None, max_per_label=2)
        if r is not None:
            kind, detail = r
            st.fail(Failure(kind.split("@")[0].split(":")[0] if kind == "hang" else "internal-exception", {"text": text}, detail,
                            finding=classify_fuzz(text, kind), bucket=kind))

    common.run_given(texts, body, seed, n)
    best = {}
    for f in st.failures:
        b = best.get(f.bucket)
        if b is None or len(f.case["text"]) < len(b.case["text"]):
            best[f.bucket] = f
    out = []
    for f in best.values():
        out.append(_shrink_text(f))
    st.failures = out
    return st


def _shrink_text(f):
    """ddmin on characters keeping the same bucket."""
    text = f.case["text"]
    bucket = f.bucket
    if bucket == "hang":
        return f          # every probe would cost the whole bound
    changed = True
    steps = 0
    while changed and steps < 300:
        changed = False
        n = len(text)
        chunk = max(1, n // 2)
        while chunk >= 1:
            i = 0
            while i < len(text):
                cand = text[:i] + text[i + chunk:]
                steps += 1
                if steps > 300:
                    break
                r = parse_only(cand) if cand else None
                if r is not None and r[0] == bucket:
                    text = cand
                    changed = True
                else:
                    i += chunk
            chunk //= 2
    r = parse_only(text)
    if r is None or r[0] != bucket:
        return f
    return Failure(f.kind, {"text": text}, r[1], finding=classify_fuzz(text, r[0]), bucket=bucket)


def atheris_campaign(run):
    """Coverage-guided children (vlib/c03_atheris.py); every saved failing input is re-checked here, without atheris."""
    import subprocess

    nchild, runs, max_len = (4, 4000, 48) if run.tier == "quick" else (16, 150000, 96)
    nchild = min(nchild, int(os.environ.get("VERIF_PROCS", "16")))
    env = dict(os.environ, PYTHONPATH=os.pathsep.join([common.VERIF, os.path.join(common.VERIF, ".deps")]), PYTHONHASHSEED="0")
    probe = subprocess.run([sys.executable, "-c", "import atheris"], env=env, capture_output=True, text=True)
    if probe.returncode != 0:
        run.stats.notes.append("atheris is not importable here (setup.sh installs it into .deps): coverage-guided family skipped")
        return
    procs = []
    for i in range(nchild):
        sc = os.path.join(run.scratch, "ath%d" % i)
        os.makedirs(sc, exist_ok=True)
        out = os.path.join(sc, "out.json")
        seeds = VALID if i % 2 else []          # half of the campaigns start from an empty corpus
        procs.append((out, subprocess.Popen([sys.executable, "-m", "vlib.c03_atheris", out, str(runs), str(common.worker_seed(run.seed, 80 + i) % 2**31),
                                             str(max_len), sc] + seeds, cwd=common.VERIF, env=env, stdout=subprocess.DEVNULL,
                                            stderr=open(os.path.join(sc, "stderr.txt"), "w"))))
    st = run.stats
    fresh_session()
    best = {}
    for out, p in procs:
        p.wait()
        try:
            with open(out) as f:
                d = json.load(f)
        except (OSError, ValueError):
            raise common.HarnessError("atheris child left no result file (exit %s)" % p.returncode)
        if d["executions"] < runs // 2:
            with open(os.path.join(os.path.dirname(out), "stderr.txt")) as f:
                tail = f.read()[-600:]
            raise common.HarnessError("atheris child stopped after %d of %d executions (exit %s): %s" % (d["executions"], runs, p.returncode, tail))
        st.evaluations += d["executions"]
        st.nontrivial.update(d["hashes"])
        st.hist["fuzz:coverage-guided"] += d["executions"]
        st.hist["fuzz:coverage-guided:recovery"] += d["recovery"]
        for s in d["samples"][:1]:
            lst = st.samples.setdefault("fuzz:coverage-guided", [])
            if len(lst) < 2:
                lst.append({"text": s})
        for kind, b in d["buckets"].items():
            if kind not in best or len(b["text"]) < len(best[kind]["text"]):
                best[kind] = b
    os.chdir(common.VERIF)
    for kind, b in best.items():
        text = b["text"]
        r = parse_only(text)
        if r is not None and r[0] == "hang":
            r = confirm_hang(text, st)
        if r is None:
            st.inconclusive += 1
            st.notes.append("coverage-guided bucket %s did not reproduce outside the fuzzer: %r" % (kind, text[:80]))
            continue
        f = Failure("hang" if r[0] == "hang" else "internal-exception", {"text": text}, r[1], finding=classify_fuzz(text, r[0]), bucket=r[0])
        st.fail(_shrink_text(f))


# ----------------------------------------------------------------------------------------


_TIER = "quick"


def _replay_case(case):
    if case.get("thorough_only") and _TIER != "thorough":
        return None
    if "text" in case:
        fresh_session()
        r = parse_only(case["text"])
        if r is not None and r[0] == "hang":
            r = parse_only(case["text"], CONFIRM_CPU_S)
        if r is None:
            return None
        return Failure("hang" if r[0] == "hang" else "internal-exception", case, r[1], finding=classify_fuzz(case["text"], r[0]), bucket=r[0])
    verdict, f = check_pair(case["bare"], case["explicit"], case.get("meta"))
    return f


def main(run):
    global _TIER
    _TIER = run.tier
    _setup(run.scratch)
    common.replay_tier(run, _replay_case)
    os.chdir(common.VERIF)
    nw = 16
    per = run.n(700, 25000)
    common.pool_map(run, __name__, "worker_equiv", [(common.worker_seed(run.seed, w), per, run.scratch) for w in range(nw)])
    perf = run.n(2500, 120000)
    common.pool_map(run, __name__, "worker_fuzz", [(common.worker_seed(run.seed, 40 + w), perf, run.scratch) for w in range(nw)])
    _setup(run.scratch)
    atheris_campaign(run)
    run.assumptions += [
        "command names are aliases that exist only in the alias table (never bound as Python names)",
        "a case whose explicit ![..] twin is itself a SyntaxError is a generator discard",
        "'terminates' = Execer.parse returns within %d CPU-seconds (typical cost < 50 ms; the slowest input seen, 60 characters, needs 9 s)" % PARSE_CPU_S,
    ]


def replay(run, path):
    with open(path) as f:
        d = json.load(f)
    case = d.get("case", d)
    _setup(run.scratch)
    fail = _replay_case(case)
    if fail is None:
        print("replay: property holds on this case")
        return 0
    print("VIOLATION property=%s replay=%s kind=%s %s" % (PROP, path, fail.kind, fail.detail))
    return 1

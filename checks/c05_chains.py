"""C05 - chains, exit codes and fail-fast follow the documented truth table.

Generator : a chain shape (tree of && / || / and / or / not / parentheses over 1-6 leaves), every leaf a
            pipeline of 1-3 stages with a prescribed exit code per stage (0, 1, 2, 127, 255), a capture
            form per leaf (bare, ![ ], $[ ], $( ), !( ), a command that takes an @$( ) argument), optional
            @error_raise / @error_ignore on any stage, leaf text that is / is not also valid Python
            (`r1 -k0a`, `r0 /k0a`  vs  `r1 k0a`, `r0 1 k0a` - the two take different parse paths), the
            statement kind around the chain (expression statement, assignment, `if` test, body of a
            `for`, body of a `def`), 0-2 following statements that log, and the two raise flags in
            {T,F}^2.  Stages are recording callable aliases `r<code>` / `e<code>` (the e-variant writes a
            word to its stdout, which decides the truth value of `$( )`); a 10 % slice uses the external
            helper `vexit N`; in a quarter of the cases stages may be commands that cannot be started at
            all: a name that is nowhere on the (controlled) $PATH, a 0644 file in a $PATH directory, a 0644
            file named by absolute path - at any stage, leaf position, capture form, and inside @$( ).
            The product space of small chains is enumerated (<= 2 leaves quick,
            <= 3 leaves thorough); larger shapes, pipelines, decorators and statement kinds are drawn by
            Hypothesis.  A process tier runs sampled programs with `python -m xonsh --no-rc` both as
            `-c` text and as a script file.
Oracle    : a reference interpreter written from docs/error_handling.rst, docs/tutorial.rst and
            docs/subprocess.rst (not from the code).  Short-circuit evaluation, left to right; the truth
            value of an operand is what the documentation says the form returns: bare / ![ ] / !( ) ->
            pipeline object, true iff the exit code of its last stage is 0; $( ) -> captured text (true
            iff non-empty); $[ ] -> None (false).  After the statement CalledProcessError iff
            $XONSH_SUBPROC_RAISE_ERROR and the last pipeline that ran failed, unless it is !( ) or its
            last stage is @error_ignore'd; @error_raise raises at its command regardless of flags and
            position; with $XONSH_SUBPROC_CMD_RAISE_ERROR a failing command raises at once; a nested
            @$( ) is a chain of its own; a command that cannot be started is a failing command with
            some non-zero exit status; once a statement raises nothing later runs.  Where the
            documentation is silent or contradicts itself the model forks and both outcomes are accepted
            (see `assumptions`).  Compared: ordered log of the commands that ran (stages of one pipeline
            as a set), exception presence / returncode / raising command, which later statements ran;
            process tier: the same log, plus exit status (non-zero iff the model raises, `exit N` => N,
            nothing failed => 0) and no marker on stdout after the raising statement.
"""

from __future__ import annotations

import io
import itertools
import json
import os
import re
import signal
import subprocess
import sys

from vlib import common, helpers
from vlib.common import Failure, Stats

PROP = "C05"
LEVEL = "exploration"
RULE = ("chain tree (and/or/not/parentheses, 1-6 leaves) x pipeline of 1-3 stages per leaf x exit code per stage x "
        "capture form per leaf x decorators x lexical class x startable/not-found/non-executable stages x statement kind x following statements x the two raise "
        "flags; small chains enumerated completely, the rest drawn by Hypothesis; non-trivial = some stage fails and "
        "(>= 2 leaves or a form other than bare or a decorator); distinct = hash of (tree with codes, forms, "
        "decorators, classes; statement kind; flags)")

CODES = [0, 1, 2, 127, 255]
FORMS = ["bare", "hid", "unc", "out", "obj", "inject"]
KINDS = ["expr", "assign", "if", "for", "def"]
F1 = "C05-F1"

_state = {}


class _Timeout(Exception):
    pass


def _alarm(signum, frame):
    raise _Timeout()


# ----------------------------------------------------------------------------------------
# case structure helpers
#
# node  := {"t": "and"|"or", "sym": bool, "c": [node, ...]}      a && b / a and b
#        | {"t": "not", "c": node}
#        | {"t": "grp", "c": node}                                 ( ... ) around an and/or node
#        | {"t": "leaf", "form": FORM, "cls": "py"|"np", "pfx": 0|1,
#           "stages": [{"code": int, "deco": None|"raise"|"ignore", "ext": bool, "emit": bool}, ...],
#           "inner": None | {"code": int, "deco": ..., "emit": bool},    (form == "inject")
#           "wrap": "bare"|"hid"}                                         (form == "inject": the outer command)
# case  := {"flags": [RAISE_ERROR, CMD_RAISE_ERROR], "kind": KIND, "tree": node, "after": ["py"|"cmd", ...],
#           "exit": None | int, "tier": "inproc"|"process"}


def iter_leaves(node):
    t = node["t"]
    if t == "leaf":
        yield node
    elif t in ("not", "grp"):
        yield from iter_leaves(node["c"])
    else:
        for c in node["c"]:
            yield from iter_leaves(c)


def leaf_index(tree):
    return {id(lf): i for i, lf in enumerate(iter_leaves(tree))}


def stage_id(i, j):
    return "k%d%s" % (i, "abc"[j])


def inner_id(i):
    return "j%da" % i


def _arg(leaf, ident):
    if leaf["cls"] == "py":
        return ("-", "/")[leaf.get("pfx", 0)] + ident
    return ("", "1 ")[leaf.get("pfx", 0)] + ident


def _deco(d):
    return {"raise": "@error_raise ", "ignore": "@error_ignore ", None: ""}[d]


NF_NAME = "nfcmd5x"          # exists nowhere on the (controlled) $PATH: "command not found"
NX_NAME = "noexecp5x"        # a 0644 file in a $PATH directory: "permission denied" when xonsh tries to start it
NX_FILE = "noexecf5x"        # a 0644 file named by its absolute path


def _sf_word(kind):
    if kind == "nf":
        return NF_NAME
    if kind == "perm":
        return NX_NAME
    if kind == "path":
        d = _state.get("nxdir")
        if d is None:
            raise common.HarnessError("non-executable helper file not set up")
        return os.path.join(d, NX_FILE)
    raise common.HarnessError("bad spawn-failure kind %r" % (kind,))


def render_leaf(leaf, i):
    parts = []
    for j, s in enumerate(leaf["stages"]):
        if s.get("sf"):
            cmd = _sf_word(s["sf"])
        elif s.get("ext"):
            cmd = "vexit %d" % s["code"]
        else:
            cmd = "%s%d" % ("e" if s.get("emit") else "r", s["code"])
        if leaf["form"] == "inject" and j == 0:
            inn = leaf["inner"]
            iname = _sf_word(inn["sf"]) if inn.get("sf") else "%s%d" % ("e" if inn.get("emit") else "r", inn["code"])
            cmd += " @$(%s%s %s)" % (_deco(inn.get("deco")), iname, _arg(leaf, inner_id(i)))
        if s.get("ext"):
            cmd += " " + stage_id(i, j)
        else:
            cmd += " " + _arg(leaf, stage_id(i, j))
        parts.append(_deco(s.get("deco")) + cmd)
    text = " | ".join(parts)
    form = leaf["form"]
    if form == "inject":
        form = leaf.get("wrap", "bare")
    return {"bare": "%s", "hid": "![%s]", "unc": "$[%s]", "out": "$(%s)", "obj": "!(%s)"}[form] % text


def render_node(node, idx):
    t = node["t"]
    if t == "leaf":
        return render_leaf(node, idx[id(node)])
    if t == "not":
        return "not " + render_node(node["c"], idx)
    if t == "grp":
        return "(" + render_node(node["c"], idx) + ")"
    if node.get("sym", True):
        op = " && " if t == "and" else " || "
    else:
        op = " and " if t == "and" else " or "
    return op.join(render_node(c, idx) for c in node["c"])


def render_body(case):
    """The statements of the case (without prelude), as source text."""
    chain = render_node(case["tree"], leaf_index(case["tree"]))
    kind = case["kind"]
    if kind == "expr":
        lines = [chain]
    elif kind == "assign":
        lines = ["x = " + chain]
    elif kind == "if":
        lines = ["if " + chain + ":", "    mark('T')", "else:", "    mark('F')"]
    elif kind == "for":
        lines = ["for _i in range(2):", "    " + chain, "    mark('in')"]
    elif kind == "def":
        lines = ["def f():", "    " + chain, "    mark('in')", "f()"]
    else:
        raise common.HarnessError("bad kind %r" % (kind,))
    for n, a in enumerate(case.get("after", [])):
        lines.append("mark('A%d')" % n if a == "py" else "say A%d" % n)
    if case.get("exit") is not None:
        lines.append("exit %d" % case["exit"])
    return "\n".join(lines) + "\n"


# ----------------------------------------------------------------------------------------
# reference interpreter (from the documentation)


class _Raise(Exception):
    """rc: int, or "nz" (any non-zero: a command that could not be started); ident: stage id or leaf prefix;
    typ: "cpe" CalledProcessError | "hard" XonshError (refusal to build the pipeline)."""

    def __init__(self, rc, ident, typ="cpe"):
        Exception.__init__(self, rc, ident, typ)
        self.rc, self.ident, self.typ = rc, ident, typ


class _Chooser:
    """Resolves the points where the documentation allows two behaviours; all() enumerates them."""

    def __init__(self, prefix):
        self.prefix = prefix
        self.made = []

    def __call__(self, why):
        i = len(self.made)
        v = self.prefix[i] if i < len(self.prefix) else 0
        self.made.append(v)
        return v


def _marked(leaf):
    """Predicate of finding C05-F1 only (not part of the oracle): the operand text is not also a Python
    expression, so the grammar (not the phase-2 re-wrap) builds the call and tags it as a chain operand."""
    if leaf["form"] != "bare" or leaf["cls"] != "py":
        return True
    return any(s.get("deco") or s.get("ext") or s.get("sf") == "path" for s in leaf["stages"])


def model_once(case, ch, f1=False):
    R, C = case["flags"]
    tree = case["tree"]
    idx = leaf_index(tree)
    log = []
    floating = set()
    used_f1 = [False]

    def eval_leaf(leaf, consumed, parent):
        i = idx[id(leaf)]
        form = leaf["form"]
        under_not = parent == "not"
        in_chain = parent in ("and", "or")
        if form == "inject":
            # the @$( ) argument is evaluated before the command that takes it runs; it is a chain of its own
            inn = leaf["inner"]
            if not inn.get("sf"):
                log.append(inner_id(i))
            irc = "nz" if inn.get("sf") else inn["code"]
            if irc != 0 and inn.get("deco") != "ignore":
                if inn.get("deco") == "raise" or C or R:
                    raise _Raise(irc, inner_id(i))
        stages = leaf["stages"]
        sfs = [j for j, s in enumerate(stages) if s.get("sf")]
        if any(stages[j]["sf"] == "path" for j in sfs):
            # a non-executable file named by path: the documentation does not say whether that is a failing
            # command (subject to the flags) or a refusal to run the line at all
            if ch("noexec-by-path-is-hard-error"):
                raise _Raise(None, "k%d" % i, "hard")
        if sfs:
            # which of the *other* stages of a pipeline get to run when one cannot be started is not documented
            floating.add(i)
        for j, s in enumerate(stages):
            if not s.get("ext") and not s.get("sf"):           # the external helper `vexit` does not log
                log.append(stage_id(i, j))
        last = stages[-1]
        if last.get("sf"):
            rc = "nz"                       # could not be started: failed, exit status some non-zero value
        elif sfs and ch("unstartable-stage-fails-pipeline"):
            rc = "nz"                       # (else: "a pipeline's code is its last stage's")
        else:
            rc = last["code"]
        ident = ("k%d" % i) if sfs else stage_id(i, len(stages) - 1)
        res = {"rc": rc, "form": form, "ignored": last.get("deco") == "ignore", "ident": ident, "via_not": False}
        if form == "out":
            res["truth"] = bool(last.get("emit")) and not last.get("ext") and not sfs
        elif form == "unc":
            res["truth"] = False
        else:
            res["truth"] = rc == 0
        if form == "obj" and not consumed:
            # !( ) does not block (docs/subprocess.rst); nothing in the statement asks for its result, so
            # whether it is waited for - and with it any raise - is left open
            if not ch("obj-forced"):
                floating.add(i)
                return res
        # a failing stage that is not the last one: "command" may be read as pipeline or as stage
        for j, s in enumerate(stages[:-1]):
            src = "nz" if s.get("sf") else s["code"]
            if src != 0 and s.get("deco") != "ignore" and (s.get("deco") == "raise" or C):
                if ch("nonfinal-stage"):
                    raise _Raise(src, ("k%d" % i) if sfs else stage_id(i, j))
        if rc != 0 and not res["ignored"]:
            if last.get("deco") == "raise":
                raise _Raise(rc, ident)
            if C:
                if f1 and in_chain and _marked(leaf):
                    used_f1[0] = True
                elif form == "obj":
                    # "!( ) is the only exemption" vs "any non-zero exit is fatal": both stated
                    if ch("cmd-flag-vs-obj"):
                        raise _Raise(rc, ident)
                else:
                    raise _Raise(rc, ident)
            elif under_not and R and form != "obj":
                # `not cmd` is not covered by the error-handling documentation
                if ch("under-not"):
                    raise _Raise(rc, ident)
        return res

    def eval_node(node, consumed, parent):
        t = node["t"]
        if t == "leaf":
            return eval_leaf(node, consumed, parent)
        if t == "grp":
            return eval_node(node["c"], consumed, parent)
        if t == "not":
            r = dict(eval_node(node["c"], True, "not"))
            r["truth"] = not r["truth"]
            r["via_not"] = True
            return r
        n = len(node["c"])
        for k, c in enumerate(node["c"]):
            lastc = k == n - 1
            r = eval_node(c, consumed if lastc else True, t)
            if lastc or (t == "and" and not r["truth"]) or (t == "or" and r["truth"]):
                return r
        raise common.HarnessError("empty and/or node")

    def root_leaf():
        n = tree
        while n["t"] == "grp":
            n = n["c"]
        return n if n["t"] == "leaf" else None

    def run_chain():
        kind = case["kind"]
        r = eval_node(tree, kind == "if", None)
        if R and r["rc"] != 0 and r["form"] != "obj" and not r["ignored"]:
            rl = root_leaf()
            ambiguous = r["via_not"] or (kind == "if" and rl is not None and rl["form"] in ("bare", "hid", "inject"))
            # `if ![cmd]:` - error_handling.rst: every form but !( ) raises; subprocess.rst shows the else
            # branch being taken
            if not ambiguous or ch("statement-level"):
                raise _Raise(r["rc"], r["ident"])
        return r["truth"]

    exc = None
    exit_code = None
    try:
        kind = case["kind"]
        if kind in ("expr", "assign"):
            run_chain()
        elif kind == "if":
            log.append("M:T" if run_chain() else "M:F")
        elif kind == "for":
            for _ in range(2):
                run_chain()
                log.append("M:in")
        elif kind == "def":
            run_chain()
            log.append("M:in")
        for n, _a in enumerate(case.get("after", [])):
            log.append("M:A%d" % n)
        if case.get("exit") is not None:
            exit_code = case["exit"]
    except _Raise as e:
        exc = (e.rc, e.ident, e.typ)
    return {"log": log, "floating": sorted(floating), "exc": exc, "exit": exit_code, "f1": used_f1[0]}


def all_outcomes(case, f1=False):
    out = []
    seen = set()
    stack = [[]]
    while stack:
        prefix = stack.pop()
        ch = _Chooser(prefix)
        o = model_once(case, ch, f1=f1)
        for k in range(len(prefix), len(ch.made)):
            stack.append(ch.made[:k] + [1])
        key = json.dumps(o, sort_keys=True)
        if key not in seen:
            seen.add(key)
            out.append(o)
        if len(out) > 4096:
            raise common.HarnessError("model fork explosion")
    return out


_ID = re.compile(r"^[-/]?([kj])(\d)([abc])$")


def canon_log(entries, floating=()):
    """Entries are stage ids ('k0a', 'j1a') and marks ('M:..').  The stages of one pipeline run
    concurrently: consecutive entries of the same leaf are compared as a sorted group.  Entries of
    `floating` leaves (a !( ) nobody waits for) are dropped."""
    out = []
    run_key, run = None, []
    for e in entries:
        m = _ID.match(e)
        if m is None:
            if run:
                out.append(tuple(sorted(run)))
                run_key, run = None, []
            out.append(e)
            continue
        if m.group(1) == "k" and int(m.group(2)) in floating:
            continue
        key = (m.group(1), m.group(2))
        if key != run_key and run:
            out.append(tuple(sorted(run)))
            run = []
        run_key = key
        run.append(e)
    if run:
        out.append(tuple(sorted(run)))
    return out


def match(o, obs):
    """obs = {"log": [...], "exc": None | (type, rc, cmd-list)}"""
    fl = set(o["floating"])
    if canon_log(o["log"], fl) != canon_log(obs["log"], fl):
        return False
    if o["exc"] is None:
        return obs["exc"] is None
    if obs["exc"] is None:
        return False
    typ, rc, cmd = obs["exc"]
    wrc, wident, wtyp = o["exc"]
    if wtyp == "hard":
        return typ == "XonshError"
    if typ != "CalledProcessError":
        return False
    if wrc == "nz":
        if not isinstance(rc, int) or rc == 0:
            return False
    elif rc != wrc:
        return False
    if cmd is not None and not any((_strip(a) or "").startswith(wident) for a in cmd):
        return False
    return True


def _strip(a):
    m = _ID.match(a) if isinstance(a, str) else None
    return m.group(1) + m.group(2) + m.group(3) if m else None


def describe(o):
    return "log=%s%s exc=%s" % (canon_log(o["log"], set(o["floating"])),
                                (" (unordered: leaf %s)" % o["floating"]) if o["floating"] else "", o["exc"])


def judge(case, obs, open_ids):
    """-> (verdict, detail) with verdict in ok | F1 | bad."""
    strict = all_outcomes(case)
    for o in strict:
        if match(o, obs):
            return "ok", ""
    if case["flags"][1]:
        for o in all_outcomes(case, f1=True):
            if o["f1"] and match(o, obs):
                return F1, ("$XONSH_SUBPROC_CMD_RAISE_ERROR=True did not raise at a failing chain operand whose text is "
                            "not also a Python expression; observed log=%s exc=%s, documented %s"
                            % (canon_log(obs["log"]), obs["exc"], describe(strict[0])))
    return "bad", "observed log=%s exc=%s; reference accepts: %s" % (
        canon_log(obs["log"]), obs["exc"], " | ".join(describe(o) for o in strict[:4]))


# ----------------------------------------------------------------------------------------
# in-process execution


def make_nxdir(scratch):
    """Directory (put on $PATH) with the two non-executable files."""
    d = os.path.join(scratch, "c05nx")
    os.makedirs(d, exist_ok=True)
    for n in (NX_NAME, NX_FILE):
        f = os.path.join(d, n)
        if not os.path.exists(f):
            with open(f, "w") as fh:
                fh.write("#!/bin/sh\nexit 0\n")
        os.chmod(f, 0o644)
    _state["nxdir"] = d
    return d


def check_names(path):
    """The not-found name must really be absent and the non-executable one must not be shadowed."""
    import shutil

    p = os.pathsep.join(path)
    for n in (NF_NAME, NX_NAME):
        hit = shutil.which(n, path=p)
        if hit is not None:
            raise common.HarnessError("%s resolves to an executable (%s) on the controlled PATH" % (n, hit))
    if os.access(os.path.join(_state["nxdir"], NX_FILE), os.X_OK) and os.geteuid() != 0:
        raise common.HarnessError("helper file is executable")
    if not shutil.which("vexit", path=p):
        raise common.HarnessError("vexit helper not on the controlled PATH")


def _setup(scratch, quiet_fd2=False):
    if _state:
        return _state
    from vlib import session

    helpers.ensure()
    nxdir = make_nxdir(scratch)
    path = [helpers.BIN, nxdir, "/usr/bin", "/bin"]
    check_names(path)
    XSH = session.load_session(scratch, path=path)
    _state["log"] = []

    def mk(code, emit):
        def alias(args, stdin=None, stdout=None, stderr=None):
            ident = None
            for a in args:
                ident = _strip(a) or ident
            _state["log"].append(ident or ("?" + " ".join(args)))
            if ident and ident[-1] != "a" and stdin is not None:
                # a later stage of a pipeline behaves like a filter: it consumes its input to the end
                # (a stage that returns before its upstream has even started trips races in the pipeline
                # plumbing that belong to C06/C09, not to this property)
                try:
                    stdin.read()
                except Exception:  # noqa: BLE001
                    pass
            if emit and stdout is not None:
                stdout.write("zqw5\n")
            return code

        alias.__name__ = "%s%d" % ("e" if emit else "r", code)
        return alias

    for c in CODES:
        XSH.aliases["r%d" % c] = mk(c, False)
        XSH.aliases["e%d" % c] = mk(c, True)

    def say(args, stdin=None, stdout=None, stderr=None):
        _state["log"].append("M:" + " ".join(args))
        return 0

    XSH.aliases["say"] = say
    _state["mark"] = lambda s: _state["log"].append("M:" + str(s))
    _state.update(XSH=XSH, session=session)
    _state["open"] = {e["id"] for e in common.load_known(PROP) if e.get("status") == "open"}
    signal.signal(signal.SIGALRM, _alarm)
    if quiet_fd2:
        # helper threads of failing aliases may print to fd 2
        os.dup2(os.open(os.devnull, os.O_WRONLY), 2)
    return _state


def run_inproc(case):
    """-> obs dict, or ('syntax', msg) / ('hang', msg)."""
    st = _state
    XSH, session = st["XSH"], st["session"]
    src = render_body(case)
    st["log"] = log = []
    XSH.env["XONSH_SUBPROC_RAISE_ERROR"] = bool(case["flags"][0])
    XSH.env["XONSH_SUBPROC_CMD_RAISE_ERROR"] = bool(case["flags"][1])
    XSH.ctx.clear()
    XSH.ctx["mark"] = st["mark"]
    XSH.lastcmd = None
    XSH.exit = None
    old_err, old_out = sys.stderr, sys.stdout
    sys.stderr = io.StringIO()
    sys.stdout = io.StringIO()
    exc = None
    signal.alarm(30)
    try:
        try:
            session.xexec(src)
        except _Timeout:
            return ("hang", "no result within 30 s")
        except SyntaxError as e:
            if not log:
                return ("syntax", str(e)[:160])
            exc = e
        except BaseException as e:  # noqa: BLE001
            exc = e
    finally:
        signal.alarm(0)
        sys.stderr, sys.stdout = old_err, old_out
    # a !( ) nobody waited for has its alias threads already started: let them finish (and log) before
    # the log is read, so that nothing leaks into the next case
    import threading

    for t in threading.enumerate():
        if type(t).__name__ == "ProcProxyThread" and t.is_alive():
            t.join(2.0)
    eo = None
    if exc is not None:
        cmd = getattr(exc, "cmd", None)
        eo = (type(exc).__name__, getattr(exc, "returncode", None),
              [str(a) for a in cmd] if isinstance(cmd, (list, tuple)) else None)
        if eo[0] != "CalledProcessError":
            eo = (eo[0], str(exc)[:200], None)
    return {"log": list(log), "exc": eo}


def explicit_twin(case):
    """The same case with every bare command written as ![...] by hand."""
    import copy

    tw = copy.deepcopy(case)
    for lf in iter_leaves(tw["tree"]):
        if lf["form"] == "bare":
            lf["form"] = "hid"
        if lf["form"] == "inject":
            lf["wrap"] = "hid"
    return tw


def bare_detection_agrees(case):
    """Generator self-check, used when the oracle disagrees: does xonsh's bare-command detection build the
    same program as the hand-wrapped twin (modulo the in_boolop tag)?  If not, the disagreement is about
    which program the text *is* (property C03), not about chain semantics, and the case is skipped."""
    import ast
    import builtins

    if not any(lf["form"] == "bare" or (lf["form"] == "inject" and lf.get("wrap") == "bare")
               for lf in iter_leaves(case["tree"])):
        return True
    ex = _state["session"].get_execer()
    names = set(dir(builtins)) | {"mark"}

    def dump(c):
        tree = ex.parse(render_body(c), set(names))
        for node in ast.walk(tree):
            if isinstance(node, ast.Call):
                node.keywords = [k for k in node.keywords if k.arg != "in_boolop"]
        return ast.dump(tree, include_attributes=False)

    try:
        return dump(case) == dump(explicit_twin(case))
    except SyntaxError:
        return False


def labels_of(case):
    leaves = list(iter_leaves(case["tree"]))
    labs = ["kind:" + case["kind"], "leaves:%d" % len(leaves),
            "flags:R%dC%d" % (int(case["flags"][0]), int(case["flags"][1]))]
    for lf in leaves:
        labs.append("form:" + lf["form"])
        labs.append("class:" + lf["cls"])
        labs.append("stages:%d" % len(lf["stages"]))
        for s in lf["stages"]:
            if s.get("deco"):
                labs.append("deco:" + s["deco"])
            if s.get("ext"):
                labs.append("external-stage")
            if s.get("sf"):
                labs.append("cannot-start:" + s["sf"])
        if lf.get("inner") and lf["inner"].get("sf"):
            labs.append("cannot-start:inner-" + lf["inner"]["sf"])
    txt = json.dumps(case["tree"])
    if '"not"' in txt:
        labs.append("has-not")
    if '"grp"' in txt:
        labs.append("has-parens")
    return sorted(set(labs))


def any_failure(case):
    leaves = list(iter_leaves(case["tree"]))
    return any(s["code"] != 0 or s.get("sf") for lf in leaves for s in lf["stages"]) or \
        any(lf.get("inner") and (lf["inner"]["code"] != 0 or lf["inner"].get("sf"))
            for lf in leaves if lf["form"] == "inject")


def nontrivial(case):
    leaves = list(iter_leaves(case["tree"]))
    fails = any_failure(case)
    rich = len(leaves) >= 2 or any(lf["form"] != "bare" for lf in leaves) or \
        any(s.get("deco") for lf in leaves for s in lf["stages"])
    return fails and rich


def case_key(case):
    return json.dumps([case["tree"], case["kind"], case["flags"]], sort_keys=True)


def check_case(case, stats=None):
    """-> (Failure | None, status) ; status in ok | skip-syntax | inconclusive | fail | known."""
    if case.get("tier") == "process":
        return check_process_case(case, stats)
    obs = run_inproc(case)
    if isinstance(obs, tuple):
        if obs[0] == "syntax":
            return None, "skip-syntax"
        return None, "inconclusive"
    verdict, detail = judge(case, obs, _state.get("open", ()))
    if verdict == "ok":
        return None, "ok"
    src = render_body(case)
    if not bare_detection_agrees(case):
        return None, "skip-bare"
    if verdict == "bad":
        # a violation must be replayable: run the same case twice more.  (Seen once in 590 000 cases on a
        # machine at load 80: xonsh read returncode None from an external last stage that had closed its
        # stdout but was not yet reapable, and took it for success.)
        for _ in range(2):
            again = run_inproc(case)
            if isinstance(again, tuple) or judge(case, again, ())[0] != "bad":
                _state.setdefault("flaky", []).append("%r flags=%s: %s" % (src, case["flags"], detail))
                return None, "flaky"
    if verdict == F1:
        return Failure("cmd-raise-skipped-in-chain", case, "%r: %s" % (src, detail), finding=F1), "known"
    kind = "outcome-differs"
    if obs["exc"] is not None and obs["exc"][0] != "CalledProcessError":
        kind = "unexpected-exception"
    return Failure(kind, case, "%r flags(RAISE,CMD)=%s: %s" % (src, case["flags"], detail),
                   bucket=bucket_of(case, obs, kind)), "fail"


def bucket_of(case, obs, kind):
    strict = all_outcomes(case)
    want = sorted({o["exc"] is not None for o in strict})
    got = obs["exc"] is not None
    what = "raise" if want != [got] and got not in want else "commands-run"
    return "%s:%s:reference-raises=%s:xonsh-raises=%s" % (kind, what, "/".join(str(w) for w in want), got)


# ----------------------------------------------------------------------------------------
# enumeration of the small product space


def leaf_variants(full=True):
    """Single-stage leaves of the enumerated sub-space.  full=False: the reduced set used for three leaves."""
    def lf(form, cls, code=0, emit=False, sf=None, inner=None):
        return {"t": "leaf", "form": form, "cls": cls, "pfx": 0, "inner": inner, "wrap": "bare",
                "stages": [{"code": code, "deco": None, "ext": False, "emit": emit, "sf": sf}]}

    out = []
    for form in ("bare", "hid", "unc", "out", "obj"):
        for code in (0, 1):
            for cls in ("py", "np"):
                out.append(lf(form, cls, code=code, emit=form == "out"))
    for oc, ic in ((0, 0), (1, 0), (0, 1)):
        for cls in ("py", "np"):
            out.append(lf("inject", cls, code=oc, inner={"code": ic, "deco": None, "emit": False, "sf": None}))
    # commands that cannot be started: name not on $PATH / non-executable file on $PATH
    out.append(lf("bare", "np", code=1, sf="nf"))
    out.append(lf("bare", "py", code=1, sf="nf"))
    out.append(lf("out", "np", code=1, sf="nf"))
    out.append(lf("obj", "np", code=1, sf="nf"))
    if full:
        out.append(lf("hid", "np", code=1, sf="nf"))
        out.append(lf("unc", "np", code=1, sf="nf"))
        out.append(lf("bare", "np", code=1, sf="perm"))
        out.append(lf("inject", "np", code=0, inner={"code": 1, "deco": None, "emit": False, "sf": "nf"}))
    return out


def small_shapes(nmax):
    """Tree builders over n leaves (n <= nmax): functions from a leaf list to a node."""
    def A(*c):
        return {"t": "and", "sym": True, "c": list(c)}

    def O(*c):
        return {"t": "or", "sym": True, "c": list(c)}

    def G(c):
        return {"t": "grp", "c": c}

    shapes = [(1, "a", lambda a: a)]
    if nmax >= 2:
        shapes += [(2, "a&&b", lambda a, b: A(a, b)), (2, "a||b", lambda a, b: O(a, b))]
    if nmax >= 3:
        shapes += [
            (3, "a&&b&&c", lambda a, b, c: A(a, b, c)),
            (3, "a||b||c", lambda a, b, c: O(a, b, c)),
            (3, "a&&b||c", lambda a, b, c: O(A(a, b), c)),
            (3, "a||b&&c", lambda a, b, c: O(a, A(b, c))),
            (3, "(a||b)&&c", lambda a, b, c: A(G(O(a, b)), c)),
            (3, "a&&(b||c)", lambda a, b, c: A(a, G(O(b, c)))),
        ]
    return shapes


def nested_both_cases():
    """Four leaves whose top-level operands are BOTH chains (`a && b || c && d`, `(a || b) && (c || d)`, word operators):
    only the outermost chain is checked for the exit code of the last command that ran - with no plain command among its
    operands.  Every assignment of exit codes {0, 1} x both lexical classes of leaf x 4 flag settings."""
    import copy

    def N(t, sym, *c):
        return {"t": t, "sym": sym, "c": list(c)}

    def G(c):
        return {"t": "grp", "c": c}

    builders = [
        ("a&&b||c&&d", lambda a, b, c, d: N("or", True, N("and", True, a, b), N("and", True, c, d))),
        ("a and b or c and d", lambda a, b, c, d: N("or", False, N("and", False, a, b), N("and", False, c, d))),
        ("(a||b)&&(c||d)", lambda a, b, c, d: N("and", True, G(N("or", True, a, b)), G(N("or", True, c, d)))),
        ("(a&&b)||(c&&d)", lambda a, b, c, d: N("or", True, G(N("and", True, a, b)), G(N("and", True, c, d)))),
    ]
    for name, build in builders:
        for cls in ("np", "py"):
            for codes in itertools.product((0, 1), repeat=4):
                for R in (True, False):
                    for C in (False, True):
                        leaves = [{"t": "leaf", "form": "bare", "cls": cls, "pfx": 0, "inner": None, "wrap": "bare",
                                   "stages": [{"code": c, "deco": None, "ext": False, "emit": False, "sf": None}]} for c in codes]
                        yield name, {"flags": [R, C], "kind": "expr", "tree": build(*copy.deepcopy(leaves)), "after": ["py"],
                                     "exit": None, "tier": "inproc"}


def exhaustive_cases(nmax):
    import copy

    for n, name, build in small_shapes(nmax):
        variants = leaf_variants(full=n <= 2)
        for combo in itertools.product(range(len(variants)), repeat=n):
            for R in (True, False):
                for C in (False, True):
                    leaves = [copy.deepcopy(variants[v]) for v in combo]
                    yield name, {"flags": [R, C], "kind": "expr", "tree": build(*leaves), "after": ["py"],
                                 "exit": None, "tier": "inproc"}


def _record(st, case, f, status, family, extra_labels=()):
    if status == "skip-syntax":
        st.hist["skipped:syntax-error (C03 domain)"] += 1
        return
    if status == "skip-bare":
        st.hist["skipped:bare-command-detection-differs-from-explicit-twin (C03 domain)"] += 1
        return
    if status == "flaky":
        st.inconclusive += 1
        st.hist["inconclusive:disagreement-not-reproducible"] += 1
        for note in _state.pop("flaky", [])[:3]:
            st.notes.append("not reproducible on immediate re-run: " + note[:600])
        return
    if status == "inconclusive":
        st.inconclusive += 1
        st.notes.append("no result within 30 s: %r flags=%s" % (render_body(case), case["flags"]))
        return
    nt = nontrivial(case)
    st.case(case_key(case), nt, [family] + list(extra_labels) + labels_of(case),
            sample={"src": render_body(case), "flags": case["flags"]} if nt else None, max_per_label=2)
    if status == "known":
        st.excluded_known[F1] += 1
        if not any(g.finding == F1 for g in st.failures):
            st.fail(f)
    elif f is not None:
        st.fail(f)


def worker_exhaustive(arg):
    shard, nshards, nmax, scratch = arg
    _setup(scratch, quiet_fd2=True)
    st = Stats()
    for i, (name, case) in enumerate(itertools.chain(exhaustive_cases(nmax), nested_both_cases())):
        if i % nshards != shard:
            continue
        f, status = check_case(case)
        _record(st, case, f, status, "enumerated", ["shape:" + name])
    st.failures = _one_per_bucket(st.failures)
    return st


def _size(case):
    return len(json.dumps(case))


def _one_per_bucket(failures):
    best = {}
    for f in failures:
        b = best.get(f.bucket)
        if b is None or _size(f.case) < _size(b.case):
            best[f.bucket] = f
    return list(best.values())


# ----------------------------------------------------------------------------------------
# generated cases


def case_strategy(process=False):
    from hypothesis import strategies as hs

    @hs.composite
    def cases(draw):
        kind = draw(hs.sampled_from(["expr", "expr", "expr", "assign", "if", "for", "def"]))
        n = draw(hs.sampled_from([1, 1, 2, 2, 2, 3, 3, 4, 5, 6]))
        use_ext = draw(hs.integers(0, 9)) == 0
        use_not = draw(hs.integers(0, 3)) == 0
        use_sf = draw(hs.integers(0, 3)) == 0          # commands that cannot be started
        explicit_only = kind in ("assign", "if")

        def stage(allow_emit):
            s = {"code": draw(hs.sampled_from([0, 0, 0, 1, 1, 2, 127, 255])),
                 "deco": draw(hs.sampled_from([None] * 8 + ["raise", "ignore"])),
                 "ext": bool(use_ext and draw(hs.integers(0, 2)) == 0),
                 "emit": False, "sf": None}
            if use_sf and draw(hs.integers(0, 2)) == 0:
                s["sf"] = draw(hs.sampled_from(["nf", "nf", "nf", "perm", "perm", "path"]))
                s["ext"] = False
                s["code"] = 1
            if allow_emit and not s["ext"] and not s["sf"]:
                s["emit"] = draw(hs.booleans())
            return s

        def leaf():
            forms = ["hid", "hid", "unc", "out", "obj", "inject"] if explicit_only else \
                ["bare", "bare", "bare", "hid", "unc", "out", "obj", "inject"]
            form = draw(hs.sampled_from(forms))
            ns = draw(hs.sampled_from([1, 1, 1, 1, 1, 1, 2, 2, 2, 3]))
            stages = [stage(form == "out" and j == ns - 1) for j in range(ns)]
            # external stages only upstream of alias stages: an alias stage in front of a `vexit` that exits
            # without reading may be torn down before its thread has run (pipeline plumbing, C06/C09)
            for j in range(1, ns):
                if stages[j]["ext"] and not stages[j - 1]["ext"]:
                    stages[j]["ext"] = False
            lf = {"t": "leaf", "form": form, "cls": draw(hs.sampled_from(["py", "np"])),
                  "pfx": draw(hs.integers(0, 1)), "stages": stages, "inner": None, "wrap": "bare"}
            if any(st_["sf"] for st_ in stages):
                stages[-1]["emit"] = False      # no output expected from a pipeline with an unstartable stage
            if form == "inject":
                stages[0]["ext"] = False
                lf["inner"] = {"code": draw(hs.sampled_from([0, 0, 1, 2])),
                               "deco": draw(hs.sampled_from([None] * 6 + ["raise", "ignore"])),
                               "emit": draw(hs.booleans()), "sf": None}
                if use_sf and draw(hs.integers(0, 3)) == 0:
                    lf["inner"].update(sf=draw(hs.sampled_from(["nf", "perm"])), code=1, emit=False)
                lf["wrap"] = "hid" if explicit_only else draw(hs.sampled_from(["bare", "hid"]))
            return lf

        def build(leaves, top):
            if len(leaves) == 1:
                node = leaves[0]
                if use_not and draw(hs.integers(0, 3)) == 0:
                    node = {"t": "not", "c": node}
                return node
            op = draw(hs.sampled_from(["and", "or"]))
            k = draw(hs.integers(2, min(len(leaves), 3)))
            cuts = sorted(draw(hs.lists(hs.integers(1, len(leaves) - 1), min_size=k - 1, max_size=k - 1,
                                        unique=True)))
            parts = [leaves[a:b] for a, b in zip([0] + cuts, cuts + [len(leaves)])]
            kids = []
            for p in parts:
                c = build(p, False)
                if c["t"] in ("and", "or"):
                    if c["t"] == op:
                        kids.extend(c["c"])          # same operator: flatten
                        continue
                    if op == "and" or draw(hs.integers(0, 2)) == 0:
                        c = {"t": "grp", "c": c}     # `or` under `and` needs the parentheses
                kids.append(c)
            node = {"t": op, "sym": draw(hs.booleans()), "c": kids}
            if use_not and not top and draw(hs.integers(0, 5)) == 0:
                node = {"t": "not", "c": {"t": "grp", "c": node}}
            return node

        leaves = [leaf() for _ in range(n)]
        if leaves[-1]["form"] == "obj" and kind != "if":
            # the value of the whole chain may be this !( ): nothing waits for it, and a downstream stage
            # blocked on its stdin would outlive the statement (pipeline plumbing, not this property)
            del leaves[-1]["stages"][1:]
        tree = build(leaves, True)
        case = {"flags": [draw(hs.booleans()), draw(hs.booleans())], "kind": kind, "tree": tree,
                "after": draw(hs.lists(hs.sampled_from(["py", "cmd"]), max_size=2)),
                "exit": None, "tier": "inproc"}
        if process:
            case["tier"] = "process"
            case["exit"] = draw(hs.sampled_from([None, None, 0, 3, 7]))
        return case

    return cases()


def worker_random(arg):
    seed, n, scratch = arg
    _setup(scratch, quiet_fd2=True)
    st = Stats()

    def body(case):
        f, status = check_case(case)
        _record(st, case, f, status, "generated")

    common.run_given(case_strategy(), body, seed, n)
    firsts = _one_per_bucket(st.failures)
    out = []
    for nb, f in enumerate(firsts):
        if (f.finding == F1 and F1 in _state.get("open", ())) or nb >= 3:
            out.append(f)
            continue

        def still(case, _f=f):
            g, _s = check_case(case)
            return g is not None and g.finding == _f.finding and (g.finding is not None or g.bucket == _f.bucket)

        m = common.minimize(case_strategy(), still, seed, min(n, 300), seconds=8)
        if m is not None:
            g, _s = check_case(m)
            if g is not None:
                f = g
        out.append(f)
    st.failures = out
    total = st.evaluations + st.hist.get("skipped:syntax-error (C03 domain)", 0)
    if total and st.hist.get("skipped:syntax-error (C03 domain)", 0) > 0.35 * total:
        raise common.HarnessError("more than 35 %% of the generated programs are rejected by the parser (%d of %d)"
                                  % (st.hist["skipped:syntax-error (C03 domain)"], total))
    return st


# ----------------------------------------------------------------------------------------
# process tier

PRELUDE = '''import os as _os
_fd = _os.open(%(log)r, _os.O_WRONLY | _os.O_APPEND | _os.O_CREAT, 0o644)
def _w(s):
    _os.write(_fd, (s + "\\n").encode())
def _mk(code, emit):
    def _a(args, stdin=None, stdout=None, stderr=None):
        _w("RUN " + " ".join(args))
        if args and args[-1][-1:] in "bc" and stdin is not None:
            try:
                stdin.read()
            except Exception:
                pass
        if emit and stdout is not None:
            stdout.write("zqw5\\n")
        return code
    return _a
for _c in (0, 1, 2, 127, 255):
    aliases["r%%d" %% _c] = _mk(_c, False)
    aliases["e%%d" %% _c] = _mk(_c, True)
del _c
def mark(s):
    _w("M:" + str(s))
    print("MARK " + str(s), flush=True)
def _say(args, stdin=None, stdout=None, stderr=None):
    mark(" ".join(args))
    return 0
aliases["say"] = _say
$XONSH_SUBPROC_RAISE_ERROR = %(R)s
$XONSH_SUBPROC_CMD_RAISE_ERROR = %(C)s
'''


def child_env(scratch):
    d = os.path.join(scratch, "child")
    path = [helpers.BIN, make_nxdir(scratch), "/usr/bin", "/bin"]
    if not _state.get("names-checked"):
        check_names(path)
        _state["names-checked"] = True
    env = {
        "PATH": os.pathsep.join(path),
        "PYTHONPATH": common.REPO,
        "HOME": os.path.join(d, "home"),
        "XDG_CONFIG_HOME": os.path.join(d, "xdg-config"),
        "XDG_DATA_HOME": os.path.join(d, "xdg-data"),
        "XDG_CACHE_HOME": os.path.join(d, "xdg-cache"),
        "XONSH_DATA_DIR": os.path.join(d, "xonsh-data"),
        "XONSH_CACHE_DIR": os.path.join(d, "xonsh-cache"),
        "LC_ALL": "C.UTF-8", "LANG": "C.UTF-8", "TERM": "dumb",
        "PYTHONHASHSEED": "0", "PYTHONWARNINGS": "ignore",
    }
    for k in ("HOME", "XDG_CONFIG_HOME", "XDG_DATA_HOME", "XDG_CACHE_HOME", "XONSH_DATA_DIR", "XONSH_CACHE_DIR"):
        os.makedirs(env[k], exist_ok=True)
    return env


def run_child(case, mode, scratch):
    """mode: 'c' | 'script' -> dict(status, log, marks) or ('hang', ..)"""
    _state["nchild"] = _state.get("nchild", 0) + 1
    base = os.path.join(scratch, "p%d-%d" % (os.getpid(), _state["nchild"]))
    logp = base + ".log"
    prog = PRELUDE % {"log": logp, "R": bool(case["flags"][0]), "C": bool(case["flags"][1])} + render_body(case)
    argv = [sys.executable, "-m", "xonsh", "--no-rc"]
    if mode == "c":
        argv += ["-c", prog]
    else:
        with open(base + ".xsh", "w") as f:
            f.write(prog)
        argv += [base + ".xsh"]
    try:
        r = subprocess.run(argv, env=child_env(scratch), cwd=scratch, stdin=subprocess.DEVNULL,
                           capture_output=True, text=True, errors="replace", timeout=120)
    except subprocess.TimeoutExpired:
        return ("hang", "child did not finish within 120 s")
    finally:
        if mode != "c":
            try:
                os.unlink(base + ".xsh")
            except OSError:
                pass
    log = []
    try:
        with open(logp) as f:
            for line in f.read().splitlines():
                if line.startswith("RUN "):
                    ident = None
                    for a in line[4:].split(" "):
                        ident = _strip(a) or ident
                    log.append(ident or ("?" + line))
                else:
                    log.append(line)
        os.unlink(logp)
    except FileNotFoundError:
        pass
    marks = ["M:" + ln[5:] for ln in r.stdout.splitlines() if ln.startswith("MARK ")]
    return {"status": r.returncode, "log": log, "marks": marks, "stderr": r.stderr[-4000:]}


def judge_process(case, got):
    """-> (verdict, detail)"""
    if "SyntaxError" in got["stderr"] and not got["log"]:
        return "skip-syntax", ""
    raised_txt = "CalledProcessError" in got["stderr"]
    strict = all_outcomes(case)
    cands = list(strict)
    f1c = [o for o in all_outcomes(case, f1=True) if o["f1"]] if case["flags"][1] else []
    all_ok = not any_failure(case)

    def fits(o):
        fl = set(o["floating"])
        if canon_log(o["log"], fl) != canon_log(got["log"], fl):
            return "log"
        want_marks = [e for e in o["log"] if e.startswith("M:")]
        if got["marks"] != want_marks:
            return "stdout-markers"
        if o["exc"] is not None:
            if got["status"] == 0:
                return "exit-status-zero-after-raise"
            if o["exc"][2] == "hard":
                return None if "permission denied" in got["stderr"] and not raised_txt else "no-XonshError-reported"
            if not raised_txt:
                return "no-CalledProcessError-reported"
            return None
        if raised_txt:
            return "CalledProcessError-reported"
        if o["exit"] is not None:
            return None if got["status"] == o["exit"] else "exit-N"
        if all_ok and got["status"] != 0:
            return "exit-status-nonzero-without-failure"
        return None

    why = []
    for o in cands:
        w = fits(o)
        if w is None:
            return "ok", ""
        why.append(w)
    for o in f1c:
        if fits(o) is None:
            return F1, "CMD_RAISE_ERROR not applied to a chain operand (process run)"
    return "bad", "status=%s log=%s stdout-marks=%s stderr=%r; reference accepts: %s (mismatch: %s)" % (
        got["status"], canon_log(got["log"]), got["marks"], got["stderr"][-200:],
        " | ".join(describe(o) + " exit=%s" % o["exit"] for o in strict[:3]), ",".join(sorted(set(why))))


def check_process_case(case, stats=None, scratch=None):
    scratch = scratch or _state.get("pscratch")
    if scratch is None:
        raise common.HarnessError("process tier without scratch dir")
    status = "ok"
    for mode in ("c", "script"):
        got = run_child(case, mode, scratch)
        if isinstance(got, tuple):
            return None, "inconclusive"
        verdict, detail = judge_process(case, got)
        if stats is not None:
            stats.hist["process-run:" + mode] += 1
        if verdict == "skip-syntax":
            return None, "skip-syntax"
        if verdict == F1:
            status = "known"
            fail = Failure("cmd-raise-skipped-in-chain", case, "%r (%s): %s" % (render_body(case), mode, detail),
                           finding=F1)
            continue
        if verdict != "ok":
            got2 = run_child(case, mode, scratch)
            if isinstance(got2, tuple) or judge_process(case, got2)[0] != "bad":
                _state.setdefault("flaky", []).append("%r flags=%s (%s): %s" % (render_body(case), case["flags"],
                                                                                 mode, detail))
                return None, "flaky"
            if "session" in _state and not bare_detection_agrees(case):
                # which program the text *is* (bare-command detection) is property C03's question, as in the in-process tier
                return None, "skip-bare"
            return Failure("process-outcome-differs", case,
                           "%r flags(RAISE,CMD)=%s run as %s: %s" % (render_body(case), case["flags"],
                                                                     "-c" if mode == "c" else "script file", detail),
                           bucket="process:" + mode + ":" + detail.rsplit("mismatch: ", 1)[-1]), "fail"
    if status == "known":
        return fail, "known"
    return None, "ok"


def worker_process(arg):
    seed, n, scratch = arg
    _setup(scratch, quiet_fd2=True)          # an in-process session too: bare_detection_agrees needs the parser
    _state["pscratch"] = scratch
    _state["open"] = {e["id"] for e in common.load_known(PROP) if e.get("status") == "open"}
    st = Stats()

    def body(case):
        f, status = check_process_case(case, st, scratch)
        _record(st, case, f, status, "process-tier")

    common.run_given(case_strategy(process=True), body, seed, n)
    st.failures = _one_per_bucket(st.failures)
    return st


def _warm_child(run):
    """One sequential child run: makes sure `python -m xonsh` works at all (and, for a scratch worktree
    without a shipped parser table, lets xonsh build it once instead of in 8 racing children)."""
    helpers.ensure()
    _state["pscratch"] = run.scratch
    case = {"flags": [True, False], "kind": "expr", "after": ["py"], "exit": 3, "tier": "process",
            "tree": {"t": "or", "sym": True, "c": [
                {"t": "leaf", "form": "bare", "cls": "np", "pfx": 0, "inner": None, "wrap": "bare",
                 "stages": [{"code": 1, "deco": None, "ext": False, "emit": False}]},
                {"t": "leaf", "form": "bare", "cls": "np", "pfx": 0, "inner": None, "wrap": "bare",
                 "stages": [{"code": 0, "deco": None, "ext": True, "emit": False}]}]}}
    got = run_child(case, "c", run.scratch)
    if isinstance(got, tuple) or got["status"] != 3 or got["log"] != ["k0a", "M:A0"]:
        raise common.HarnessError("process tier self-test failed: %r" % (got,))


# ----------------------------------------------------------------------------------------


def _replay_case(case):
    if case.get("tier") == "process":
        f, _s = check_process_case(case)
    else:
        f, _s = check_case(case)
    return f


def main(run):
    _setup(run.scratch)
    _state["pscratch"] = run.scratch
    common.replay_tier(run, _replay_case)
    _warm_child(run)
    nw = 16          # number of generator streams: fixed, so that a seed means the same cases at any VERIF_PROCS
    nmax = run.n(2, 3)
    common.pool_map(run, __name__, "worker_exhaustive", [(i, nw, nmax, run.scratch) for i in range(nw)])
    run.extra["exhaustive_subspace"] = (
        "expression statements over <= %d single-stage leaves: shapes %s x leaf variants (5 forms x code {0,1} x 2 "
        "lexical classes; @$() argument with outer/inner failure x 2 classes; command not found in bare(2 classes)/$()/"
        "!() [and, for <= 2 leaves, ![]/$[]/@$() and a non-executable file on $PATH]: %d variants for <= 2 leaves, %d for "
        "3) x 4 flag settings" % (nmax, [s[1] for s in small_shapes(nmax)], len(leaf_variants(True)),
                                   len(leaf_variants(False))))
    per = run.n(4800, 160000) // nw
    common.pool_map(run, __name__, "worker_random",
                    [(common.worker_seed(run.seed, w), per, run.scratch) for w in range(nw)])
    pper = max(1, run.n(24, 320) // nw)
    common.pool_map(run, __name__, "worker_process",
                    [(common.worker_seed(run.seed, 200 + w), pper, run.scratch) for w in range(nw)])
    missing = [lab for lab in (["form:" + f for f in FORMS] + ["kind:" + k for k in KINDS] +
                               ["flags:R%dC%d" % (r, c) for r in (0, 1) for c in (0, 1)] +
                               ["class:py", "class:np", "deco:raise", "deco:ignore", "stages:2", "stages:3",
                                "has-not", "has-parens", "external-stage", "process-run:c", "process-run:script",
                                "cannot-start:nf", "cannot-start:perm", "cannot-start:path"])
               if not run.stats.hist.get(lab)]
    if missing:
        raise common.HarnessError("generator incomplete: no case with %s" % missing)
    run.assumptions += [
        "truth value of an operand is the documented return value of its form: bare/![]/!() pipeline object (exit code "
        "of the last stage), $() captured text (non-empty = true), $[] None (false); the property text's 'over exit "
        "codes' is read this way for $() and $[]",
        "both outcomes accepted where the documentation is silent or contradicts itself: raising for a pipeline under "
        "`not`; `if ![cmd]:` with a single uncaptured operand (error_handling.rst: raises, subprocess.rst: else branch); "
        "a failing non-final pipeline stage with @error_raise or under $XONSH_SUBPROC_CMD_RAISE_ERROR (command = stage "
        "or = pipeline); !() under $XONSH_SUBPROC_CMD_RAISE_ERROR; a !() whose result nothing in the statement asks for "
        "is non-blocking - its log position and any raise from it are unconstrained",
        "stages of one pipeline run concurrently: their log entries are compared as a set per pipeline",
        "a command that cannot be started (name not on the controlled $PATH; 0644 file on $PATH or named by absolute "
        "path) is a failing command with some non-zero exit status (the documentation only shows its message); both "
        "outcomes accepted for: which other stages of that pipeline run, whether an unstartable non-final stage fails "
        "the pipeline, and whether a non-executable file named by path is a failing command or a XonshError for the "
        "whole line regardless of flags and decorators",
        "programs the parser rejects (parenthesised sub-chains after a bare command: C03's recorded finding) are "
        "skipped and counted, not judged here",
        "process tier: the child is `python -m xonsh --no-rc` with PYTHONPATH=<tree under test>; it loads that tree's "
        "own xonsh/parser_table.py (for /repo the shipped table), not the table the in-process tiers rebuild",
        "exit status: only 'non-zero iff the model raises', 'exit N => N' and 'nothing failed => 0' are required",
    ]


def replay(run, path):
    with open(path) as f:
        d = json.load(f)
    case = d.get("case", d)
    _setup(run.scratch)
    _state["pscratch"] = run.scratch
    f = _replay_case(case)
    if f is None:
        print("replay: property holds on this case")
        return 0
    print("VIOLATION property=%s replay=%s kind=%s %s" % (PROP, path, f.kind, f.detail))
    return 1

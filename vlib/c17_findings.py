"""Narrow predicates for the recorded C17 (formatter) findings.

A failure of C17 is reduced (vlib.c17_analysis) to the 1-minimal set of the formatter's own edits
that still breaks the oracle; every such edit is described by the formatter rule class that
produced it, its shape (insert / remove / respace blanks) and the lexical context of the place.
A finding is a predicate over ONE such edit (`edit_finding`); a failure is attributed to a finding
only if *every* necessary edit satisfies that finding's predicate.  Generators use the same ids as
switches to stay away from the shapes (counted as excluded_known)."""

from __future__ import annotations

import re

from . import c17_analysis as A

LINE_START_PY = A.KEYWORDS | {"True", "False", "None", "match", "case", "type"}
PY_AFTER_LEADING_NAME = {"(", "[", ".", "=", ",", ":", ";", "+=", "-=", "*=", "/=", "//=", "%=", "**=", "@=", "|=", "&=", "^=", "<<=", ">>=",
                         "==", "!=", "<", "<=", ">", ">=", ":=", "+", "*", "/", "//", "%", "**", "<<", ">>", "&", "|", "^", "->"}
PY_INFIX = {"and", "or", "is", "in", "not"}

# id -> (what, minimal example)
FINDINGS = {
    "C17-F01": ("blanks at the end of a line inside a multi-line string or f-string literal are stripped (the whole output text is "
                "right-stripped line by line), so the literal's value changes", 'x = """a  \nb"""\n'),
    "C17-F02": ("`=` gets blanks on both sides on a subprocess statement that the formatter's line heuristic does not recognise as one "
                "(line not starting with a name: `./x`, `/bin/x`, `~/x`, `$X=1 cmd`, `@(c)`; name followed by `.` `/` `|` `>` `*` `~` `@(` "
                "or a backslash continuation; command after `:` or `;`): `--k=v` becomes three arguments, `$X=1 cmd` becomes a command `$X`",
                "$X=1 echo hi\n"),
    "C17-F03": ("a `#` inside a subprocess word is taken for a comment start and padded with two blanks: `echo a#b` (one argument `a#b`) "
                "becomes `echo a  #b` (argument `a`, rest comment)", "echo a#b # c\n"),
    "C17-F04": ("the raw body of a `with!` block macro is reformatted like code (blank runs collapsed, operators spaced, indentation "
                "normalised, trailing blanks and blank lines dropped), so the string handed to the context manager changes", "with! ctx:\n    raw   body\n"),
    "C17-F05": ("the comma rule (no blank before, one after) is applied inside subprocess text: `echo a ,b` -> `echo a, b`, `echo a,b` -> "
                "`echo a, b` changes the argument list", "echo a,b\n"),
    "C17-F06": ("the colon rule (no blank before, one after) is applied inside subprocess text: `echo http://x` -> `echo http: //x`, "
                "`scp f host:/p` -> `scp f host: /p`", "echo http://x\n"),
    "C17-F07": ("operators of the always-spaced set (== != <= >= -> := += -= ...) get blanks inside subprocess text: "
                "`pip install xonsh==0.1` -> `pip install xonsh == 0.1` (three arguments)", "pip install xonsh==0.1\n"),
    "C17-F08": ("a Python keyword glued to the next character inside a subprocess word gets a blank after it: `cat < in.txt` -> "
                "`cat < in .txt`, `grep in[1]` -> `grep in [1]`", "cat in.txt\n"),
    "C17-F09": ("the raw text of a subprocess macro (`cmd! raw  text`) is only kept verbatim when `name!` starts the logical line; "
                "inside a capture (`$(echo! a   b)`), after `&&` / `|` / `;`, after other arguments (`echo hi! a   b`) or with a keyword-like "
                "command name the raw string is reformatted", "$(echo! a   b)\n"),
    "C17-F10": ("inside an f-string replacement field the bracket-glue rule removes the blank that separates the field's `{` from a "
                "`{` display (and `}` from `}`): `f'{ {1: 2}[1] }'` -> `f'{{1: 2}[1]}'`, which is an escaped brace / a syntax error", "f'{ {1: 2}[1] }'\n"),
    "C17-F11": ("inside an f-string the colon rule inserts a blank after the `:` that starts a format spec when the spec begins with a "
                "nested field: `f'{x:{w}}'` -> `f'{x: {w}}'` (format spec ' {w}')", "f'{x:{w}}'\n"),
    "C17-F12": ("the blanks of a self-documenting f-string field `{x = }` are part of the produced text but are normalised: "
                "`f'{x = }'` -> `f'{x =}'`", "f'{x = }'\n"),
    "C17-F13": ("a backslash-newline that continues a subprocess *word* (`echo a\\<newline>b` is the single argument `ab`) gets an indent "
                "inserted after it, splitting the word into two arguments", "echo a\\\nb\n"),
    "C17-F14": ("on a command line that the line heuristic takes for Python, the indent of a backslash-continuation line is rescaled "
                "relative to the file's indent width and can round to nothing (`curl\\<newline> x` in a file indented by 8): the continued "
                "word is glued to the previous one", "if a:\n        b\ncurl\\\n x\n"),
    "C17-F15": ("after a line holding a `$[`/`$(`/`![`/`!(` capture, xonsh's tokenizer reports trailing comments with the blank before "
                "the `#` inside the COMMENT token; on a recognised macro line (`name! raw text  # c`) the formatter copies the source gap "
                "(now one blank short) and strips the token, so every pass eats one blank before the comment (not idempotent) and a "
                "single blank disappears: `m! a # c` -> `m! a# c`, the comment becomes part of the macro's raw argument", "$[ls]\nm! a # c\n"),
    "C17-F16": ("once a line *starts* with `![` `$[` `$(` `!(` (even inside a string literal) xonsh's tokenizer reports comments with the "
                "blank before the `#` inside the COMMENT token; a comment on its own line inside brackets is re-emitted with the source's "
                "leading blanks up to the token start and the token stripped, so it moves one column to the left on every pass: "
                "format_source is not idempotent", "![ls]\nx = [\n      # c\n    1]\n"),
    "C17-F17": ("once a line starts with `![` `$[` `$(` `!(` xonsh's tokenizer stays in subprocess mode for the rest of the file and no "
                "longer reports a `#` glued to a word as a comment start (ERRORTOKEN `#`), so a backslash that ends that physical line "
                "is a line continuation to the formatter, while the parser ends the statement there (tools._ends_with_line_continuation: "
                "the backslash is comment text; the command gets a literal backslash argument). The formatter indents the next "
                "statement like a continuation line: `![ls]<newline>echo x# a \\<newline>'b'` -> `...<newline>    'b'`, an unexpected "
                "indent (inside a block the statement moves to another block or the output is rejected)", "![ls]\necho x# a \\\n'b'\n"),
}


def formatter_sees_subproc(line_toks):
    """The formatter's documented line heuristic (`_is_subproc_statement`), restated: does the
    logical line starting at line_toks[0] look like a bare command to it?"""
    xtok = A._mods()
    toks = [t for t in line_toks if t.type != xtok.COMMENT]
    if not toks:
        return False
    first = toks[0]
    if first.type != xtok.NAME or first.string in LINE_START_PY:
        return False
    if len(toks) < 2:
        return False
    second = toks[1]
    if second.type == xtok.OP:
        if second.string in PY_AFTER_LEADING_NAME:
            return False
        if second.string == "-":
            if len(toks) < 3:
                return False
            third = toks[2]
            if third.type == xtok.OP and third.string == "-":
                return True
            return third.type == xtok.NAME and third.a == second.b
        return False
    if second.type == xtok.ERRORTOKEN and second.string == "!":
        return True
    if second.type == xtok.NAME:
        return second.string not in PY_INFIX
    return second.type in (xtok.NUMBER, xtok.STRING, xtok.FSTRING_START, xtok.SEARCHPATH, xtok.DOLLARNAME)


def _line_of(d, tok):
    return [t for t in d["toks"] if t.sline == tok.sline]


def hash_before_continuation(d):
    """The edit is in the leading blanks of a physical line that follows a backslash-newline, and the physical
    line that ends in that backslash holds a `#` which the tokenizer (sticky subprocess mode) did not report as a
    comment start: to the parser the backslash is comment text and the next physical line starts a statement."""
    xtok = A._mods()
    prev = d["prev"]
    if prev is None or prev.type != xtok.ERRORTOKEN or not prev.string.endswith("\n"):
        return False
    return any(t.type == xtok.ERRORTOKEN and t.string == "#" and t.line == prev.line and t.a < prev.a for t in d["toks"])


def glued_continuation(d):
    """the backslash-newline before this edit is glued to the token before it (it continues a *word*)"""
    prev = d["prev"]
    if prev is None or prev.i == 0:
        return False
    return d["toks"][prev.i - 1].b == prev.a


def edit_finding(d):
    """id of the recorded finding whose predicate this single formatter edit satisfies, or None."""
    rule, shape, ctx = d["rule"], d["shape"], d["ctx"]
    prev, nxt = d["prev"], d["next"]
    if ctx == "macro-block":
        return "C17-F04"
    if rule == "continuation-indent" and ctx in ("subproc", "python") and hash_before_continuation(d):
        return "C17-F17"
    if rule.endswith(":strip-trailing-blank") and rule.startswith(("in-STRING", "in-FSTRING_MIDDLE")) and ctx in ("macro-alias", "macro-func"):
        return "C17-F01"            # the multi-line literal is part of raw macro text: the same line-by-line right-strip
    if ctx in ("macro-alias", "macro-func") and shape == "remove" and d["removed"].strip(" \t") == "" and d["follows"] in ("\n", "") \
            and "\n" not in d["removed"] and nxt is not None and nxt.fdepth and nxt.type in (A._mods().FSTRING_MIDDLE, A._mods().FSTRING_END):
        return "C17-F01"            # ... seen as a gap, because the token positions of multi-line f-string parts are unreliable
    if ctx == "macro-alias":
        t = nxt if (nxt is not None and nxt.macro == "alias") else (d["inside"] if d["inside"] is not None else prev)
        if t is not None and t.macro == "alias" and not t.macro_head_first:
            return "C17-F09"
        if rule == "comment-pad" and shape in ("remove", "respace") and nxt is not None and nxt.quirk \
                and len(d["inserted"]) == len(d["removed"]) - 1 and d["inserted"].strip(" \t") == "":
            return "C17-F15"
        return None
    if rule in ("bracket-continuation-indent", "continuation-indent") and shape in ("respace", "remove") and nxt is not None \
            and nxt.type == A._mods().COMMENT and nxt.quirk and len(d["inserted"]) == len(d["removed"]) - 1 and ctx in ("python", "subproc"):
        # (the second rule: the comment line follows a backslash-newline; its indent is computed from the start column of
        # the COMMENT token - one blank too far left - and the token is stripped: the same one column per pass)
        return "C17-F16"
    if rule.endswith(":strip-trailing-blank") and rule.startswith(("in-STRING", "in-FSTRING_MIDDLE")) and ctx in ("token", "fstring"):
        return "C17-F01"
    if ctx == "fstring":
        if rule in ("trailing-blank", "blank-line-content") and shape in ("remove", "lines"):
            return "C17-F01"
        if shape == "remove" and d["removed"].strip(" \t") == "" and d["follows"] in ("\n", "") and "\n" not in d["removed"] \
                and (nxt is None or nxt.type in (A._mods().FSTRING_MIDDLE, A._mods().FSTRING_END)):
            return "C17-F01"        # blanks that end a physical line of the literal part (token positions of multi-line middles are unreliable)
        if rule == "after-opener" and shape == "remove" and prev is not None and nxt is not None and prev.string == "{" and nxt.string == "{":
            return "C17-F10"
        if rule == "before-closer" and shape == "remove" and prev is not None and nxt is not None and prev.string == "}" and nxt.string == "}":
            return "C17-F10"
        if rule == "after-colon" and shape == "insert" and nxt is not None and nxt.string == "{":
            return "C17-F11"
        if rule == "retokenised" and d["removed"].strip(" \t") == ":" and d["inserted"] == ": " and nxt is not None and nxt.string == "{":
            return "C17-F11"        # the same edit, seen as one region because the token order around it is unreliable
        if rule == "retokenised" and (re.fullmatch(r"(\{[ \t]+)+\{", d["removed"]) and d["inserted"] == d["removed"].replace(" ", "").replace("\t", "")
                                       or re.fullmatch(r"(\}[ \t]+)+\}", d["removed"]) and d["inserted"] == d["removed"].replace(" ", "").replace("\t", "")):
            return "C17-F10"        # `{ {` glued to `{{`: the text now tokenises as an escaped brace
        if _selfdoc_gap(d):
            return "C17-F12"
        return None
    if ctx == "subproc":
        if rule == "equals" and shape == "insert":
            eq = prev if (prev is not None and prev.string == "=") else nxt
            if eq is not None and not any(op in A.OPENERS for op in eq.brk) and not formatter_sees_subproc(_line_of(d, eq)):
                return "C17-F02"
            return None
        if rule == "comment-pad" and shape == "insert":
            return "C17-F03"
        if (rule == "before-comma" and shape == "remove") or (rule == "after-comma" and shape == "insert"):
            return "C17-F05"
        if (rule == "before-colon" and shape == "remove") or (rule == "after-colon" and shape == "insert"):
            return "C17-F06"
        if rule == "spaced-op" and shape == "insert":
            return "C17-F07"
        if rule == "after-keyword" and shape == "insert":
            return "C17-F08"
        if rule == "before-continuation" and shape == "insert" and prev is not None and prev.type == A._mods().NAME \
                and prev.string in A.KEYWORDS:
            return "C17-F08"        # the forced blank lands between the keyword and a backslash-newline glued to it
        if rule == "continuation-indent" and shape == "insert" and glued_continuation(d):
            return "C17-F13"
        if rule == "continuation-indent" and shape == "remove" and nxt is not None and not formatter_sees_subproc(_line_of(d, nxt)):
            return "C17-F14"
    return None


def _selfdoc_gap(d):
    """the gap lies inside a self-documenting replacement field `{expr = }` / `{expr = !r}` /
    `{expr = :spec}` (every blank between the braces is part of the produced text)"""
    xtok = A._mods()
    toks = d["toks"]
    t = d["next"] if d["next"] is not None else d["prev"]
    if t is None or not t.fdepth:
        return False
    depth = len(t.brk)
    if d["next"] is not None and d["next"].type == xtok.OP and d["next"].string in A.CLOSERS:
        depth = len(t.brk)          # the closer still sees its own opener on the stack
    # walk forward to the `}` that closes the innermost enclosing `{` of this f-string field
    want = None
    for k in range(len(t.brk) - 1, -1, -1):
        if t.brk[k] == "{":
            want = k
            break
    if want is None:
        return False
    j = t.i
    while j < len(toks):
        n = toks[j]
        if n.type == xtok.OP and n.string == "}" and len(n.brk) == want + 1:
            break
        if len(n.brk) == want + 1 and ((n.type == xtok.OP and n.string == ":") or (n.type == xtok.ERRORTOKEN and n.string == "!")):
            break
        j += 1
    if j >= len(toks) or j == 0:
        return False
    j -= 1
    while j > 0 and toks[j].type == xtok.ERRORTOKEN and not toks[j].string.strip():
        j -= 1          # the tokenizer reports a blank before `!` as an ERRORTOKEN
    p = toks[j]
    return p.type == xtok.OP and p.string == "=" and len(p.brk) == want + 1


def unit_finding(dets):
    """id of the recorded finding that the edits of one revertible unit (or of one failure) share, or None.
    The indentation unit - the `indent` edits plus the F17-shaped edits, which are the indentation of a statement
    to the parser - belongs to F17 when it holds an F17-shaped edit and otherwise nothing but plain `indent` edits:
    where tokenizer and parser disagree about which physical lines start a statement, no indentation can be right."""
    fids = [edit_finding(d) for d in dets]
    if len(set(fids)) == 1:
        return fids[0]
    if "C17-F17" in fids and all(f == "C17-F17" or (f is None and d["rule"] == "indent") for f, d in zip(fids, dets)):
        return "C17-F17"
    return None


def classify(kind, sig, det, open_ids):
    """id of the open finding that explains this isolated failure (every necessary edit satisfies
    the same finding's predicate), or None."""
    if kind in ("crash", "cli") or not det:
        return None
    if kind == "not-idempotent":
        # only the raw body of a block macro: it is not raw to the formatter (F04), so stray characters in it
        # (a backslash, a lone quote) are re-spaced on every pass
        if all(d["ctx"] == "macro-block" for d in det) and "C17-F04" in open_ids:
            return "C17-F04"
        for fid in ("C17-F15", "C17-F16"):
            if {edit_finding(d) for d in det} == {fid} and fid in open_ids:
                return fid
        return None
    fid = unit_finding(det)
    return fid if fid in open_ids else None


SAME_LINE_RULES = {"default-gap", "comment-pad", "before-comma", "after-comma", "before-semicolon", "after-semicolon", "before-colon",
                   "after-colon", "equals", "spaced-op", "after-keyword", "before-continuation", "continuation-indent", "after-opener",
                   "before-closer", "bracket-continuation-indent", "before-bang"}


INERT_RULES = {"trailing-blank", "blank-lines-removed", "eof-newlines", "blank-line-content", "comment-indent"}


def parser_blank_sensitivity(sig, det):
    """True when every necessary edit is one that cannot matter under any reading of xonsh's syntax,
    outside macro bodies / strings / f-strings: a non-empty run of blanks between two tokens of a line
    replaced by another, blanks removed at the end of a line, blank lines removed, a comment-only line
    re-indented.  If that changes xonsh's tree the parser is at fault, not the formatter."""
    if not sig:
        return False
    for rule, shape, ctx in sig:
        if ctx not in ("subproc", "python"):
            return False
        if rule in SAME_LINE_RULES and shape == "respace":
            continue
        if rule in INERT_RULES:
            continue
        return False
    return True


def leak(rnd, fid, open_ids, one_in=10):
    """Should this draw stay away from the shape of finding `fid`?  (always False once it is fixed;
    one draw in `one_in` goes ahead so that the attribution path keeps being exercised)"""
    if fid not in open_ids:
        return False
    return rnd.randrange(one_in) != 0


def avoid_switches(rnd, open_ids, one_in=12):
    """The set of recorded shapes a generated case stays away from: all open ones, except that one case in
    `one_in` lets ONE of them through (keeps the attribution path of every finding exercised).  Several
    recorded shapes in one text interact (a `#` word before a continuation, an f-string after a continued
    word, an `=` word in a raw macro body ...): such mixtures fail in ways that are no new information and
    that no narrow predicate describes, so they are not generated."""
    ids = sorted(fid for fid in FINDINGS if fid in open_ids)
    if ids and rnd.randrange(one_in) == 0:
        return set(ids) - {ids[rnd.randrange(len(ids))]}
    return set(ids)

"""C08 helper - a deterministic "other process".

`Intruder(target, point, action)` is a context manager that is active while ONE call of the code under test runs.
It wraps the primitives through which Python code reads a directory and its timestamp

    os.scandir  os.listdir  os.stat  os.lstat  os.access

(os.path.getmtime / exists / isdir / realpath and pathlib go through os.stat / os.lstat at call time, so they are
covered) and performs `action()` exactly once, at the generated `point` of the call's own sequence of reads that
concern the directory `target` (identified by device + inode, so every spelling of it counts):

    {"at": "scan", "j": J, "k": K}          during the J-th os.scandir(target) of the call:
                                             K = 0      before the directory is opened (the listing shows the new state)
                                             K = 1      the entries have been read, none handed out yet
                                             K = 1 + i  the i-th entry has been handed out and processed by the consumer
                                             ...        (K is folded into the positions that exist for this listing)
                                             last       the last entry has been handed out, the iterator is not yet exhausted
                                             close      the iterator is exhausted / closed
    {"at": "list", "j": J, "side": S}        before / after the J-th os.listdir(target)
    {"at": "stat", "j": J, "side": S}        before / after the J-th stat / lstat / access of `target` itself
                                             (the mtime read of a cache validation is one of them)
    {"at": "child", "j": J, "side": S}       before / after the J-th stat / lstat / access of an entry of `target`

The entries of a scanned directory are read in one go when the directory is opened (this is what the kernel does for
every directory that fits one getdents buffer), so what is handed out is a snapshot: an entry created later is not
seen, an entry deleted later is still handed out (its DirEntry then fails the consumer's own checks).  Nothing here
sleeps or uses threads: the interleaving is a function of the generated point and of the order of reads of the code
under test, hence reproducible.

If the point does not occur during the call, nothing is done (`fired` stays None) and the caller performs the action
after the call - then the step is an ordinary sequential change."""

from __future__ import annotations

import os
from collections import Counter

_real = {n: getattr(os, n) for n in ("scandir", "listdir", "stat", "lstat", "access")}


class _Scan:
    """os.scandir() replacement for the target directory: iterator + context manager over a snapshot"""

    def __init__(self, owner, path, mine):
        self.owner = owner
        self.mine = mine            # this is the scandir call the point refers to
        if mine and owner.point.get("k", 0) == 0:
            owner.fire("scan:before-open")
        with _real["scandir"](path) as it:
            self.entries = list(it)
        self.i = 0
        self.closed = False
        n = len(self.entries)
        k = owner.point.get("k", 0)
        # positions after the snapshot: 1 .. n+1 (before entry 1 .. after entry n), n+2 = close
        self.k = None if (not mine or k == 0) else 1 + (k - 1) % (n + 2)
        owner.counts["scan-entries"] += n

    def __iter__(self):
        return self

    def __next__(self):
        if self.closed:
            raise StopIteration
        n = len(self.entries)
        if self.k is not None and self.k == self.i + 1 and self.i <= n:
            self.owner.fire("scan:before-first" if self.i == 0 else
                            "scan:after-last" if self.i == n else "scan:after-entry")
        if self.i >= n:
            self.close()
            raise StopIteration
        e = self.entries[self.i]
        self.i += 1
        return e

    def close(self):
        if self.closed:
            return
        self.closed = True
        if self.k is not None and not self.owner.done:
            self.owner.fire("scan:close")

    def __enter__(self):
        return self

    def __exit__(self, *a):
        self.close()
        return False

    def __del__(self):
        self.closed = True


class Intruder:
    def __init__(self, target, point, action):
        st = _real["stat"](target)
        self.ident = (st.st_dev, st.st_ino)
        self.point = dict(point)
        self.action = action
        self.done = False
        self.live = False
        self.fired = None           # where the action was performed
        self.result = None          # what action() returned
        self.error = None           # exception raised by action() (a harness problem)
        self.counts = Counter()
        self._memo = {}

    # -- identity of the path an os function was called with ---------------------------------
    def _same(self, path):
        r = self._memo.get(path)
        if r is None:
            try:
                s = _real["stat"](path)
                r = (s.st_dev, s.st_ino) == self.ident
            except (OSError, ValueError):
                r = False
            self._memo[path] = r
        return r

    def _klass(self, path):
        """'dir' when path is the target directory, 'child' when it is an entry of it, else None"""
        if not self.live:
            return None
        try:
            p = os.fspath(path)
        except TypeError:
            return None             # a file descriptor
        if isinstance(p, bytes):
            p = os.fsdecode(p)
        if p == "":
            return None
        if self._same(p):
            return "dir"
        parent = os.path.dirname(p.rstrip("/")) or ("/" if p.startswith("/") else ".")
        if self._same(parent):
            return "child"
        return None

    def fire(self, where):
        if self.done:
            return
        self.done = True
        live, self.live = self.live, False
        try:
            self.result = self.action()
        except BaseException as e:  # noqa: BLE001  (reported by the caller: the code under test may swallow it)
            self.error = e
        finally:
            self.live = live
            self._memo = {}
        self.fired = where

    def _around(self, klass, real, args, kwargs):
        at = "stat" if klass == "dir" else "child"
        j = self.counts[at]
        self.counts[at] += 1
        mine = (not self.done) and self.point.get("at") == at and self.point.get("j", 0) == j
        if mine and self.point.get("side") != "after":
            self.fire(at + ":before")
        r = real(*args, **kwargs)
        if mine and self.point.get("side") == "after":
            self.fire(at + ":after")
        return r

    # -- the wrappers ---------------------------------------------------------------------------
    def _w_stat(self, name):
        real = _real[name]

        def wrapper(path, *args, **kwargs):
            k = self._klass(path)
            if k is None:
                return real(path, *args, **kwargs)
            return self._around(k, real, (path,) + args, kwargs)

        wrapper.__name__ = name
        return wrapper

    def _w_scandir(self, path="."):
        if self._klass(path) != "dir":
            return _real["scandir"](path)
        j = self.counts["scan"]
        self.counts["scan"] += 1
        mine = (not self.done) and self.point.get("at") == "scan" and self.point.get("j", 0) == j
        return _Scan(self, path, mine)

    def _w_listdir(self, path="."):
        if self._klass(path) != "dir":
            return _real["listdir"](path)
        j = self.counts["list"]
        self.counts["list"] += 1
        mine = (not self.done) and self.point.get("at") == "list" and self.point.get("j", 0) == j
        if mine and self.point.get("side") != "after":
            self.fire("list:before")
        r = _real["listdir"](path)
        if mine and self.point.get("side") == "after":
            self.fire("list:after")
        return r

    def __enter__(self):
        os.scandir = self._w_scandir
        os.listdir = self._w_listdir
        os.stat = self._w_stat("stat")
        os.lstat = self._w_stat("lstat")
        os.access = self._w_stat("access")
        self.live = True
        return self

    def __exit__(self, *a):
        self.live = False
        for n, f in _real.items():
            setattr(os, n, f)
        return False

"""C13 - a crash or I/O failure while saving history never damages what was already saved.

Generator : a scenario = 1-4 history files in a scratch $XONSH_DATA_DIR (generated commands from a
            small pool so duplicates / pattern hits are frequent; unlocked, locked-live, locked-stale
            with a pre-boot opening timestamp so the unlock path triggers; open or closed; in
            history_json/, in the backwards-compatible directory or behind a custom
            $XONSH_HISTORY_FILE; an optional corrupt member: truncated / garbage / zero-length /
            plain JSON / cut inside the index; a file may carry 40 / 120 / 200 extra commands so that
            rewritten payloads lie below the write buffer, between buffer and 8 KiB, and above 8 KiB)
            + ONE history-rewriting operation run on a real
            JsonHistory of the session that owns one of the files: flush() of 1-5 buffered commands
            (flusher thread), flush(at_exit=True) (direct and through the closure
            XonshSession.load registers for atexit / fatal signals), a flush triggered by append()
            reaching the buffer size, delete(pattern), erasedups(), the GC file enumeration
            JsonHistoryGC.files() (the unlock rewrite), run_gc(size, force) and the GC thread a
            starting session launches.  Scenarios are drawn by Hypothesis, stratified by operation
            kind so every kind is present in every run.  clear() is excluded (meant to destroy).
Enumeration: the operation is run once in a forked child with counting wrappers around the
            file-system entry points (open / io.open incl. os.fdopen and pathlib, text-file
            read / write / close, binary opens, os.open / os.write, os.replace / rename,
            os.remove / unlink, os.truncate / ftruncate, tempfile.mkstemp) restricted to the data
            dir -> op trace of length N (self-check: every file that changed must be explained by a
            wrapped op, else harness error).  This is done under three BUFFERING MODELS (the size
            of Python's write buffer depends on st_blksize and the interpreter, not on xonsh):
            `real` = the interpreter's own FileIO -> BufferedWriter(default size, measured) ->
            TextIOWrapper stack with ops counted at the RAW level - one "write" op per write(2) the
            process would issue, wherever the io stack decides to issue it (inside write(), flush() or
            close()); data not yet handed to the kernel is lost by the kill, exactly like kill -9;
            `huge` = same stack, 4 MiB buffer (nothing reaches the file before flush/close);
            `wt` = every completed Python-level write() is on disk at once.  A model whose reference
            trace equals one already enumerated for the scenario is skipped (same executions); in the
            2nd/3rd model points at read-only ops are skipped (same states) and one errno per op is used.  Then, each in a fresh fork on a freshly materialised
            copy of the scenario: EVERY crash point k in 0..N-1 (os._exit(9) before op k; unflushed
            user-space buffers are lost, as with kill -9), for every write op a crash after a
            PARTIAL write of m bytes (all m for writes <= 64 bytes, else 0, 1, 57, 69, n/2, n-2,
            n-1), and EVERY single fault: op k raises OSError(errno) and the operation continues
            (errno per op class out of ENOSPC / EIO / EACCES / EMFILE; a failing write leaves half
            of its bytes behind).  Each fault run reports the op it hit; a mismatch with the
            reference trace is a harness error (op numbering must be reproducible).
Oracle    : in the parent, after the child is gone.  For every history file that existed before:
            still present (only a GC pass with a limit that really constrains the collection may
            remove files, and never a loadable live-locked one - which files it picks is C14), and
            its content is either byte-identical to before, or LazyJSON(f).load() succeeds and equals
            the complete old version, the complete new version (= what the un-faulted run wrote;
            the clock is owned by the harness so the two are comparable) or, for a stale locked
            file under GC, the complete old version with the lock cleared.  Anything else - empty,
            truncated, unloadable, a third command list - is a failure.  Left-over *.json.tmp
            files are allowed; a left-over file that xonsh enumerates as a history file
            (xonsh-*.json) and that does not load is a failure ("stray").  The un-faulted run is itself checked against a model written from
            the property text (flush: old + buffered; delete: the filtered list; erasedups: a
            sub-sequence that keeps at least one copy of every command; GC: same commands, a live
            session's file stays locked).
SQLite    : a syscall-level pass: a small driver process (this file, --driver) runs append /
            delete / erasedups / gc, also as first touch of a legacy (pre-WAL, pre-frequency-column)
            database, under `strace -f -e inject=<syscall>:signal=KILL:when=K` for every
            write-class syscall (write, pwrite64, fsync, fdatasync, ftruncate, unlink, rename ...)
            and every K it reaches after the operation started (strace counts per syscall and per
            tracee); all points in thorough, an even sample of 24 per case in quick.  Oracle: the
            database opens, PRAGMA integrity_check = ok, the rows are exactly the old set, the new
            set, or (append) old + a prefix of the appended commands.  The same pass is run for
            the JSON backend (one scenario per operation kind in quick, 200 in thorough; every kill
            point) as a cross-check of the Python-level op model that does not depend on how xonsh
            or the io stack are structured.
Known     : C13-F1 (GC unlock rewrite is an in-place open(f, 'w')), C13-F2 (flush treats an
            OSError while *reading* its intact file as "corrupt, start empty" and replaces the
            file with only the buffered commands).  Narrow predicates is_f1 / is_f2; exactly those
            outcomes are tolerated in the generated campaign (counted in excluded_known) and
            exercised by the replay tier.
"""

from __future__ import annotations

import errno as _errno
import json
import os
import re
import shutil
import signal
import sqlite3
import subprocess
import sys
import threading
import time as _real_time

if __name__ == "__main__":            # driver mode (run under strace): make `vlib` importable
    sys.path.insert(0, os.path.dirname(os.path.dirname(os.path.abspath(__file__))))

from vlib import common
from vlib.common import Failure, Stats

PROP = "C13"
LEVEL = "fault_enumeration"
HOOKS = False
RULE = ("scenario (1-4 generated JSON history files: unlocked / locked-live / locked-stale, open / closed, "
        "optional corrupt member, three locations) x one rewriting operation (flush thread, flush at exit, "
        "exit hook, buffer-full flush, delete(pattern), erasedups, GC enumeration, run_gc, start-up GC) drawn by "
        "Hypothesis, payloads below and above the write buffer; per scenario and per buffering model (real io stack "
        "with ops counted at raw write(2) level / nothing on disk before flush or close / every write() on disk at "
        "once) EVERY crash point before each file-system op, EVERY listed "
        "partial-write length of each write op and EVERY single injected OSError per op are executed in "
        "fresh forks; SQLite (and JSON again) through strace SIGKILL injection at every "
        "write-class syscall of a driver process.  non-trivial = the operation really rewrites something "
        "and the point lies inside the rewriting window: a crash after the first and not after the last "
        "mutating op, any partial write, a fault on an op up to the last mutating op; strace: a kill at a "
        "write-class syscall issued after the operation started.  distinct = hash of (scenario, operation, "
        "buffering model, mode, k, m / errno)")

NOW = 1_700_000_000.0
BOOT = NOW - 1_000_000.0

INPS = ["ls", "ls -la", "cd /tmp", "echo hi", "git status", "echo 'naïve ☃'", "make -j4",
        "ls  ", "for i in range(3):\n    print(i)", "cat a | grep b > c"]
PATTERNS = ["ls", "echo.*", ".*", "git", "zzz-no-match", "l", "(ls|cd)", "make"]
CORRUPT = ["trunc", "garbage", "empty", "plainjson", "shortindex"]
FLUSH_KINDS = ("flush", "flush_exit", "flush_hook", "autoflush")
GC_KINDS = ("gc_files", "run_gc", "gc_startup")
OP_KINDS = FLUSH_KINDS + ("delete", "erasedups") + GC_KINDS

# Buffering models under which every scenario is enumerated.  The size of Python's write buffer is a property
# of the environment (st_blksize of the file system, interpreter version), not of xonsh, so atomicity must
# hold for each of them:
#   real - the interpreter's own stack: FileIO -> BufferedWriter(default size) -> TextIOWrapper; ops are counted
#          at the RAW level (one op per write(2) the process would issue), data sits in user space until then
#   huge - same stack with a 4 MiB buffer: nothing reaches the file before flush()/close()
#   wt   - write-through: every completed Python-level write() is on disk at once (a tiny buffer / explicit flush)
BUFS = ("real", "huge", "wt")
HUGE_BUF = 4 << 20
BULK_INPS = ("ls -la /srv/data/d", "echo value", "git log -n")

MUTATING = ("open-w", "fdopen-w", "osopen-w", "write", "bwrite", "oswrite", "close-w", "mkstemp", "replace", "rename",
            "remove", "unlink", "truncate", "ftruncate")
READ_ONLY = ("open-r", "fdopen-r", "osopen-r", "read")
ERRNOS = {
    "open-r": ("EACCES", "EIO", "EMFILE"),
    "fdopen-r": ("EIO",),
    "osopen-r": ("EACCES", "EIO", "EMFILE"),
    "read": ("EIO",),
    "open-w": ("ENOSPC", "EACCES", "EIO"),
    "fdopen-w": ("EIO",),
    "osopen-w": ("ENOSPC", "EACCES", "EIO"),
    "mkstemp": ("ENOSPC", "EACCES", "EIO"),
    "write": ("ENOSPC", "EIO"),
    "bwrite": ("ENOSPC", "EIO"),
    "oswrite": ("ENOSPC", "EIO"),
    "close-w": ("ENOSPC", "EIO"),
    "replace": ("ENOSPC", "EACCES", "EIO"),
    "rename": ("ENOSPC", "EACCES", "EIO"),
    "remove": ("EACCES", "EIO"),
    "unlink": ("EACCES", "EIO"),
    "truncate": ("EACCES", "EIO"),
    "ftruncate": ("EIO",),
}


# ----------------------------------------------------------------------------------------
# harness-owned clock (same idea as C14)


class _Clock:
    def time(self):
        return NOW

    def sleep(self, s):
        cur = threading.current_thread()
        for t in threading.enumerate():
            if t is not cur and type(t).__name__.endswith("HistoryGC"):
                t.join(min(s, 0.05))
                return
        _real_time.sleep(min(s, 0.0005))

    def __getattr__(self, name):
        return getattr(_real_time, name)


_state = {}


def _setup(scratch):
    """Load a real XonshSession (no Execer: history code does not need one, and the parser's table
    loader thread must not be alive when we fork)."""
    if _state:
        return _state
    from vlib import session

    base = os.path.join(scratch, "c13-%d" % os.getpid())
    data = os.path.join(base, "data")
    os.makedirs(data, exist_ok=True)
    from xonsh.built_ins import XSH
    from xonsh.environ import Env

    if XSH.builtins_loaded:
        session.unload_session()
    envd = session.base_env_dict(base, XONSH_HISTORY_BACKEND="json", XONSH_DATA_DIR=data,
                                 XONSH_HISTORY_SIZE=(10 ** 9, "commands"))
    XSH.load(ctx={}, execer=None, env=Env(envd))
    XSH.history = None
    import xonsh.history.json as xhj
    import xonsh.history.sqlite as xhs
    import xonsh.lib.lazyjson as xlj
    import xonsh.xoreutils.uptime as up

    if not (hasattr(xhj, "time") and hasattr(xhj.time, "sleep") and getattr(xhj, "uptime", None) is up):
        raise common.HarnessError("xonsh.history.json no longer reaches the clock through `time` / `uptime`")
    clock = _Clock()
    xhj.time = clock
    xhs.time = clock
    up.boottime = lambda: BOOT
    _state.update(XSH=XSH, xhj=xhj, xhs=xhs, xlj=xlj, base=base, data=data, cache={}, bufsize=_probe_bufsize(base))
    return _state


def _probe_bufsize(dirpath):
    """The write-buffer size open() really picks for a file in the scratch file system (st_blksize and
    interpreter dependent), found by experiment: bytes accepted before the first one reaches the file."""
    p = os.path.join(dirpath, "bufprobe-%d" % os.getpid())
    with open(p, "wb") as f:
        fd, size = f.fileno(), 0
        for _ in range(HUGE_BUF):
            f.write(b"x")
            size = os.fstat(fd).st_size
            if size:
                break
    os.remove(p)
    if not size:
        raise common.HarnessError("could not determine the default write-buffer size")
    return size


# ----------------------------------------------------------------------------------------
# scenario -> bytes on disk


def _file_path(data, fs):
    if fs["where"] == "hist":
        return os.path.join(data, "history_json", "xonsh-%s.json" % fs["sid"])
    if fs["where"] == "data":
        return os.path.join(data, "xonsh-%s.json" % fs["sid"])
    return os.path.join(data, "custom", "hist-%s.json" % fs["sid"])


def _file_meta(i, fs, counter):
    cmds = []
    for inp, rtn in fs["cmds"]:
        tsb = BOOT - 50_000.0 + 7.0 * counter[0]
        counter[0] += 1
        cmds.append({"inp": inp + "\n", "rtn": rtn, "ts": [tsb, tsb + 1.5], "cwd": "/home/u"})
    for j in range(fs.get("bulk") or 0):    # payload above the I/O buffer size; j and j + 96 are duplicates
        tsb = BOOT - 50_000.0 + 7.0 * counter[0]
        counter[0] += 1
        cmds.append({"inp": "%s %04d\n" % (BULK_INPS[j % 3], j % 96), "rtn": 0, "ts": [tsb, tsb + 1.5], "cwd": "/home/u"})
    t0 = (BOOT - 5000.0 - i) if fs["lock"] == "stale" or (fs["lock"] == "no" and fs.get("old")) else (BOOT + 5000.0 + i)
    meta = {"cmds": cmds, "sessionid": fs["sid"], "ts": [t0, (t0 + 100.0) if fs["closed"] else None],
            "locked": fs["lock"] != "no"}
    if fs.get("env"):
        meta["env"] = {"PATH": "/usr/bin:/bin", "HOME": "/home/u", "XONSH_INTERACTIVE": "1"}
    return meta


def _file_bytes(meta, corrupt):
    xlj = _state["xlj"]
    s = xlj.dumps(meta, sort_keys=True)
    if corrupt is None:
        return s.encode("utf-8")
    if corrupt == "trunc":
        return s[: (len(s) * 2) // 3].encode("utf-8")
    if corrupt == "garbage":
        return b"\x00\x01 this is not a history file \xff\xfe\n" * 4
    if corrupt == "empty":
        return b""
    if corrupt == "plainjson":
        return json.dumps(meta).encode("utf-8")
    if corrupt == "shortindex":
        return s[:60].encode("utf-8")
    raise common.HarnessError("bad corrupt kind %r" % corrupt)


def build_scenario(scn):
    """-> list of dicts {spec, path, rel, bytes, mtime, meta}; self-checks that intact members load."""
    st = _state
    out = []
    counter = [0]
    for i, fs in enumerate(scn["files"]):
        meta = _file_meta(i, fs, counter)
        b = _file_bytes(meta, fs.get("corrupt"))
        path = _file_path(st["data"], fs)
        out.append({"spec": fs, "path": path, "rel": os.path.relpath(path, st["data"]), "bytes": b,
                    "mtime": NOW - 1000.0 * (len(scn["files"]) - i), "meta": meta, "i": i})
    rels = [e["rel"] for e in out]
    if len(set(rels)) != len(rels):
        raise common.HarnessError("scenario has two files at the same path")
    return out


def materialize(entries):
    data = _state["data"]
    shutil.rmtree(data, ignore_errors=True)
    os.makedirs(os.path.join(data, "history_json"))
    for e in entries:
        os.makedirs(os.path.dirname(e["path"]), exist_ok=True)
        with open(e["path"], "wb") as f:
            f.write(e["bytes"])
        os.utime(e["path"], (e["mtime"], e["mtime"]))


def load_state(path, raw):
    """('ok', dict) when LazyJSON(path).load() succeeds, else ('bad', reason).  Cached by content."""
    cache = _state["cache"]
    key = common.h64(raw)
    if key in cache:
        return cache[key]
    xlj = _state["xlj"]
    probe = os.path.join(_state["base"], "probe-%d.json" % os.getpid())   # never trust what is at `path` now
    try:
        if len(raw) == 0:
            raise ValueError("zero-length file")
        with open(probe, "wb") as f:
            f.write(raw)
        lj = xlj.LazyJSON(probe)
        d = lj.load()
        if not isinstance(d, dict) or not isinstance(d.get("cmds"), list):
            raise ValueError("loaded value is not a history mapping: %r" % (type(d).__name__,))
        res = ("ok", d)
    except Exception as e:  # noqa: BLE001
        res = ("bad", "%s: %s" % (type(e).__name__, str(e)[:120]))
    if len(cache) > 4000:
        cache.clear()
    cache[key] = res
    return res


def snapshot(entries):
    """-> {rel: bytes or None} for the scenario's files, plus the list of other files now present."""
    snap = {}
    for e in entries:
        try:
            with open(e["path"], "rb") as f:
                snap[e["rel"]] = f.read()
        except FileNotFoundError:
            snap[e["rel"]] = None
        except IsADirectoryError:
            snap[e["rel"]] = None
    return snap


def stray_history_files(entries):
    """Files the operation left behind that xonsh will enumerate as history files (xonsh-*.json in
    history_json/ or in the data dir) although the scenario never had them -> [(rel, bytes)]."""
    data = _state["data"]
    known = {e["path"] for e in entries}
    out = []
    for d in (os.path.join(data, "history_json"), data):
        try:
            names = sorted(os.listdir(d))
        except OSError:
            continue
        for n in names:
            p = os.path.join(d, n)
            if n.startswith("xonsh-") and n.endswith(".json") and p not in known and os.path.isfile(p):
                with open(p, "rb") as f:
                    out.append((os.path.relpath(p, data), f.read()))
    return out


# ----------------------------------------------------------------------------------------
# injector (lives in the forked child)


class _Injector:
    def __init__(self, root, plan, wfd, buf="wt"):
        self.root = os.path.realpath(root)
        self.buf = buf
        self.plan = plan
        self.wfd = wfd
        self.n = 0
        self.depth = 0
        self.trace = []
        self.fdmap = {}
        self.tmpnames = set()       # names handed out by mkstemp, whatever they look like
        self.active = True

    def report(self, obj):
        os.write(self.wfd, (json.dumps(obj) + "\n").encode())

    def label(self, p):
        if isinstance(p, int):
            q = self.fdmap.get(p)
            return None if q is None else self.label(q)
        try:
            p = os.fspath(p)
        except TypeError:
            return None
        if isinstance(p, bytes):
            p = os.fsdecode(p)
        p = os.path.abspath(p)
        if not (p == self.root or p.startswith(self.root + os.sep)):
            rp = os.path.realpath(p)
            if not rp.startswith(self.root + os.sep):
                return None
            p = rp
        rel = os.path.relpath(p, self.root)
        if p in self.tmpnames or rel.endswith(".tmp") or re.search(r"(^|/)tmp[^/]*$", rel):
            rel = os.path.join(os.path.dirname(rel), "<tmp>")
        return rel

    def op(self, kind, label, nbytes=None):
        k = self.n
        self.n += 1
        self.trace.append([kind, label, nbytes])
        p = self.plan
        if p is None or p["k"] != k:
            return None
        self.report({"hit": [k, kind, label]})
        if p["mode"] == "crash":
            if p.get("m") is None or kind not in ("write", "oswrite"):
                os._exit(9)
            return ("partial", p["m"])
        return ("fault", p["errno"])

    def fail(self, act, label):
        code = getattr(_errno, act[1])
        raise OSError(code, os.strerror(code), label)


def _install(inj):
    """Replace the file-system entry points with counting / faulting wrappers (child only)."""
    import builtins
    import io
    import tempfile

    o_open = io.open
    o_osopen, o_oswrite, o_osclose = os.open, os.write, os.close
    o_replace, o_rename, o_remove, o_unlink = os.replace, os.rename, os.remove, os.unlink
    o_truncate, o_ftruncate = os.truncate, os.ftruncate
    o_mkstemp = tempfile.mkstemp

    class CText(io.TextIOWrapper):
        _c13_label = None
        _c13_w = False
        _c13_rawlevel = False

        def write(self, s):
            if inj.depth or not inj.active or self._c13_label is None or self._c13_rawlevel:
                return super().write(s)     # raw level: the real buffering decides when write(2) happens
            enc = s.encode(self.encoding or "utf-8", self.errors or "strict")
            if self._c13_newline_translate:
                enc = enc.replace(b"\n", os.linesep.encode())
            act = inj.op("write", self._c13_label, len(enc))
            if act is not None:
                super().flush()
                m = act[1] if act[0] == "partial" else len(enc) // 2
                if m:
                    o_oswrite(self.fileno(), enc[:m])
                if act[0] == "partial":
                    os._exit(9)
                inj.fail(act, self._c13_label)
            r = super().write(s)
            super().flush()          # every completed write reaches the file: superset of real states
            return r

        def read(self, *a):
            if not (inj.depth or not inj.active or self._c13_label is None):
                act = inj.op("read", self._c13_label)
                if act is not None:
                    inj.fail(act, self._c13_label)
            return super().read(*a)

        def close(self):
            if self._c13_w and not self.closed and not inj.depth and inj.active:
                act = inj.op("close-w", self._c13_label)
                if act is not None:
                    try:
                        super().close()
                    finally:
                        inj.fail(act, self._c13_label)
            return super().close()

    class CRaw(io.FileIO):
        """Raw file of the 'real' / 'huge' models: one op per write(2) the process issues."""
        _c13_label = None

        def write(self, b):
            if inj.depth or not inj.active or self._c13_label is None:
                return super().write(b)
            data = bytes(b)
            act = inj.op("write", self._c13_label, len(data))
            if act is not None:
                m = act[1] if act[0] == "partial" else len(data) // 2
                if m:
                    o_oswrite(self.fileno(), data[:m])
                if act[0] == "partial":
                    os._exit(9)
                inj.fail(act, self._c13_label)
            return super().write(b)

    def w_open(file, mode="r", buffering=-1, encoding=None, errors=None, newline=None, closefd=True, opener=None):
        label = None if (inj.depth or not inj.active) else inj.label(file)
        if label is None:
            return o_open(file, mode, buffering, encoding, errors, newline, closefd, opener)
        writing = any(c in mode for c in "wax+")
        kind = ("fdopen-" if isinstance(file, int) else "open-") + ("w" if writing else "r")
        act = inj.op(kind, label)
        if act is not None:
            inj.fail(act, label)
        if "b" in mode:
            # binary handles: the I/O on them is not wrapped (shutil uses sendfile on the raw fds); a writable
            # one gets a synthetic op right after the open = "the data has not been written yet"
            f = o_open(file, mode, buffering, encoding, errors, newline, closefd, opener)
            if writing:
                act = inj.op("bwrite", label)
                if act is not None:
                    f.close()
                    inj.fail(act, label)
            return f
        rawlevel = writing and inj.buf != "wt"
        if rawlevel:
            fio = CRaw(file, mode.replace("t", ""), closefd=closefd, opener=opener)
            fio._c13_label = label
            try:
                bs = HUGE_BUF if inj.buf == "huge" else buffering if buffering > 1 else _state["bufsize"]
                raw = (io.BufferedRandom if "+" in mode else io.BufferedWriter)(fio, bs)
            except BaseException:
                fio.close()
                raise
        else:
            raw = o_open(file, mode.replace("t", "") + "b", -1, None, None, None, closefd, opener)
        try:
            f = CText(raw, encoding=encoding or "utf-8", errors=errors, newline=newline,
                      line_buffering=bool(rawlevel and buffering == 1 and inj.buf == "real"))
        except BaseException:
            raw.close()
            raise
        f._c13_label = label
        f._c13_rawlevel = rawlevel
        f._c13_w = writing
        f._c13_newline_translate = newline is None and os.linesep != "\n"
        f.mode = mode
        return f

    def w_osopen(path, flags, mode=0o777, *, dir_fd=None):
        label = None if (inj.depth or not inj.active or dir_fd is not None) else inj.label(path)
        if label is None:
            if dir_fd is not None:
                return o_osopen(path, flags, mode, dir_fd=dir_fd)
            return o_osopen(path, flags, mode)
        writing = bool(flags & (os.O_WRONLY | os.O_RDWR | os.O_CREAT | os.O_TRUNC | os.O_APPEND))
        act = inj.op("osopen-w" if writing else "osopen-r", label)
        if act is not None:
            inj.fail(act, label)
        fd = o_osopen(path, flags, mode)
        inj.fdmap[fd] = os.path.abspath(os.fspath(path))
        return fd

    def w_oswrite(fd, data):
        if inj.depth or not inj.active or fd not in inj.fdmap or fd == inj.wfd:
            return o_oswrite(fd, data)
        label = inj.label(fd)
        if label is None:
            return o_oswrite(fd, data)
        data = bytes(data)
        act = inj.op("oswrite", label, len(data))
        if act is not None:
            m = act[1] if act[0] == "partial" else len(data) // 2
            if m:
                o_oswrite(fd, data[:m])
            if act[0] == "partial":
                os._exit(9)
            inj.fail(act, label)
        return o_oswrite(fd, data)

    def w_osclose(fd):
        inj.fdmap.pop(fd, None)
        return o_osclose(fd)

    def _two(kind, orig):
        def w(src, dst, *a, **kw):
            if inj.depth or not inj.active or a or kw:
                return orig(src, dst, *a, **kw)
            ls, ld = inj.label(src), inj.label(dst)
            if ls is None and ld is None:
                return orig(src, dst)
            label = "%s -> %s" % (ls, ld)
            act = inj.op(kind, label)
            if act is not None:
                inj.fail(act, label)
            return orig(src, dst)
        return w

    def _one(kind, orig):
        def w(path, *a, **kw):
            if inj.depth or not inj.active or kw.get("dir_fd") is not None:
                return orig(path, *a, **kw)
            label = inj.label(path)
            if label is None:
                return orig(path, *a, **kw)
            act = inj.op(kind, label)
            if act is not None:
                inj.fail(act, label)
            return orig(path, *a, **kw)
        return w

    def w_mkstemp(suffix=None, prefix=None, dir=None, text=False):
        label = None if (inj.depth or not inj.active or dir is None) else inj.label(dir)
        if label is None:
            return o_mkstemp(suffix, prefix, dir, text)
        label = os.path.join(label, "<tmp>")
        act = inj.op("mkstemp", label)
        if act is not None:
            inj.fail(act, label)
        inj.depth += 1
        try:
            fd, name = o_mkstemp(suffix, prefix, dir, text)
        finally:
            inj.depth -= 1
        inj.fdmap[fd] = name
        inj.tmpnames.add(os.path.abspath(name))
        return fd, name

    builtins.open = w_open
    io.open = w_open
    os.open = w_osopen
    os.write = w_oswrite
    os.close = w_osclose
    os.replace = _two("replace", o_replace)
    os.rename = _two("rename", o_rename)
    os.remove = _one("remove", o_remove)
    os.unlink = _one("unlink", o_unlink)
    os.truncate = _one("truncate", o_truncate)
    os.ftruncate = _one("ftruncate", o_ftruncate)
    tempfile.mkstemp = w_mkstemp
    # deterministic directory order (independent of the file system's hashing)
    o_listdir = os.listdir

    def w_listdir(path="."):
        return sorted(o_listdir(path))

    os.listdir = w_listdir


# ----------------------------------------------------------------------------------------
# the operation (child side; also used by the strace driver)


def _own_entry(scn, entries):
    return entries[scn["own"]]


def _make_history(scn, entries):
    st = _state
    xhj, XSH = st["xhj"], st["XSH"]
    op = scn["op"]
    own = _own_entry(scn, entries)
    env = XSH.env
    env["HISTCONTROL"] = set(op.get("histcontrol") or ())
    env["XONSH_STORE_STDOUT"] = bool(op.get("store_stdout"))
    if own["spec"]["where"] == "custom":
        env["XONSH_HISTORY_FILE"] = own["path"]
    if op["kind"] == "gc_startup":
        env["XONSH_HISTORY_SIZE"] = tuple(op["size"])
    hist = xhj.JsonHistory(filename=own["path"], sessionid=own["spec"]["sid"], gc=False,
                           ts=[BOOT + 5000.0, None], locked=True, buffersize=10 ** 6)
    XSH.history = hist
    return hist


def _buffered_cmds(op):
    out = []
    for j, (inp, rtn) in enumerate(op.get("cmds") or ()):
        c = {"inp": inp + "\n", "rtn": rtn, "ts": [NOW - 100.0 + j, NOW - 99.5 + j], "cwd": "/home/u"}
        if op.get("out"):
            c["out"] = "output of %d\n" % j
        out.append(c)
    return out


def _perform(scn, hist):
    st = _state
    xhj, XSH = st["xhj"], st["XSH"]
    op = scn["op"]
    kind = op["kind"]
    cmds = _buffered_cmds(op)
    if kind == "autoflush":
        hist.buffersize = len(cmds)
        hf = None
        for c in cmds:
            hf = hist.append(c) or hf
        if isinstance(hf, threading.Thread):
            hf.join()
        return
    for c in cmds:
        hist.append(c)
    if kind == "flush":
        hf = hist.flush()
        if isinstance(hf, threading.Thread):
            hf.join()
    elif kind == "flush_exit":
        hist.flush(at_exit=True)
    elif kind == "flush_hook":
        hook = getattr(XSH, "_flush_on_exit", None)
        if hook is None:
            raise common.HarnessError("XonshSession.load no longer registers _flush_on_exit")
        hook()
    elif kind == "delete":
        hist.delete(op["pattern"])
    elif kind == "erasedups":
        hist.erasedups()
    elif kind == "gc_files":
        gc = xhj.JsonHistoryGC.__new__(xhj.JsonHistoryGC)
        xhj.JsonHistoryGC.files(gc, only_unlocked=bool(op.get("only_unlocked")))
    elif kind == "run_gc":
        hist.run_gc(size=tuple(op["size"]), blocking=True, force=bool(op.get("force")))
        if hist.gc is not None:
            hist.gc.join()
    elif kind == "gc_startup":
        gc = xhj.JsonHistoryGC()
        gc.wait_for_shell = False
        gc.join()
    else:
        raise common.HarnessError("bad op kind %r" % kind)


def _child(scn, entries, plan, wfd, buf="wt"):
    """Runs in the forked child; never returns."""
    code = 70
    try:
        signal.signal(signal.SIGALRM, signal.SIG_DFL)
        signal.alarm(30)
        dn = os.open(os.devnull, os.O_WRONLY)
        os.dup2(dn, 1)
        os.dup2(dn, 2)
        thread_exc = []
        threading.excepthook = lambda a: thread_exc.append("%s: %s" % (getattr(a.exc_type, "__name__", "?"), a.exc_value))
        hist = _make_history(scn, entries)
        inj = _Injector(_state["data"], plan, wfd, buf)
        _install(inj)
        exc = None
        try:
            _perform(scn, hist)
        except common.HarnessError as e:
            inj.active = False
            inj.report({"harness": str(e)})
            os._exit(71)
        except BaseException as e:  # noqa: BLE001
            exc = "%s: %s" % (type(e).__name__, str(e)[:200])
        inj.active = False
        inj.report({"done": True, "trace": inj.trace, "exc": exc, "thread_exc": thread_exc})
        code = 0
    except BaseException as e:  # noqa: BLE001
        try:
            os.write(wfd, (json.dumps({"harness": "child setup failed: %s: %s" % (type(e).__name__, e)}) + "\n").encode())
        except Exception:  # noqa: BLE001
            pass
    finally:
        os._exit(code)


def run_point(scn, entries, plan, buf="wt"):
    """Materialise, fork, run the operation under `plan`, wait.  -> dict(msgs..., status)."""
    if threading.active_count() != 1:
        raise common.HarnessError("cannot fork: %d threads alive in the worker" % threading.active_count())
    materialize(entries)
    r, w = os.pipe()
    pid = os.fork()
    if pid == 0:
        os.close(r)
        _child(scn, entries, plan, w, buf)
    os.close(w)
    chunks = []
    while True:
        b = os.read(r, 65536)
        if not b:
            break
        chunks.append(b)
    os.close(r)
    _, status = os.waitpid(pid, 0)
    res = {"hit": None, "done": False, "trace": None, "exc": None, "status": status}
    for line in b"".join(chunks).decode("utf-8", "replace").splitlines():
        try:
            m = json.loads(line)
        except ValueError:
            continue
        if "harness" in m:
            raise common.HarnessError("child: %s" % m["harness"])
        if "hit" in m:
            res["hit"] = m["hit"]
        if m.get("done"):
            res.update(done=True, trace=m["trace"], exc=m["exc"], thread_exc=m.get("thread_exc"))
    return res


# ----------------------------------------------------------------------------------------
# oracle


def _inps(d):
    return [c.get("inp") for c in d["cmds"]]


def model_check_clean(scn, entries, old_states, new_snap):
    """The un-faulted run against a model written from the property text.  -> list of problems."""
    op = scn["op"]
    kind = op["kind"]
    problems = []
    own = _own_entry(scn, entries)
    all_old = set()
    all_new = set()
    for e in entries:
        so = old_states[e["rel"]]
        raw = new_snap[e["rel"]]
        if raw is None:
            if gc_may_remove(scn, e, so):
                continue
            problems.append("%s is gone after an un-faulted %s" % (e["rel"], kind))
            continue
        if so[0] != "ok":
            continue
        sn = load_state(e["path"], raw) if raw != e["bytes"] else so
        if sn[0] != "ok":
            problems.append("%s unloadable after an un-faulted %s: %s" % (e["rel"], kind, sn[1]))
            continue
        o, n = _inps(so[1]), _inps(sn[1])
        all_old.update(x.rstrip() for x in o)
        all_new.update(x.rstrip() for x in n)
        if kind in FLUSH_KINDS:
            if e is own:
                buf = [c["inp"] for c in _buffered_cmds(op)]
                hc = set(op.get("histcontrol") or ())
                if not hc and n != o + buf:
                    problems.append("flush: %s holds %r, expected old + buffered %r" % (e["rel"], n, o + buf))
                elif n[:len(o)] != o:
                    problems.append("flush: %s lost saved commands: %r -> %r" % (e["rel"], o, n))
            elif n != o:
                problems.append("flush changed a foreign file %s" % e["rel"])
        elif kind == "delete":
            pat = re.compile(op["pattern"])
            want = [x for x in o if not pat.match(x)]
            if n != want:
                problems.append("delete(%r): %s holds %r, expected %r" % (op["pattern"], e["rel"], n, want))
        elif kind == "erasedups":
            it = iter(o)
            if not all(any(x == y for y in it) for x in n):
                problems.append("erasedups: %s is not a sub-sequence of its old list: %r -> %r" % (e["rel"], o, n))
        else:
            if n != o:
                problems.append("GC changed the commands of %s: %r -> %r" % (e["rel"], o, n))
            if e["spec"]["lock"] == "live" and not sn[1].get("locked"):
                problems.append("GC unlocked the live session file %s" % e["rel"])
    if kind == "erasedups" and all_old != all_new:
        problems.append("erasedups lost every copy of %r" % sorted(all_old - all_new))
    return problems


def _between(old, new, got):
    """An operation may rewrite a file more than once, each time atomically (a flush followed by the at-exit flush that unlocks
    the file and stamps the closing time): the complete version in between has the new command list and, field by field,
    the old or the new value of everything else."""
    if not (isinstance(old, dict) and isinstance(new, dict) and isinstance(got, dict)):
        return False
    if set(got) - (set(old) | set(new)) or got.get("cmds") != new.get("cmds"):
        return False
    for k, v in got.items():
        if k == "cmds":
            continue
        if k == "ts" and isinstance(v, list) and isinstance(old.get("ts"), list) and isinstance(new.get("ts"), list):
            if len(v) == 2 and v[0] in (old["ts"][0], new["ts"][0]) and v[1] in (old["ts"][1], new["ts"][1]):
                continue
            return False
        if not ((k in old and v == old[k]) or (k in new and v == new[k])):
            return False
    return True


def judge(scn, entries, old_states, new_snap, new_states, snap):
    """Post-crash state vs. {old, new}.  -> list of (kind, rel, detail)."""
    bad = []
    kind = scn["op"]["kind"]
    for e in entries:
        rel = e["rel"]
        raw = snap[rel]
        so, sn = old_states[rel], new_states.get(rel)
        if raw is None:
            if gc_may_remove(scn, e, so):
                continue        # which unlocked files GC picks is C14's business, not a crash artefact
            bad.append(("missing", rel, "%s existed before %s and is gone" % (rel, kind)))
            continue
        if raw == e["bytes"]:
            continue
        if new_snap[rel] is not None and raw == new_snap[rel]:
            continue
        s = load_state(e["path"], raw)
        if s[0] != "ok":
            what = "empty" if len(raw) == 0 else "unloadable"
            bad.append((what, rel, "%s is %s afterwards (%d bytes, was %d; %s)%s" % (
                rel, "zero-length" if not raw else "not loadable", len(raw), len(e["bytes"]), s[1],
                "" if so[0] == "ok" else " [member was already corrupt: %s]" % e["spec"].get("corrupt"))))
            continue
        if so[0] == "ok" and s[1] == so[1]:
            continue
        if sn is not None and sn[0] == "ok" and s[1] == sn[1]:
            continue
        if (kind in GC_KINDS and so[0] == "ok" and e["spec"]["lock"] == "stale"
                and s[1] == dict(so[1], locked=False)):
            continue            # the complete unlocked version (GC may remove the file afterwards)
        if so[0] == "ok" and sn is not None and sn[0] == "ok" and _between(so[1], sn[1], s[1]):
            continue            # a complete version between two atomic rewrites of one operation (flush, then the at-exit flush)
        if so[0] == "ok":
            o, n = _inps(so[1]), _inps(s[1])
            lost = [x for x in o if x not in n]
            bad.append(("third-state", rel, "%s is neither its old nor its new version: commands %r -> %r%s" % (
                rel, o, n, " (lost %r)" % lost if lost else "")))
        else:
            bad.append(("third-state", rel, "%s (corrupt before) became a version the un-faulted run does not write" % rel))
    return bad


HUGE = {"commands": 10 ** 6, "files": 100, "b": 10 ** 9, "s": 10 ** 9}


def gc_may_remove(scn, e, old_state):
    """May a GC pass with this scenario's limit delete file e at all?  (Never a loadable live-locked file,
    never anything when the limit is far above the collection.)"""
    op = scn["op"]
    if op["kind"] not in ("run_gc", "gc_startup"):
        return False
    n, unit = op["size"]
    if n >= HUGE[unit]:
        return False
    if e["spec"]["lock"] == "live" and old_state[0] == "ok":
        return False
    return True


def is_f1(scn, e, trace, point):
    """C13-F1: GC enumeration rewrites a stale locked file with an in-place open(f, 'w')."""
    if scn["op"]["kind"] not in GC_KINDS:
        return False
    fs = e["spec"]
    if fs["lock"] != "stale" or fs.get("corrupt"):
        return False
    j = next((i for i, t in enumerate(trace) if t[0] == "open-w" and t[1] == e["rel"]), None)
    if j is None:
        return False
    c = next((i for i in range(j + 1, len(trace)) if trace[i][0] == "close-w" and trace[i][1] == e["rel"]), len(trace))
    return j < point["k"] <= c


def is_f2(scn, e, trace, point, old_state, state):
    """C13-F2: flush reads its own intact file, the open/read fails with OSError -> dump() starts from an
    empty history and replaces the file with the buffered commands only."""
    if scn["op"]["kind"] not in FLUSH_KINDS or point["mode"] != "fault":
        return False
    if e["i"] != scn["own"] or e["spec"].get("corrupt"):
        return False
    t = trace[point["k"]]
    if t[0] not in ("open-r", "read") or t[1] != e["rel"]:
        return False
    if old_state[0] != "ok" or state is None or state[0] != "ok":
        return False
    buf = [c["inp"] for c in _buffered_cmds(scn["op"])]
    n = _inps(state[1])
    return state[1].get("sessionid") == "" and all(x in buf for x in n)


def enumerate_points(trace, buf="wt"):
    """Every kill point of one reference trace.  (The state after the LAST op needs no point of its own: the
    reference child itself ends with os._exit right after the operation returns, so its result - checked by
    model_check_clean - is the state a kill at k = N leaves, unflushed buffers included.)"""
    pts = []
    for p in _enumerate_points(trace):
        kind = trace[p["k"]][0]
        if buf != BUFS[0] and kind in READ_ONLY:
            continue        # a read changes nothing on disk and does not depend on the write buffering: the crash
                            # state equals the one before the next op, the fault outcome the one under BUFS[0]
        if buf != BUFS[0] and p["mode"] == "fault" and p["errno"] != ERRNOS.get(kind, ("EIO",))[0]:
            continue        # which errno an op fails with is enumerated in full under BUFS[0]
        if buf != "wt":
            p["buf"] = buf
        pts.append(p)
    return pts


def _enumerate_points(trace):
    pts = []
    for k, (kind, label, nb) in enumerate(trace):
        pts.append({"mode": "crash", "k": k, "m": None})
        if kind in ("write", "oswrite") and nb is not None:
            if nb <= 64:
                ms = range(0, nb)
            else:
                ms = sorted({0, 1, 57, 69, nb // 2, nb - 2, nb - 1} & set(range(nb)))
            for m in ms:
                pts.append({"mode": "crash", "k": k, "m": m})
        for en in ERRNOS.get(kind, ("EIO",)):
            pts.append({"mode": "fault", "k": k, "errno": en})
    return pts


def point_nontrivial(trace, point):
    muts = [i for i, t in enumerate(trace) if t[0] in MUTATING]
    if not muts:
        return False
    first, last = muts[0], muts[-1]
    k = point["k"]
    if point["mode"] == "crash":
        if point.get("m") is not None:
            return True
        return first < k <= last
    return k <= last


class Prepared:
    """A scenario with its un-faulted reference run."""

    def __init__(self, scn, buf="wt"):
        self.scn = scn
        self.buf = buf
        self.entries = build_scenario(scn)
        self.old_states = {}
        materialize(self.entries)
        for e in self.entries:
            self.old_states[e["rel"]] = load_state(e["path"], e["bytes"])
            if not e["spec"].get("corrupt") and self.old_states[e["rel"]][0] != "ok":
                raise common.HarnessError("generated intact history file does not load: %s" % (self.old_states[e["rel"]][1],))
        ref = run_point(scn, self.entries, None, buf)
        if not ref["done"]:
            raise common.HarnessError("un-faulted reference run did not finish (status %r)" % ref["status"])
        self.trace = ref["trace"]
        self.ref_exc = ref["exc"]
        self.ref_thread_exc = ref.get("thread_exc") or []
        self.new_snap = snapshot(self.entries)
        ref_strays = stray_history_files(self.entries)
        self.new_states = {}
        for e in self.entries:
            raw = self.new_snap[e["rel"]]
            if raw is not None:
                self.new_states[e["rel"]] = load_state(e["path"], raw)
        for e in self.entries:        # self-check: every change on disk is explained by a wrapped op
            if self.new_snap[e["rel"]] != e["bytes"] and not any(
                    t[0] in MUTATING and e["rel"] in t[1].split(" -> ") for t in self.trace):
                raise common.HarnessError("%s changed during %s but no wrapped file-system op touched it: the "
                                          "operation uses an entry point the injector does not cover (trace %r)" % (
                                              e["rel"], scn["op"]["kind"], self.trace))
        self.clean_problems = model_check_clean(scn, self.entries, self.old_states, self.new_snap)
        for rel, raw in ref_strays:
            if load_state(rel, raw)[0] != "ok":
                self.clean_problems.append("un-faulted %s leaves a new unloadable history file %s" % (scn["op"]["kind"], rel))
        if self.ref_exc:
            self.clean_problems.append("un-faulted operation raised %s" % self.ref_exc)
        if self.ref_thread_exc:
            self.clean_problems.append("un-faulted operation's thread raised %s" % self.ref_thread_exc)

    def run(self, point, tolerate=True, stats=None):
        """-> (list of Failure, tolerated finding ids)"""
        scn = self.scn
        k = point["k"]
        if not (0 <= k < len(self.trace)):
            return [], []
        if point.get("buf", "wt") != self.buf:
            raise common.HarnessError("point %r belongs to another buffering model than %r" % (point, self.buf))
        res = run_point(scn, self.entries, point, self.buf)
        if res["hit"] is None or res["hit"][1:] != self.trace[k][:2]:
            res = run_point(scn, self.entries, point, self.buf)
            if res["hit"] is None or res["hit"][1:] != self.trace[k][:2]:
                raise common.HarnessError("op numbering is not reproducible: point %r hit %r, reference op %r" % (
                    point, res["hit"], self.trace[k]))
        snap = snapshot(self.entries)
        if point["mode"] == "crash" and res["done"]:
            raise common.HarnessError("crash point %r: the child finished normally" % (point,))
        if os.WIFSIGNALED(res["status"]) and stats is not None:
            stats.inconclusive += 1
            stats.notes.append("child killed by signal %d at %r (%s)" % (os.WTERMSIG(res["status"]), point, scn["op"]["kind"]))
        bad = judge(scn, self.entries, self.old_states, self.new_snap, self.new_states, snap)
        fails, tol = [], []
        by_rel = {e["rel"]: e for e in self.entries}
        strays = {}
        for rel, raw in stray_history_files(self.entries):
            st_ = load_state(rel, raw)
            if st_[0] != "ok":      # a staging file under a name xonsh enumerates as history, left half-written
                strays[rel] = raw
                bad.append(("stray", rel, "%s did not exist before; it is enumerated as a history file and is not loadable "
                            "(%d bytes; %s)" % (rel, len(raw), st_[1])))
        for kind, rel, detail in bad:
            if rel in strays:
                e, finding, state = None, None, None
                opk = self.trace[k]
                fails.append(Failure(kind, {"scenario": scn, "point": point}, "%s: point %r at op %d (%s %s); %s" % (
                    scn["op"]["kind"], point["mode"], k, opk[0], opk[1], detail),
                    bucket="stray:%s:%s" % (op_family(scn["op"]["kind"]), opk[0])))
                continue
            e = by_rel[rel]
            state = load_state(e["path"], snap[rel]) if snap[rel] is not None else None
            finding = None
            if is_f1(scn, e, self.trace, point):
                finding = "C13-F1"
            elif is_f2(scn, e, self.trace, point, self.old_states[rel], state):
                finding = "C13-F2"
            if finding and tolerate:
                tol.append(finding)
                continue
            opk = self.trace[k]
            where = ("crash before op %d (%s %s)" % (k, opk[0], opk[1]) if point["mode"] == "crash" and point.get("m") is None
                     else "crash after %d of %d bytes of op %d (%s %s)" % (point["m"], opk[2] or 0, k, opk[0], opk[1])
                     if point["mode"] == "crash" else "%s injected at op %d (%s %s)" % (point["errno"], k, opk[0], opk[1]))
            where += {"real": " [real buffering: %d-byte BufferedWriter, ops = raw writes]" % _state["bufsize"],
                      "huge": " [buffering model: nothing reaches the file before flush/close]",
                      "wt": " [buffering model: every completed write() is on disk]"}[self.buf]
            fails.append(Failure(kind, {"scenario": scn, "point": point},
                                 "%s: %s; %s" % (scn["op"]["kind"], where, detail), finding=finding,
                                 bucket="%s:%s:%s" % (finding or ("unloadable" if kind == "empty" else kind),
                                                      op_family(scn["op"]["kind"]), opk[0])))
        return fails, tol


def op_family(kind):
    return "flush" if kind in FLUSH_KINDS else "gc" if kind in GC_KINDS else kind


def scn_key(scn):
    return json.dumps(scn, sort_keys=True)


def explore_scenario(scn, stats, tolerate=True, only=None):
    """Enumerate every point of one scenario under every buffering model (only=(mode, op kind at k, buf)
    restricts the enumeration; used while shrinking).  Returns the list of failures."""
    kind = scn["op"]["kind"]
    key0 = scn_key(scn)
    fails = []
    first = None
    traces = []
    for buf in (BUFS if only is None else (only[2],)):
        P = Prepared(scn, buf)
        if first is None:
            first = P
            nmut = sum(1 for t in P.trace if t[0] in MUTATING)
            stats.hist["scenarios"] += 1
            stats.hist["scenario-op:" + kind] += 1
            stats.hist["scenario-files:%d" % len(scn["files"])] += 1
            stats.hist["scenario-ops:%s" % ("0" if not P.trace else "1-9" if len(P.trace) < 10 else "10-29" if len(P.trace) < 30 else "30+")] += 1
            if not nmut:
                stats.hist["scenario-without-rewrite"] += 1
            for lab, pred in (("stale-locked", lambda f: f["lock"] == "stale"), ("live-locked", lambda f: f["lock"] == "live"),
                              ("corrupt", lambda f: f.get("corrupt")), ("compat-dir", lambda f: f["where"] == "data"),
                              ("custom-file", lambda f: f["where"] == "custom"), ("bulk-file", lambda f: f.get("bulk"))):
                if any(pred(f) for f in scn["files"]):
                    stats.hist["scenario-with:" + lab] += 1
            for e in P.entries:
                if P.new_snap[e["rel"]] not in (None, e["bytes"]):
                    n = len(P.new_snap[e["rel"]])
                    stats.hist["rewritten-file:%s" % ("below-buffer" if n <= _state["bufsize"] else
                                                      "above-buffer" if n <= 8192 else "above-8KiB")] += 1
        elif P.new_snap != first.new_snap:
            stats.hist["clean-result-differs-by-buffering"] += 1
        # the un-faulted run is a point of its own
        stats.case((key0, "clean", buf), False, ["op:" + kind, "mode:none", "buf:" + buf])
        if P.clean_problems:
            f = Failure("no-fault-run-damages", {"scenario": scn, "point": None, "buf": buf}, "; ".join(P.clean_problems[:3]),
                        bucket="clean:" + op_family(kind))
            fails.append(f)
        if P.trace in traces:
            # same sequence of ops (kinds, files, byte counts) as under a model already enumerated: the payloads of
            # this scenario make the two models coincide, every point would repeat the same execution
            stats.hist["buf-model-coincides:" + buf] += 1
            continue
        traces.append(P.trace)
        stats.hist["buf-model-enumerated:" + buf] += 1
        for point in enumerate_points(P.trace, buf):
            if only is not None and (point["mode"], P.trace[point["k"]][0]) != tuple(only[:2]):
                continue
            fs, tol = P.run(point, tolerate=tolerate, stats=stats)
            nt = point_nontrivial(P.trace, point)
            mode = ("partial" if point.get("m") is not None else "crash") if point["mode"] == "crash" else "fault:" + point["errno"]
            labels = ["op:" + kind, "mode:" + mode, "at:" + P.trace[point["k"]][0], "buf:" + buf]
            if point["mode"] == "crash" and point.get("m") is None and point["k"] > 0:
                labels.append("crash-after:%s/%s" % (P.trace[point["k"] - 1][0], buf))
            for t in tol:
                stats.excluded_known[t] += 1
                labels.append("tolerated:" + t)
            stats.case((key0, buf, point["mode"], point["k"], point.get("m"), point.get("errno")), nt, labels,
                       sample={"scenario": scn, "point": point, "op_at_k": P.trace[point["k"]]} if nt else None,
                       max_per_label=1)
            fails.extend(fs)
    return fails


# ----------------------------------------------------------------------------------------
# generation


OP_WEIGHTS = (("flush", 2), ("flush_exit", 1), ("flush_hook", 1), ("autoflush", 1), ("delete", 2), ("erasedups", 2),
              ("gc_files", 1), ("run_gc", 2), ("gc_startup", 2))


def scenario_strategy(kind=None):
    from hypothesis import strategies as st

    cmd = st.tuples(st.sampled_from(INPS), st.sampled_from([0, 0, 0, 1, 127]))

    kind0 = kind

    @st.composite
    def scenarios(draw):
        kind = kind0 or draw(st.sampled_from(OP_KINDS + ("flush", "delete", "erasedups", "run_gc", "gc_startup")))
        nfiles = draw(st.integers(1, 4))
        own = draw(st.integers(0, nfiles - 1))
        corrupt_at = draw(st.integers(0, nfiles - 1)) if draw(st.sampled_from([False, False, False, True])) else None
        # operations that only rewrite under a precondition get it most of the time
        stale_at = draw(st.integers(0, nfiles - 1)) if kind in GC_KINDS and draw(st.sampled_from([True, True, True, False])) else None
        cmd_here = cmd
        if kind == "erasedups" and draw(st.booleans()):
            cmd_here = st.tuples(st.sampled_from(INPS[:3]), st.sampled_from([0, 1]))
        files = []
        for i in range(nfiles):
            ncmd = draw(st.sampled_from([0, 1, 2, 3, 3, 4, 5, 8]))
            cmds = [list(draw(cmd_here)) for _ in range(ncmd)]
            if i == own:
                lock = draw(st.sampled_from(["live", "live", "live", "stale", "no"]))
                where = draw(st.sampled_from(["hist", "hist", "hist", "custom", "data"]))
                closed = False
            else:
                lock = draw(st.sampled_from(["no", "no", "stale", "stale", "live"] if kind in GC_KINDS
                                            else ["no", "no", "no", "stale", "live"]))
                where = draw(st.sampled_from(["hist", "hist", "hist", "data"]))
                closed = draw(st.booleans()) if lock != "live" else False
            if stale_at == i:
                lock, closed = "stale", (closed if i != own else False)
            fs = {"sid": "s%d" % i, "cmds": cmds, "lock": lock, "closed": closed, "where": where,
                  "env": draw(st.booleans()), "old": draw(st.booleans())}
            bulk = draw(st.sampled_from([0, 0, 0, 0, 0, 40, 120, 200]))     # 40: ~4-8 KiB, 120 / 200: above 8 KiB
            if bulk:
                fs["bulk"] = bulk
            if corrupt_at == i:
                fs["corrupt"] = draw(st.sampled_from(CORRUPT))
            files.append(fs)
        op = {"kind": kind}
        if kind in FLUSH_KINDS:
            op["cmds"] = [list(draw(cmd)) for _ in range(draw(st.integers(1, 5)))]
            op["histcontrol"] = sorted(draw(st.sampled_from([(), (), (), ("ignoredups",), ("ignoreerr",),
                                                              ("ignoredups", "ignoreerr")])))
            op["store_stdout"] = draw(st.booleans())
            op["out"] = draw(st.booleans())
        elif kind == "delete":
            op["pattern"] = draw(st.sampled_from(PATTERNS))
            op["cmds"] = [list(draw(cmd)) for _ in range(draw(st.sampled_from([0, 0, 2])))]
        elif kind == "erasedups":
            op["cmds"] = []
        elif kind == "gc_files":
            op["only_unlocked"] = draw(st.booleans())
        else:
            unit = draw(st.sampled_from(["commands", "commands", "files", "b", "s"]))
            total = sum(len(f["cmds"]) for f in files)
            n = draw(st.sampled_from({"commands": [10 ** 6, 10 ** 6, total, max(total - 1, 0), total // 2, 1, 0],
                                      "files": [100, nfiles, max(nfiles - 1, 0), 1, 0],
                                      "b": [10 ** 9, 2000, 600, 0],
                                      "s": [10 ** 9, 1500, 0]}[unit]))
            op["size"] = [n, unit]
            if kind == "run_gc":
                op["force"] = draw(st.booleans())
        return {"files": files, "own": own, "op": op}

    return scenarios()


def generate_scenarios(seed, n):
    """n distinct scenarios drawn by Hypothesis under the pinned seed (generation only; the enumeration
    of each scenario's points is deterministic and runs in the workers)."""
    box, seen = [], set()

    def body(scn):
        k = scn_key(scn)
        if k not in seen:
            seen.add(k)
            box.append(scn)

    total = sum(w for _, w in OP_WEIGHTS)
    per_kind = []
    for ki, (kind, w) in enumerate(OP_WEIGHTS):      # every operation kind gets its share in every run
        start = len(box)
        common.run_given(scenario_strategy(kind), body, seed * 131 + ki, max(1, (n * w) // total))
        per_kind.append(box[start:])
    # interleave so that every worker shard sees every kind
    out = []
    for j in range(max(len(x) for x in per_kind)):
        out.extend(x[j] for x in per_kind if j < len(x))
    return out


def _shrink_candidates(scn):
    files = scn["files"]
    for i in range(len(files)):
        if i != scn["own"] and len(files) > 1:
            c = json.loads(json.dumps(scn))
            del c["files"][i]
            if scn["own"] > i:
                c["own"] -= 1
            yield c
    for i, f in enumerate(files):
        for cmds in ([], f["cmds"][:1], f["cmds"][: len(f["cmds"]) // 2], f["cmds"][1:]):
            if cmds != f["cmds"]:
                c = json.loads(json.dumps(scn))
                c["files"][i]["cmds"] = cmds
                yield c
        for key, val in (("env", False), ("old", False), ("closed", False), ("where", "hist"), ("corrupt", None),
                         ("bulk", None)):
            if f.get(key) not in (val, None):
                c = json.loads(json.dumps(scn))
                if val is None:
                    c["files"][i].pop(key, None)
                else:
                    c["files"][i][key] = val
                yield c
    op = scn["op"]
    for key, val in (("cmds", (op.get("cmds") or [])[:1]), ("histcontrol", []), ("store_stdout", False), ("out", False),
                     ("force", False)):
        if key in op and op[key] != val and not (key == "cmds" and op["kind"] in FLUSH_KINDS and not val):
            c = json.loads(json.dumps(scn))
            c["op"][key] = val
            yield c


def shrink_scenario(scn, bucket, only, seconds=15.0):
    """Greedy deterministic minimisation: the smaller scenario must still fail in the same bucket
    (only the points of the failing class - same mode, same kind of op - are re-enumerated)."""
    deadline = _real_time.time() + seconds
    best = None
    progress = True
    while progress and _real_time.time() < deadline:
        progress = False
        for cand in _shrink_candidates(scn):
            if _real_time.time() > deadline:
                break
            try:
                hits = [g for g in explore_scenario(cand, Stats(), only=only) if g.bucket == bucket]
            except common.HarnessError:
                continue
            if hits:
                scn, best, progress = cand, hits[0], True
                break
    return best


def worker_json(arg):
    scns, scratch = arg
    _setup(scratch)
    stt = Stats()
    found = {}
    t0 = _real_time.time()
    for scn in scns:
        for f in explore_scenario(scn, stt):
            found.setdefault(f.bucket, f)
    stt.hist["worker-seconds:json"] += int(_real_time.time() - t0)
    out = []
    budget = _real_time.time() + 8.0            # minimisation must not push a failing quick run over its time
    for n, (b, f) in enumerate(found.items()):
        left = budget - _real_time.time()
        if n < 3 and left > 1.0 and f.case.get("point") is not None:
            g = shrink_scenario(f.case["scenario"], b, (f.case["point"]["mode"], b.rsplit(":", 1)[1],
                                                         f.case["point"].get("buf", "wt")), seconds=min(5.0, left))
            if g is not None:
                f = g
        out.append(f)
    stt.failures = out
    return stt


def check_case(case, tolerate=False):
    """Replay of one saved case ({'scenario':..., 'point':... | None}) -> Failure | None."""
    if case.get("sqlite") or case.get("strace"):
        return check_strace_case(case)
    scn = case["scenario"]
    P = Prepared(scn, (case.get("point") or case).get("buf", "wt"))     # replays from before the buffering models: wt
    if case.get("point") is None:
        if P.clean_problems:
            return Failure("no-fault-run-damages", case, "; ".join(P.clean_problems[:3]))
        return None
    fs, _ = P.run(case["point"], tolerate=tolerate)
    return fs[0] if fs else None


# ----------------------------------------------------------------------------------------
# syscall-level pass (strace): SQLite, and the JSON backend again

STRACE_CALLS = "write,pwrite64,pwritev,pwritev2,writev,fsync,fdatasync,ftruncate,truncate,unlink,unlinkat,rename,renameat,renameat2"
SQL_COLS = "inp, rtn, tsb, tse, sessionid"


def sqlite_build(path, case):
    """Create the pre-existing database with sqlite3 directly (schema copied from the backend's own)."""
    if os.path.exists(path):
        os.remove(path)
    con = sqlite3.connect(path)
    legacy = bool(case.get("legacy"))
    if not legacy:
        con.execute("PRAGMA journal_mode=WAL")
        con.execute("CREATE TABLE xonsh_history (inp TEXT, rtn INTEGER, tsb REAL, tse REAL, sessionid TEXT, "
                    "out TEXT, info TEXT, frequency INTEGER default 1, cwd TEXT)")
        con.execute("CREATE INDEX idx_inp_history ON xonsh_history(inp)")
    else:
        con.execute("PRAGMA journal_mode=DELETE")
        con.execute("CREATE TABLE xonsh_history (inp TEXT, rtn INTEGER, tsb REAL, tse REAL, sessionid TEXT, "
                    "out TEXT, info TEXT)")
    for j, (inp, rtn, sid) in enumerate(case["rows"]):
        con.execute("INSERT INTO xonsh_history (%s) VALUES (?,?,?,?,?)" % SQL_COLS,
                    (inp, rtn, BOOT - 50_000.0 + 7.0 * j, BOOT - 49_999.0 + 7.0 * j, sid))
    con.commit()
    if not legacy:
        con.execute("PRAGMA wal_checkpoint(TRUNCATE)")
    con.close()
    for suf in ("-wal", "-shm", "-journal"):
        if os.path.exists(path + suf):
            os.remove(path + suf)


def sqlite_rows(path):
    """-> (integrity, rows) ; raises sqlite3.Error when the database cannot be opened/read."""
    con = sqlite3.connect(path)
    try:
        integ = [r[0] for r in con.execute("PRAGMA integrity_check").fetchall()]
        cols = [r[1] for r in con.execute("PRAGMA table_info(xonsh_history)").fetchall()]
        sel = SQL_COLS + (", frequency" if "frequency" in cols else ", 1")
        rows = [tuple(r) for r in con.execute("SELECT %s FROM xonsh_history ORDER BY rowid" % sel).fetchall()]
    finally:
        con.close()
    return integ, rows


def _driver_env(ddir):
    e = dict(os.environ)
    e["PYTHONDONTWRITEBYTECODE"] = "1"
    e["VERIF_REPO"] = common.REPO
    e["XONSH_DATA_DIR"] = ddir
    return e


def _strace_cmd(specfile, inject=None, tracefile=None):
    """inject = (syscall, K): strace keeps one invocation counter per syscall and per tracee, so a kill
    point is named by the syscall and its K-th invocation."""
    if inject is None:
        cmd = ["strace", "-f", "-qq", "-e", "trace=" + STRACE_CALLS + ",getppid"]
    else:
        cmd = ["strace", "-f", "-qq", "-e", "trace=" + inject[0],
               "-e", "inject=%s:signal=KILL:when=%d" % (inject[0], inject[1])]
    cmd += ["-o", tracefile or os.devnull, sys.executable, os.path.abspath(__file__), "--driver", specfile]
    return cmd


def _prepare_strace_dir(case, ddir):
    shutil.rmtree(ddir, ignore_errors=True)
    os.makedirs(ddir)
    if case.get("sqlite"):
        sqlite_build(os.path.join(ddir, "xonsh-history.sqlite"), case)
        return None
    # JSON: reuse the scenario machinery with this directory as data dir
    _state["data"] = os.path.join(ddir, "data")
    entries = build_scenario(case["scenario"])
    materialize(entries)
    return entries


def _run_strace(case, ddir, inject=None, tracefile=None):
    spec = os.path.join(ddir, "spec.json")
    with open(spec, "w") as f:
        json.dump({"case": case, "dir": ddir}, f)
    p = subprocess.run(_strace_cmd(spec, inject, tracefile), env=_driver_env(ddir), stdin=subprocess.DEVNULL,
                       stdout=subprocess.DEVNULL, stderr=subprocess.PIPE, timeout=120)
    return p


def _trace_points(tracefile):
    """-> sorted list of kill points (syscall, K) that fall after the operation started.  The driver
    marks the start of the operation with a getppid() call; counters are per process and per syscall,
    like strace's own."""
    started = False
    pat = re.compile(r"^(\d+)\s+(\w+)\(")
    inj = set(STRACE_CALLS.split(","))
    counts = {}
    pts = set()
    ncalls = 0
    with open(tracefile, errors="replace") as f:
        for line in f:
            m = pat.match(line)
            if not m:
                continue
            pid, name = m.group(1), m.group(2)
            if name == "getppid":
                started = True
                continue
            if name in inj:
                c = counts[(pid, name)] = counts.get((pid, name), 0) + 1
                if started:
                    pts.add((name, c))
                    ncalls += 1
    if not started:
        raise common.HarnessError("strace trace has no operation marker")
    return sorted(pts), ncalls


def strace_reference(case, ddir):
    """Un-faulted traced run -> dict(total, before, old, new[, entries...])."""
    entries = _prepare_strace_dir(case, ddir)
    ref = {}
    if case.get("sqlite"):
        db = os.path.join(ddir, "xonsh-history.sqlite")
        integ, old = sqlite_rows(db)
        if integ != ["ok"] or len(old) != len(case["rows"]):
            raise common.HarnessError("generated SQLite database is not sound: %r" % (integ,))
        sqlite_build(db, case)
        ref["old"] = old
    tf = os.path.join(os.path.dirname(ddir), os.path.basename(ddir) + ".trace")
    p = _run_strace(case, ddir, None, tf)
    if p.returncode != 0:
        raise common.HarnessError("strace reference run failed (%d): %s" % (p.returncode, p.stderr.decode()[-400:]))
    ref["points"], ref["ncalls"] = _trace_points(tf)
    os.remove(tf)
    if case.get("sqlite"):
        integ, new = sqlite_rows(os.path.join(ddir, "xonsh-history.sqlite"))
        if integ != ["ok"]:
            raise common.HarnessError("un-faulted SQLite run leaves integrity_check = %r" % (integ,))
        ref["new"] = new
    else:
        ref["entries"] = entries
        ref["new_snap"] = snapshot(entries)
        ref["old_states"] = {e["rel"]: load_state(e["path"], e["bytes"]) for e in entries}
        ref["new_states"] = {e["rel"]: load_state(e["path"], ref["new_snap"][e["rel"]]) for e in entries
                             if ref["new_snap"][e["rel"]] is not None}
    return ref


def strace_point(case, ddir, ref, K):
    """Kill the driver at the K[1]-th invocation of syscall K[0]; judge.  -> Failure | None"""
    K = tuple(K)
    _prepare_strace_dir(case, ddir)
    p = _run_strace(case, ddir, K, None)
    if p.returncode not in (0, -9, 137):
        raise common.HarnessError("strace run %r failed (%d): %s" % (K, p.returncode, p.stderr.decode()[-300:]))
    full = dict(case, K=list(K))
    K = "%s#%d" % K
    if case.get("sqlite"):
        db = os.path.join(ddir, "xonsh-history.sqlite")
        op = case["op"]
        try:
            integ, rows = sqlite_rows(db)
        except sqlite3.Error as e:
            return Failure("sqlite-unreadable", full, "kill at %s of sqlite %s: database does not open: %s" % (
                K, op["kind"], e), bucket="sqlite-unreadable")
        if integ != ["ok"]:
            return Failure("sqlite-integrity", full, "kill at %s of sqlite %s: integrity_check = %r" % (
                K, op["kind"], integ[:3]), bucket="sqlite-integrity")
        old, new = ref["old"], ref["new"]
        norm = lambda rs: [r[:5] for r in rs]            # noqa: E731  (frequency column may not exist yet)
        ok = rows == old or rows == new or (case.get("legacy") and norm(rows) in (norm(old), norm(new)))
        if not ok and op["kind"] == "append":
            ok = any(norm(rows) == norm(new[:len(old) + j]) for j in range(len(new) - len(old) + 1))
        if not ok:
            lost = [r for r in norm(old) if r not in norm(rows)] if op["kind"] == "append" else []
            return Failure("sqlite-third-state", full, "kill at %s of sqlite %s: %d rows, neither the old %d nor the new %d%s" % (
                K, op["kind"], len(rows), len(old), len(new), " (lost %r)" % lost[:3] if lost else ""),
                bucket="sqlite-third-state")
        return None
    entries = ref["entries"]
    snap = snapshot(entries)
    bad = judge(case["scenario"], entries, ref["old_states"], ref["new_snap"], ref["new_states"], snap)
    by_rel = {e["rel"]: e for e in entries}
    for kind, rel, detail in bad:
        e = by_rel[rel]
        finding = None
        if (case["scenario"]["op"]["kind"] in GC_KINDS and e["spec"]["lock"] == "stale" and not e["spec"].get("corrupt")
                and kind in ("empty", "unloadable")):
            finding = "C13-F1"      # same defect seen at syscall level (the window is the in-place rewrite)
        return Failure("strace-" + kind, dict(full, strace=True), "kill at %s of %s: %s" % (
            K, case["scenario"]["op"]["kind"], detail), finding=finding,
            bucket="strace:%s:%s" % (finding or kind, case["scenario"]["op"]["kind"]))
    return None


def check_strace_case(case):
    if not _state:
        raise common.HarnessError("_setup() must run first")
    ddir = os.path.join(_state["base"], "strace-replay")
    data0 = _state["data"]
    try:
        ref = strace_reference(case, ddir)
        Ks = [case["K"]] if case.get("K") else ref["points"]
        for K in Ks:
            f = strace_point(case, ddir, ref, K)
            if f is not None:
                return f
        return None
    finally:
        _state["data"] = data0
        shutil.rmtree(ddir, ignore_errors=True)


def strace_cases(seed, n_sql, n_json):
    """A fixed, seed-determined family (laid out with random.Random, not inside a property)."""
    import random

    rnd = random.Random(seed)
    out = []
    kinds = ["delete", "erasedups", "append", "delete", "erasedups", "gc", "append"]
    for i in range(n_sql):
        nrows = [6, 12, 3, 40, 9, 1][i % 6] if i % 5 else rnd.randint(1, 60)
        pool = INPS[: rnd.choice([3, 5, len(INPS)])]
        rows = [[rnd.choice(pool), rnd.choice([0, 0, 1]), "s%d" % rnd.randint(0, 2)] for _ in range(nrows)]
        kind = kinds[i % len(kinds)]
        op = {"kind": kind}
        if kind == "append":
            op["cmds"] = [[rnd.choice(INPS), rnd.choice([0, 1])] for _ in range(rnd.randint(1, 3))]
        elif kind == "delete":
            op["pattern"] = rnd.choice([".*", "(ls|cd)", "l", "echo.*", "ls", rnd.choice(PATTERNS)])
        elif kind == "gc":
            op["size"] = [rnd.choice([0, 1, max(nrows // 2, 1), nrows, nrows + 5]), "commands"]
        out.append({"sqlite": True, "rows": rows, "legacy": i % 3 == 2, "op": op})
    if n_json:
        for scn in generate_scenarios(seed + 7, n_json)[:n_json]:
            out.append({"strace": True, "scenario": scn})
    return out


def worker_strace(arg):
    seed, cases, max_points, scratch = arg
    _setup(scratch)
    stt = Stats()
    ddir = os.path.join(_state["base"], "strace")
    data0 = _state["data"]
    t0 = _real_time.time()
    for case in cases:
        ref = strace_reference(case, ddir)
        opk = case["op"]["kind"] if case.get("sqlite") else case["scenario"]["op"]["kind"]
        fam = "strace-sqlite" if case.get("sqlite") else "strace-json"
        stt.hist[fam + "-scenarios"] += 1
        stt.hist["%s-op:%s" % (fam, opk)] += 1
        if case.get("sqlite"):
            stt.hist["strace-sqlite-%s" % ("legacy" if case.get("legacy") else "wal")] += 1
            if ref["new"] == ref["old"]:
                stt.hist["strace-sqlite-noop"] += 1
        Ks = list(ref["points"])
        stt.hist[fam + "-kill-points"] += len(Ks)
        if max_points and len(Ks) > max_points:
            step = len(Ks) / float(max_points)
            Ks = [Ks[int(i * step + (seed + len(Ks)) % step)] for i in range(max_points)]
            stt.hist[fam + "-sampled"] += 1
        key0 = json.dumps(case, sort_keys=True)
        for K in Ks:
            f = strace_point(case, ddir, ref, K)
            nt = True               # only kill points after the operation started are enumerated
            labels = [fam, "op:%s-%s" % (fam, opk), "strace-at:" + K[0]]
            if f is not None and f.finding:
                stt.excluded_known[f.finding] += 1
                labels.append("tolerated:" + f.finding)
                f = None
            stt.case((key0, "strace", K), nt, labels, sample=dict(case, K=list(K), of=len(ref["points"])),
                     max_per_label=1)
            if f is not None:
                stt.fail(f)
                break
    _state["data"] = data0
    shutil.rmtree(ddir, ignore_errors=True)
    stt.hist["worker-seconds:strace"] += int(_real_time.time() - t0)
    return stt


# ----------------------------------------------------------------------------------------
# driver process (runs under strace)


def driver_main(specfile):
    with open(specfile) as f:
        spec = json.load(f)
    case, ddir = spec["case"], spec["dir"]
    common.pin_environment(ddir)
    os.dup2(os.open(os.devnull, os.O_WRONLY), 2)
    if case.get("sqlite"):
        from xonsh.built_ins import XSH
        from xonsh.environ import Env

        XSH.env = Env({"XONSH_DATA_DIR": ddir, "XONSH_HISTORY_SIZE": (10 ** 9, "commands"), "HISTCONTROL": set(),
                       "XONSH_STORE_STDOUT": False, "UPDATE_OS_ENVIRON": False})
        import xonsh.history.sqlite as xhs

        op = case["op"]
        hist = xhs.SqliteHistory(gc=False, filename=os.path.join(ddir, "xonsh-history.sqlite"), sessionid="drv")
        os.getppid()                                   # marker: the operation starts here
        if op["kind"] == "append":
            for j, (inp, rtn) in enumerate(op["cmds"]):
                hist.append({"inp": inp + "\n", "rtn": rtn, "ts": [NOW + j, NOW + j + 0.5], "cwd": "/home/u"})
        elif op["kind"] == "delete":
            hist.delete(op["pattern"])
        elif op["kind"] == "erasedups":
            hist.erasedups()
        elif op["kind"] == "gc":
            hist.run_gc(size=tuple(op["size"]), blocking=True)
            if hist.gc is not None:
                hist.gc.join()
        else:
            raise SystemExit("bad sqlite op")
        return 0
    _setup(ddir)
    _state["data"] = os.path.join(ddir, "data")
    _state["XSH"].env["XONSH_DATA_DIR"] = _state["data"]
    scn = case["scenario"]
    entries = build_scenario(scn)
    hist = _make_history(scn, entries)
    os.getppid()
    try:
        _perform(scn, hist)
    except common.HarnessError:
        raise
    except Exception:  # noqa: BLE001
        pass
    return 0


# ----------------------------------------------------------------------------------------


def _replay_case(case):
    return check_case(case, tolerate=False)


def have_strace():
    try:
        p = subprocess.run(["strace", "-qq", "-e", "trace=getppid", "-o", os.devnull, "true"],
                           stdout=subprocess.DEVNULL, stderr=subprocess.DEVNULL, timeout=20)
        return p.returncode == 0
    except (OSError, subprocess.SubprocessError):
        return False


def _dev_stride():
    """VERIF_C13_STRIDE=k (development only): 1/k of the scenarios, to smoke-test the thorough tier."""
    try:
        return max(1, int(os.environ.get("VERIF_C13_STRIDE") or 1))
    except ValueError:
        return 1


def main(run):
    _setup(run.scratch)
    common.replay_tier(run, _replay_case)
    procs = max(1, min(16, int(os.environ.get("VERIF_PROCS") or 16)))
    nw = 16
    stride = _dev_stride()
    if stride > 1:
        run.stats.notes.append("development run: VERIF_C13_STRIDE=%d" % stride)
    t0 = _real_time.time()
    scns = generate_scenarios(run.seed, run.n(140, 5000) // stride)
    t1 = _real_time.time()
    common.pool_map(run, __name__, "worker_json", [(scns[i::nw], run.scratch) for i in range(nw) if scns[i::nw]], procs=procs)
    run.extra["exhaustive_subspace"] = ("per explored scenario and buffering model (real / huge / write-through): every crash "
                                        "point before each file-system op (raw-level writes in the real and huge models), "
                                        "every listed partial-write length, every single injected OSError")
    run.extra["default_write_buffer_bytes"] = _state["bufsize"]
    t2 = _real_time.time()
    if have_strace():
        n_sql, n_json, maxp = run.n(16, 400 // stride), run.n(9, 200 // stride), run.n(24, 0)
        cases = strace_cases(run.seed, n_sql, n_json)
        chunks = [cases[i::nw] for i in range(nw)]
        common.pool_map(run, __name__, "worker_strace",
                        [(common.worker_seed(run.seed, 200 + i), ch, maxp, run.scratch) for i, ch in enumerate(chunks) if ch],
                        procs=procs)
        run.extra["strace_pass"] = ("every write-class syscall" if not maxp else
                                    "a sample of %d kill points per case (every one in the thorough tier)" % maxp)
    else:
        run.stats.notes.append("strace is not usable here: the syscall-level pass (SQLite) was NOT run")
        run.extra["strace_pass"] = "not run (strace unavailable)"
    run.extra["wall_split_s"] = {"generation": round(t1 - t0, 1), "json_enumeration": round(t2 - t1, 1),
                                 "strace_pass": round(_real_time.time() - t2, 1), "procs": procs}
    run.assumptions += [
        "a crash is modelled as process death (kill -9 / os._exit): data handed to the kernel survives, user-space "
        "buffers are lost; power-loss reordering below rename (fsync analysis) is not modelled",
        "three buffering models per scenario: the interpreter's real io stack (measured default buffer size; only what "
        "a raw write(2) handed to the kernel survives a kill), a 4 MiB buffer, and write-through (every completed "
        "write() is on disk); a partial raw write leaves any listed prefix; together a superset of the on-disk "
        "states a kill can produce for any st_blksize",
        "a buffering model whose un-faulted op trace equals one already enumerated for the scenario is not enumerated "
        "again; in the second and third model, points at read-only ops are skipped (a read neither changes the disk "
        "nor depends on write buffering) and each op is failed with one errno instead of every listed one",
        "one fault per run; the failing call raises OSError and, for write(), leaves half of its bytes behind",
        "a member that was already corrupt before the operation is only required to stay as it was or become the "
        "version the un-faulted run writes",
        "history clear and GC's deliberate removal of whole files are outside the property (C14 covers the latter)",
        "the JSON pull path only reads history files and is not an operation of this check",
    ]


def replay(run, path):
    with open(path) as f:
        d = json.load(f)
    case = d.get("case", d)
    _setup(run.scratch)
    f = check_case(case, tolerate=False)
    if f is None:
        print("replay: property holds on this case")
        return 0
    print("VIOLATION property=%s replay=%s kind=%s %s" % (PROP, path, f.kind, common._oneline(f.detail)))
    return 1


if __name__ == "__main__":
    if len(sys.argv) == 3 and sys.argv[1] == "--driver":
        sys.exit(driver_main(sys.argv[2]))
    sys.exit("usage: run.py C13   (this file is only executable as the strace driver)")

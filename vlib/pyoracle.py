"""The C01 oracle: xonsh's context-free parser against CPython's parser on the same text.
Shared by C01 (as the property) and C02/C03/C17 (as a precondition, so that one parser defect is
not reported under four properties)."""

from __future__ import annotations

import ast
import io
import textwrap
import tokenize
import warnings

from . import astcanon, tables

import re

_PY_NL = re.compile(r"\r\n|\r|\n")
_CODING = re.compile(r"^[ \t\f]*#.*?coding[:=][ \t]*[-_.a-zA-Z0-9]+", re.M)
_parser = None


def get_parser():
    global _parser
    if _parser is None:
        tables.install()
        from xonsh.parser import Parser

        _parser = Parser()
    return _parser


def cpy_parse(src, mode="exec"):
    with warnings.catch_warnings():
        warnings.simplefilter("ignore")
        return ast.parse(src, mode=mode)


def prep(src, mode):
    """Input convention of xonsh's own callers (Execer.exec / Execer.eval): exec and single input
    ends with a newline, eval input has no trailing newline."""
    if mode == "eval":
        return src.rstrip("\n")
    return src if src.endswith("\n") else src + "\n"


def xonsh_parse(src, mode="exec"):
    with warnings.catch_warnings():
        warnings.simplefilter("ignore")
        return get_parser().parse(prep(src, mode), filename="<verif>", mode=mode)


def _try_compile(tree, mode):
    try:
        with warnings.catch_warnings():
            warnings.simplefilter("ignore")
            compile(tree, "<verif>", mode)
        return "ok"
    except SyntaxError:
        return "SyntaxError"
    except RecursionError:
        return "RecursionError"
    except Exception as e:  # noqa: BLE001
        return "%s: %s" % (type(e).__name__, str(e)[:120])


class Result:
    __slots__ = ("kind", "detail", "ctree", "xtree")

    def __init__(self, kind, detail="", ctree=None, xtree=None):
        self.kind = kind          # ok | invalid | reject | internal | tree-differs | compile-differs
        self.detail = detail
        self.ctree = ctree
        self.xtree = xtree

    @property
    def failed(self):
        return self.kind not in ("ok", "invalid")


def compare(src, mode="exec", do_compile=True):
    """Decide one (text, mode) pair.  'invalid' = CPython rejects the text (out of domain)."""
    if "\r" in src or "\x0c" in src or _CODING.search(src[:200]):
        # universal-newline translation, form feeds and encoding declarations are handled when a
        # file is read / decoded, below the str level the parser receives: out of domain
        return Result("invalid")
    try:
        ctree = cpy_parse(prep(src, mode), mode)
    except (SyntaxError, ValueError, SystemError):       # SystemError: CPython 3.12.1 tokenizer bug, see pymutate.tokens
        return Result("invalid")
    except (RecursionError, MemoryError):
        return Result("invalid")
    try:
        xtree = xonsh_parse(src, mode)
    except SyntaxError as e:
        if do_compile and _try_compile(ctree, mode) == "SyntaxError":
            # CPython's compiler rejects the program too (e.g. `return` outside a function,
            # f-string keys in patterns): not a valid Python program, xonsh merely reports it earlier
            return Result("invalid")
        return Result("reject", "xonsh: SyntaxError: %s" % (str(e)[:200]), ctree)
    except RecursionError:
        return Result("internal", "xonsh: RecursionError", ctree)
    except Exception as e:  # noqa: BLE001
        return Result("internal", "xonsh: %s: %s" % (type(e).__name__, str(e)[:200]), ctree)
    cc = astcanon.root_canon(ctree)
    try:
        xc = astcanon.root_canon(xtree)
    except RecursionError:
        return Result("internal", "xonsh tree too deep to canonicalise", ctree, xtree)
    if cc != xc:
        return Result("tree-differs", astcanon.first_diff(cc, xc) or "?", ctree, xtree)
    if do_compile and xtree is not None:
        a = _try_compile(ctree, mode)
        if a != "RecursionError":
            b = _try_compile(xtree, mode)
            if a != b and not (a == "SyntaxError" and b.startswith("SyntaxError")):
                if b == "RecursionError":
                    return Result("ok", "", ctree, xtree)
                return Result("compile-differs", "compile(): CPython tree %s, xonsh tree %s" % (a, b), ctree, xtree)
    return Result("ok", "", ctree, xtree)


# ----------------------------------------------------------------------------------------
# reduction of a failing program


def _candidates(src, tree):
    """Smaller programs cut out of `src`: every statement and every expression."""
    lines = _PY_NL.split(src)
    out = set()
    for node in ast.walk(tree):
        if getattr(node, "end_lineno", 0) and node.end_lineno > len(lines):
            continue
        if isinstance(node, ast.stmt):
            s = node.lineno
            for d in getattr(node, "decorator_list", []) or []:
                s = min(s, d.lineno)
            if node.col_offset == 0 or lines[node.lineno - 1][:node.col_offset].strip() == "":
                text = textwrap.dedent("\n".join(lines[s - 1:node.end_lineno])) + "\n"
            else:
                seg = ast.get_source_segment(src, node)
                text = (seg + "\n") if seg else None
            if text:
                out.add(text)
            # statement with its nested bodies replaced by `pass`
            for fld in ("body", "orelse", "finalbody"):
                sub = getattr(node, fld, None)
                if isinstance(sub, list) and sub and isinstance(sub[0], ast.stmt) and len(sub) >= 1:
                    first, last = sub[0], sub[-1]
                    if first.lineno > node.lineno and not (len(sub) == 1 and isinstance(first, ast.Pass)):
                        ind = lines[first.lineno - 1][:first.col_offset]
                        if ind.strip() == "":
                            new = lines[s - 1:first.lineno - 1] + [ind + "pass"] + lines[last.end_lineno:node.end_lineno]
                            out.add(textwrap.dedent("\n".join(new)) + "\n")
        elif isinstance(node, ast.expr):
            seg = ast.get_source_segment(src, node)
            if seg and len(seg) < len(src) - 1:
                out.add("(" + seg + ")\n")
                if isinstance(getattr(node, "ctx", None), ast.Store):
                    out.add("(" + seg + ") = x\n" if not isinstance(node, (ast.Tuple, ast.List, ast.Starred)) else seg + " = x\n")
    out.discard(src)
    return sorted(out, key=lambda t: (len(t), t))


def _token_deletions(src):
    try:
        toks = list(tokenize.generate_tokens(io.StringIO(src).readline))
    except (tokenize.TokenError, IndentationError, SyntaxError, SystemError):
        return
    lines = src.split("\n")
    offs = [0]
    for ln in lines:
        offs.append(offs[-1] + len(ln) + 1)

    def pos(rc):
        return offs[rc[0] - 1] + rc[1]

    for t in toks:
        if t.type in (tokenize.ENDMARKER, tokenize.NEWLINE, tokenize.NL, tokenize.INDENT, tokenize.DEDENT, tokenize.COMMENT):
            continue
        a, b = pos(t.start), pos(t.end)
        if b > a:
            cand = src[:a] + src[b:]
            yield cand
            # also drop one following blank
            if b < len(src) and src[b] == " ":
                yield src[:a] + src[b + 1:]


def reduce_failure(src, mode, kind, budget=400):
    """Greedy structural reduction: smallest sub-program that still fails with the same kind."""
    cur = src
    steps = 0
    improved = True
    while improved and steps < budget:
        improved = False
        try:
            tree = cpy_parse(prep(cur, mode), mode)
        except Exception:  # noqa: BLE001
            break
        cands = _candidates(prep(cur, mode), tree) if mode != "eval" else _candidates(cur, tree)
        for cand in cands:
            if len(cand) >= len(cur):
                break
            steps += 1
            if steps > budget:
                break
            m = mode
            r = compare(cand, m)
            if r.kind == kind:
                cur = cand
                improved = True
                break
        if improved:
            continue
        for cand in _token_deletions(cur):
            steps += 1
            if steps > budget:
                break
            if len(cand.strip()) == 0:
                continue
            r = compare(cand, mode)
            if r.kind == kind:
                cur = cand
                improved = True
                break
    return cur

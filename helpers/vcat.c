/* vcat [chunk] : copy stdin to stdout using read/write of `chunk` bytes (default 4096) */
#include <stdlib.h>
#include <unistd.h>
#include <errno.h>
int main(int argc, char **argv) {
    size_t chunk = argc > 1 ? (size_t)atol(argv[1]) : 4096;
    if (chunk == 0) chunk = 1;
    char *buf = malloc(chunk);
    for (;;) {
        ssize_t n = read(0, buf, chunk);
        if (n == 0) break;
        if (n < 0) { if (errno == EINTR) continue; return 3; }
        ssize_t off = 0;
        while (off < n) {
            ssize_t w = write(1, buf + off, n - off);
            if (w < 0) { if (errno == EINTR) continue; return 4; }
            off += w;
        }
    }
    return 0;
}

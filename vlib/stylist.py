"""Surface restyling of Python text that must not change CPython's tree.

Every transform is *verified*: the restyled text is parsed by CPython and its canonical tree must
equal the original's, otherwise that transform is dropped.  A stylist bug therefore cannot create a
false alarm - the reference for xonsh is always CPython's parse of the same final text."""

from __future__ import annotations

import ast
import io
import re
import tokenize

from . import astcanon, pymutate

_FS = {getattr(tokenize, n, -1) for n in ("FSTRING_START", "FSTRING_MIDDLE", "FSTRING_END")}


def _canon(src):
    try:
        return astcanon.root_canon(ast.parse(src))
    except (SyntaxError, ValueError, RecursionError, MemoryError, SystemError):
        return None


class Styler:
    def __init__(self, rnd):
        self.r = rnd
        self.applied = []

    def k(self, n):
        return self.r.randrange(n)

    def chance(self, a, b):
        return self.r.randrange(b) < a

    # -- individual transforms (return new text or None) ---------------------------------
    def t_indent(self, src):
        unit = ["\t", "  ", "        ", " ", "   "][self.k(5)]
        out = []
        for line in src.split("\n"):
            m = re.match(r"^((?:    )+)", line)
            if m and not _in_multiline_string_guess(line):
                n = len(m.group(1)) // 4
                line = unit * n + line[len(m.group(1)):]
            out.append(line)
        return "\n".join(out)

    def t_squeeze(self, src):
        return pymutate.squeeze_all(src)

    def t_spread(self, src):
        return pymutate.spread_all(src)

    def _gaps(self, src):
        toks = pymutate.tokens(src)
        if toks is None:
            return None, None
        sp = pymutate.spans(src, toks)
        return toks, sp

    def t_random_gaps(self, src):
        toks, sp = self._gaps(src)
        if not sp or len(sp) < 2:
            return None
        cur = src
        # right-to-left so offsets stay valid
        depth_at = _depths(sp)
        for i in range(len(sp) - 1, 0, -1):
            a, b, t = sp[i]
            pa, pb, pt = sp[i - 1]
            if t.type in _FS or pt.type in _FS or "\n" in cur[pb:a]:
                continue
            c = self.k(9)
            # the continuation line may start in any column, column 0 included (`x = (a\nor b)`, `if a \\\nand b:`)
            ind = self.pick(["", "", " ", "  ", "      ", "\t"])
            if c == 0 and cur[pb:a].strip(" \t") == "" and pb < a:
                cand = cur[:pb] + cur[a:]
            elif c == 1:
                cand = cur[:a] + "  " + cur[a:]
            elif c == 2 and depth_at[i] > 0:
                cand = cur[:a] + "\n" + ind + cur[a:]
            elif c == 3 and depth_at[i] == 0 and pb > 0:
                cand = cur[:a] + "\\\n" + ind + cur[a:]
            elif c == 4 and depth_at[i] > 0:
                cand = cur[:a] + "# c\n" + ind + cur[a:]
            else:
                continue
            ct = pymutate.tokens(cand)
            if ct is not None and pymutate.sig(ct) == pymutate.sig(toks):
                cur = cand
        return cur if cur != src else None

    def t_comments(self, src):
        lines = src.split("\n")
        out = []
        in_str = False
        toks = pymutate.tokens(src)
        if toks is None:
            return None
        # lines that are inside a multi-line token must not be touched
        busy = set()
        for t in toks:
            if t.start[0] != t.end[0]:
                busy.update(range(t.start[0], t.end[0] + 1))
        logical_end = {t.start[0] for t in toks if t.type == tokenize.NEWLINE}
        for i, line in enumerate(lines, 1):
            if i not in busy and line.strip() and self.chance(1, 5):
                ind = re.match(r"^[ \t]*", line).group(0)
                out.append(ind + self.pick(["# comment", "#tight", "#", "#!x", "# $HOME ![ls]", "  # over-indented"]))
            if i not in busy and self.chance(1, 8):
                out.append("" if self.chance(1, 2) else "   ")
            if i in logical_end and i not in busy and self.chance(1, 6):
                line = line + self.pick(["  # t", " #t", "#t"])
            out.append(line)
        return "\n".join(out)

    def pick(self, xs):
        return xs[self.k(len(xs))]

    def t_semicolons(self, src):
        try:
            tree = ast.parse(src)
        except SyntaxError:
            return None
        lines = src.split("\n")
        joins = []
        for node in ast.walk(tree):
            for fld in ("body", "orelse", "finalbody"):
                body = getattr(node, fld, None)
                if not isinstance(body, list):
                    continue
                for a, b in zip(body, body[1:]):
                    if _simple(a) and _simple(b) and a.end_lineno == a.lineno and b.lineno == a.lineno + 1 \
                            and b.end_lineno == b.lineno and self.chance(1, 2):
                        joins.append(a.lineno)
        if not joins:
            return None
        for ln in sorted(set(joins), reverse=True):
            if ln < len(lines) and "#" not in lines[ln - 1]:
                sep = self.pick(["; ", ";", " ; "])
                lines[ln - 1] = lines[ln - 1] + sep + lines[ln].lstrip()
                del lines[ln]
        return "\n".join(lines)

    def t_oneline(self, src):
        try:
            tree = ast.parse(src)
        except SyntaxError:
            return None
        lines = src.split("\n")
        edits = []
        for node in ast.walk(tree):
            if isinstance(node, (ast.If, ast.While, ast.For, ast.With, ast.FunctionDef, ast.ClassDef, ast.AsyncFunctionDef,
                                 ast.AsyncFor, ast.AsyncWith)):
                body = node.body
                if getattr(node, "orelse", None) or getattr(node, "decorator_list", None):
                    continue
                if all(_simple(s) and s.lineno == s.end_lineno for s in body) and body[0].lineno == node.lineno + 1 \
                        and all(b.lineno == a.lineno + 1 for a, b in zip(body, body[1:])) and self.chance(1, 2):
                    edits.append((node.lineno, body[0].lineno, body[-1].lineno))
        if not edits:
            return None
        used = set()
        for hl, b0, b1 in sorted(edits, reverse=True):
            if any(x in used for x in range(hl, b1 + 1)):
                continue
            if any("#" in lines[i - 1] for i in range(hl, b1 + 1)) or not lines[hl - 1].rstrip().endswith(":"):
                continue
            used.update(range(hl, b1 + 1))
            lines[hl - 1] = lines[hl - 1] + " " + "; ".join(lines[i - 1].strip() for i in range(b0, b1 + 1))
            del lines[b0 - 1:b1]
        return "\n".join(lines)

    def t_literals(self, src):
        toks = pymutate.tokens(src)
        if toks is None:
            return None
        sp = pymutate.spans(src, toks)
        cur = src
        for a, b, t in reversed(sp):
            if t.type == tokenize.NUMBER and self.chance(1, 2):
                new = self._respell_number(t.string)
            elif t.type == tokenize.STRING and self.chance(1, 2):
                new = self._respell_string(t.string)
            elif t.type == getattr(tokenize, "FSTRING_START", -1) and self.chance(1, 3):
                s = t.string
                new = s.replace("f", "F") if self.chance(1, 2) else s
            else:
                continue
            if new and new != t.string:
                cur = cur[:a] + new + cur[b:]
        return cur if cur != src else None

    def _respell_number(self, s):
        try:
            if re.fullmatch(r"[0-9]+", s):
                v = int(s)
                c = self.k(6)
                return [hex(v), "0X%X" % v, oct(v), bin(v), "0O%o" % v, ("%d" % v if v < 1000 else "{:_}".format(v))][c]
            if "e" in s:
                return s.replace("e", "E")
            if s.endswith("j"):
                return s[:-1] + "J"
            if re.fullmatch(r"[0-9]+\.[0-9]+", s) and self.chance(1, 2):
                return s + "_0" if False else s.rstrip("0") if s.endswith("0") and not s.endswith(".0") else s
            if s.endswith(".0"):
                return s[:-1]
        except Exception:  # noqa: BLE001
            return None
        return None

    def _respell_string(self, s):
        m = re.match(r"^([A-Za-z]*)('''|\"\"\"|'|\")(.*)\2$", s, re.S)
        if not m:
            return None
        prefix, q, body = m.groups()
        c = self.k(8)
        if c == 5 and len(q) == 1 and len(body) >= 2 and "f" not in prefix.lower():
            # backslash-newline continuation inside a single-quoted string (value unchanged)
            h = 1 + self.k(len(body) - 1)
            if body[h - 1] != "\\" and not (h >= 2 and body[h - 2] == "\\"):
                return prefix + q + body[:h] + "\\\n" + body[h:] + q
            return None
        if c in (6, 7) and len(q) == 1 and "\\n" in body and "f" not in prefix.lower() and "r" not in prefix.lower():
            # triple-quoted spelling with real newlines (only when \\n is the only kind of escape in the literal)
            rest = body.replace("\\n", "")
            if "\\" not in rest and not body.endswith(q) and q * 3 not in body:
                return prefix + q * 3 + body.replace("\\n", "\n") + q * 3
            return None
        if c == 0 and prefix:
            return prefix.upper() + q + body + q
        if c == 1 and prefix == "":
            return "u" + q + body + q if not body.startswith("\\N") else None
        if c == 2 and len(q) == 1 and "\\" not in body and "'" not in body and '"' not in body and "\n" not in body:
            nq = '"' if q == "'" else "'"
            return prefix + nq + body + nq
        if c == 3 and len(q) == 1 and "\\" not in body and not body.endswith(("'", '"')) and "'''" not in body and '"""' not in body:
            return prefix + q * 3 + body + q * 3
        if c == 4 and len(q) == 1 and len(body) >= 2 and "\\" not in body and "{" not in body:
            h = len(body) // 2
            return prefix + q + body[:h] + q + " " + prefix + q + body[h:] + q
        return None

    def t_trailing_commas(self, src):
        toks = pymutate.tokens(src)
        if toks is None:
            return None
        sp = pymutate.spans(src, toks)
        cur = src
        for i in range(len(sp) - 1, 0, -1):
            a, b, t = sp[i]
            pa, pb, pt = sp[i - 1]
            if t.type == tokenize.OP and t.string in ")]}" and not (pt.type == tokenize.OP and pt.string in ",([{:") and self.chance(1, 3):
                cand = cur[:pb] + "," + cur[pb:]
                cur2 = _canon(cand)
                if cur2 is not None and cur2 == _canon(cur):
                    cur = cand
        return cur if cur != src else None

    def t_parens(self, src):
        try:
            tree = ast.parse(src)
        except SyntaxError:
            return None
        cands = [n for n in ast.walk(tree) if isinstance(n, ast.expr) and isinstance(getattr(n, "ctx", ast.Load()), ast.Load)
                 and n.lineno == n.end_lineno and not isinstance(n, (ast.Starred, ast.JoinedStr, ast.FormattedValue, ast.Slice))]
        if not cands:
            return None
        n = cands[self.k(len(cands))]
        lines = src.split("\n")
        line = lines[n.lineno - 1]
        bl = line.encode("utf-8")
        pre, mid, post = bl[:n.col_offset].decode("utf-8", "ignore"), bl[n.col_offset:n.end_col_offset].decode("utf-8", "ignore"), \
            bl[n.end_col_offset:].decode("utf-8", "ignore")
        op, cl = self.pick([("(", ")"), ("( ", " )"), ("((", "))")])
        lines[n.lineno - 1] = pre + op + mid + cl + post
        return "\n".join(lines)

    TRANSFORMS = ["t_indent", "t_squeeze", "t_spread", "t_random_gaps", "t_random_gaps", "t_comments", "t_semicolons",
                  "t_oneline", "t_literals", "t_trailing_commas", "t_parens", "t_parens"]

    def restyle(self, src, max_transforms=4):
        base = _canon(src)
        if base is None:
            return src
        cur = src
        for _ in range(1 + self.k(max_transforms)):
            name = self.pick(self.TRANSFORMS)
            try:
                new = getattr(self, name)(cur)
            except (RecursionError, IndexError, ValueError, tokenize.TokenError):
                new = None
            if not new or new == cur:
                continue
            if not new.endswith("\n"):
                new += "\n"
            if _canon(new) == base:
                cur = new
                self.applied.append(name)
        return cur


def _simple(s):
    return isinstance(s, (ast.Expr, ast.Assign, ast.AugAssign, ast.AnnAssign, ast.Delete, ast.Pass, ast.Assert, ast.Raise,
                          ast.Import, ast.ImportFrom, ast.Return, ast.Global, ast.Nonlocal, ast.Break, ast.Continue, ast.TypeAlias))


def _depths(sp):
    d, out = 0, []
    for a, b, t in sp:
        if t.type == tokenize.OP and t.string in ")]}":
            d = max(0, d - 1)
        out.append(d)
        if t.type == tokenize.OP and t.string in "([{":
            d += 1
    return out


def _in_multiline_string_guess(line):
    return False

"""C13 - a crash or I/O failure while saving history never damages what was already saved.

Generator : a scenario = 1-4 history files in a scratch $XONSH_DATA_DIR (generated commands from a
            small pool so duplicates / pattern hits are frequent; unlocked, locked-live, locked-stale
            with a pre-boot opening timestamp so the unlock path triggers; open or closed; in
            history_json/, in the backwards-compatible directory or behind a custom
            $XONSH_HISTORY_FILE; an optional corrupt member: truncated / garbage / zero-length /
            plain JSON / cut inside the index; a file may carry 40 / 120 / 200 extra commands so that
            rewritten payloads lie below the write buffer, between buffer and 8 KiB, and above 8 KiB)
            + ONE history-rewriting operation run on a real
            JsonHistory of the session that owns one of the files: flush() of 1-5 buffered commands
            (flusher thread), flush(at_exit=True) (direct and through the closure
            XonshSession.load registers for atexit / fatal signals), a flush triggered by append()
            reaching the buffer size, delete(pattern), erasedups(), the GC file enumeration
            JsonHistoryGC.files() (the unlock rewrite), run_gc(size, force) and the GC thread a
            starting session launches.  Scenarios are drawn by Hypothesis, stratified by operation
            kind so every kind is present in every run.  clear() is excluded (meant to destroy).
Enumeration: the operation is run once in a forked child with counting wrappers around the
            file-system entry points (open / io.open / _io.open incl. os.fdopen, pathlib and
            tempfile.NamedTemporaryFile, text-file read / write / close, binary writable handles at raw
            write level, os.open / os.write, os.sendfile / os.copy_file_range, os.replace / rename,
            os.remove / unlink, os.truncate / ftruncate, os.utime / os.chmod, tempfile.mkstemp - so the
            calls of a copy fall-back (shutil.move / copy2: open "wb" of the destination, sendfile,
            copystat, unlink of the source) are ops too) restricted to the data dir and the
            process-wide temp directory -> op trace of length N; an op that fails by itself (EXDEV)
            is marked in the trace (self-check: every file that changed must be explained by a
            wrapped op, else harness error).  TEMP-DIR MODELS: tempfile.tempdir / $TMPDIR point to a
            directory on the file system of the history directory (`same`) or on ANOTHER file system
            (`xdev`: found at run time by st_dev among /dev/shm, /var/tmp, /tmp ...; removed
            afterwards; when the machine has none the model is reported as NOT covered in the
            evidence notes).  Under `xdev` a rename/replace out of the temp directory fails with EXDEV
            and "move" helpers fall back to an in-place copy.  The reference run under `xdev` is
            compared with the one under `same` (ops, outcomes, resulting files): equal = the
            operation never uses the process-wide temp directory, nothing to enumerate; different =
            every point is enumerated under `xdev` too (real buffering model in quick, all three in
            thorough).  This is done under three BUFFERING MODELS (the size
            of Python's write buffer depends on st_blksize and the interpreter, not on xonsh):
            `real` = the interpreter's own FileIO -> BufferedWriter(default size, measured) ->
            TextIOWrapper stack with ops counted at the RAW level - one "write" op per write(2) the
            process would issue, wherever the io stack decides to issue it (inside write(), flush() or
            close()); data not yet handed to the kernel is lost by the kill, exactly like kill -9;
            `huge` = same stack, 4 MiB buffer (nothing reaches the file before flush/close);
            `wt` = every completed Python-level write() is on disk at once.  A model whose reference
            trace equals one already enumerated for the scenario is skipped (same executions); in the
            models after the first, points at read-only ops are skipped (same states) and one errno per
            op is used; quick tier: there also 3 instead of 6 partial lengths, injected errors only
            under the real io stack, one (rotating) errno per failing open-for-reading.  Then, each in
            a fresh fork on a freshly materialised copy of the scenario (two points in flight per
            worker, each in its own copy of the data directory): EVERY crash point k in 0..N-1
            (os._exit(9) before op k; unflushed user-space buffers are lost, as with kill -9; the point
            before a read-only op is the same state as the one before the next op and is not run
            twice), for every write / sendfile op a crash after a PARTIAL transfer of m bytes (all m
            for <= 64 bytes, else 1, 57, 69, n/2, n-2, n-1), and EVERY single fault: op k raises OSError(errno) and the operation continues
            (errno per op class out of ENOSPC / EIO / EACCES / EMFILE; a failing write leaves half
            of its bytes behind).  Each fault run reports the op it hit; a mismatch with the
            reference trace is a harness error (op numbering must be reproducible).
Oracle    : in the parent, after the child is gone.  For every history file that existed before:
            still present (only a GC pass with a limit that really constrains the collection may
            remove files, and never a loadable live-locked one - which files it picks is C14), and
            its content is either byte-identical to before, or LazyJSON(f).load() succeeds and equals
            the complete old version, the complete new version (= what the un-faulted run wrote;
            the clock is owned by the harness so the two are comparable) or, for a stale locked
            file under GC, the complete old version with the lock cleared.  Anything else - empty,
            truncated, unloadable, a third command list - is a failure.  Left-over *.json.tmp
            files are allowed; a left-over file that xonsh enumerates as a history file
            (xonsh-*.json) and that does not load is a failure ("stray").  An operation that rewrites
            a file twice, each time atomically (flush, then the at-exit flush), may leave the complete
            version in between: the complete NEW command list, no field invented, no field dropped
            that both versions have, every other field with its old or its new value.  The
            un-faulted run is itself checked against a model written from the property text (flush: old + buffered; delete: the filtered list; erasedups: a
            sub-sequence that keeps at least one copy of every command; GC: same commands, a live
            session's file stays locked).
SQLite    : a syscall-level pass: a small driver process (this file, --driver) runs append /
            delete / erasedups / gc, also as first touch of a legacy (pre-WAL, pre-frequency-column)
            database, under `strace -f -e inject=<syscall>:signal=KILL:when=K` for every
            write-class syscall (write, pwrite64, fsync, fdatasync, ftruncate, unlink, rename ...)
            and every K it reaches after the operation started (strace counts per syscall and per
            tracee); all points in thorough, an even sample of 18 per case in quick.  Oracle: the
            database opens, PRAGMA integrity_check = ok, the rows are exactly the old set, the new
            set, or (append) old + a prefix of the appended commands.  The same pass is run for
            the JSON backend (one scenario per operation kind in quick, 200 in thorough; every kill
            point; each scenario once more with $TMPDIR on another file system, enumerated when the
            syscall sequence or the result differs) as a cross-check of the Python-level op model
            that does not depend on how xonsh, shutil or the io stack are structured.
Known     : C13-F1 (GC unlock rewrite is an in-place open(f, 'w')), C13-F2 (flush treats an
            OSError while *reading* its intact file as "corrupt, start empty" and replaces the
            file with only the buffered commands).  Narrow predicates is_f1 / is_f2; exactly those
            outcomes are tolerated in the generated campaign (counted in excluded_known) as long as
            the finding is OPEN in known_findings.json - the shape of a repaired finding (F1) is a
            violation again - and exercised by the replay tier.
"""

from __future__ import annotations

import errno as _errno
import json
import os
import re
import shutil
import signal
import sqlite3
import subprocess
import sys
import threading
import time as _real_time

if __name__ == "__main__":            # driver mode (run under strace): make `vlib` importable
    sys.path.insert(0, os.path.dirname(os.path.dirname(os.path.abspath(__file__))))

from vlib import common
from vlib.common import Failure, Stats

PROP = "C13"
LEVEL = "fault_enumeration"
HOOKS = False
RULE = ("scenario (1-4 generated JSON history files: unlocked / locked-live / locked-stale, open / closed, "
        "optional corrupt member, three locations) x one rewriting operation (flush thread, flush at exit, "
        "exit hook, buffer-full flush, delete(pattern), erasedups, GC enumeration, run_gc, start-up GC) drawn by "
        "Hypothesis, payloads below and above the write buffer; $TMPDIR on the history file system and (enumerated "
        "when the operation's calls, outcomes or result differ) on another file system; per scenario and per buffering model (real io stack "
        "with ops counted at raw write(2) level / nothing on disk before flush or close / every write() on disk at "
        "once) EVERY crash point before each file-system op, EVERY listed "
        "partial-write length of each write op and EVERY single injected OSError per op are executed in "
        "fresh forks; SQLite (and JSON again) through strace SIGKILL injection at every "
        "write-class syscall of a driver process.  non-trivial = the operation really rewrites something "
        "and the point lies inside the rewriting window: a crash after the first and not after the last "
        "mutating op, any partial write, a fault on an op up to the last mutating op; strace: a kill at a "
        "write-class syscall issued after the operation started.  distinct = hash of (scenario, operation, "
        "buffering model, temp-dir model, mode, k, m / errno)")

NOW = 1_700_000_000.0
BOOT = NOW - 1_000_000.0

INPS = ["ls", "ls -la", "cd /tmp", "echo hi", "git status", "echo 'naïve ☃'", "make -j4",
        "ls  ", "for i in range(3):\n    print(i)", "cat a | grep b > c"]
PATTERNS = ["ls", "echo.*", ".*", "git", "zzz-no-match", "l", "(ls|cd)", "make"]
CORRUPT = ["trunc", "garbage", "empty", "plainjson", "shortindex"]
FLUSH_KINDS = ("flush", "flush_exit", "flush_hook", "autoflush")
GC_KINDS = ("gc_files", "run_gc", "gc_startup")
OP_KINDS = FLUSH_KINDS + ("delete", "erasedups") + GC_KINDS

# Buffering models under which every scenario is enumerated.  The size of Python's write buffer is a property
# of the environment (st_blksize of the file system, interpreter version), not of xonsh, so atomicity must
# hold for each of them:
#   real - the interpreter's own stack: FileIO -> BufferedWriter(default size) -> TextIOWrapper; ops are counted
#          at the RAW level (one op per write(2) the process would issue), data sits in user space until then
#   huge - same stack with a 4 MiB buffer: nothing reaches the file before flush()/close()
#   wt   - write-through: every completed Python-level write() is on disk at once (a tiny buffer / explicit flush)
BUFS = ("real", "huge", "wt")
# Where the process-wide temp directory ($TMPDIR / tempfile.tempdir) lives: on the file system of the history
# directory, or on ANOTHER one (tmpfs /tmp vs. $HOME on disk): rename/replace from there fails with EXDEV and
# "move" helpers fall back to an in-place copy.  A history writer must stage its new version next to the target.
TMPS = ("same", "xdev")
XDEV_CANDIDATES = ("/dev/shm", "/var/tmp", "/tmp", "/run/user/%d" % os.getuid())
XDEV_PREFIX = "c13-xdev-"
WRITE_OPS = ("write", "oswrite", "sendfile")
HUGE_BUF = 4 << 20
BULK_INPS = ("ls -la /srv/data/d", "echo value", "git log -n")

MUTATING = ("open-w", "fdopen-w", "osopen-w", "write", "bwrite", "oswrite", "sendfile", "close-w", "mkstemp", "replace",
            "rename", "remove", "unlink", "truncate", "ftruncate")
READ_ONLY = ("open-r", "fdopen-r", "osopen-r", "read")
ERRNOS = {
    "open-r": ("EACCES", "EIO", "EMFILE"),
    "fdopen-r": ("EIO",),
    "osopen-r": ("EACCES", "EIO", "EMFILE"),
    "read": ("EIO",),
    "open-w": ("ENOSPC", "EACCES", "EIO"),
    "fdopen-w": ("EIO",),
    "osopen-w": ("ENOSPC", "EACCES", "EIO"),
    "mkstemp": ("ENOSPC", "EACCES", "EIO"),
    "write": ("ENOSPC", "EIO"),
    "bwrite": ("ENOSPC", "EIO"),
    "oswrite": ("ENOSPC", "EIO"),
    "sendfile": ("ENOSPC", "EIO"),
    "utime": ("EPERM",),
    "chmod": ("EPERM",),
    "close-w": ("ENOSPC", "EIO"),
    "replace": ("ENOSPC", "EACCES", "EIO"),
    "rename": ("ENOSPC", "EACCES", "EIO"),
    "remove": ("EACCES", "EIO"),
    "unlink": ("EACCES", "EIO"),
    "truncate": ("EACCES", "EIO"),
    "ftruncate": ("EIO",),
}


# ----------------------------------------------------------------------------------------
# harness-owned clock (same idea as C14)


class _Clock:
    def time(self):
        return NOW

    def sleep(self, s):
        cur = threading.current_thread()
        for t in threading.enumerate():
            if t is not cur and type(t).__name__.endswith("HistoryGC"):
                t.join(min(s, 0.05))
                return
        _real_time.sleep(min(s, 0.0005))

    def __getattr__(self, name):
        return getattr(_real_time, name)


_state = {}


def _setup(scratch):
    """Load a real XonshSession (no Execer: history code does not need one, and the parser's table
    loader thread must not be alive when we fork)."""
    if _state:
        return _state
    from vlib import session

    base = os.path.join(scratch, "c13-%d" % os.getpid())
    data = os.path.join(base, "data")
    os.makedirs(data, exist_ok=True)
    from xonsh.built_ins import XSH
    from xonsh.environ import Env

    if XSH.builtins_loaded:
        session.unload_session()
    envd = session.base_env_dict(base, XONSH_HISTORY_BACKEND="json", XONSH_DATA_DIR=data,
                                 XONSH_HISTORY_SIZE=(10 ** 9, "commands"))
    XSH.load(ctx={}, execer=None, env=Env(envd))
    XSH.history = None
    import xonsh.history.json as xhj
    import xonsh.history.sqlite as xhs
    import xonsh.lib.lazyjson as xlj
    import xonsh.xoreutils.uptime as up

    if not (hasattr(xhj, "time") and hasattr(xhj.time, "sleep") and getattr(xhj, "uptime", None) is up):
        raise common.HarnessError("xonsh.history.json no longer reaches the clock through `time` / `uptime`")
    clock = _Clock()
    xhj.time = clock
    xhs.time = clock
    up.boottime = lambda: BOOT
    _state.update(XSH=XSH, xhj=xhj, xhs=xhs, xlj=xlj, base=base, data=data, cache={}, bufsize=_probe_bufsize(base))
    return _state


def _sweep_xdev(parent, max_age=3 * 3600.0):
    """Remove scratch directories of dead earlier runs (a killed worker cannot clean up after itself)."""
    try:
        names = os.listdir(parent)
    except OSError:
        return
    for n in names:
        p = os.path.join(parent, n)
        try:
            if n.startswith(XDEV_PREFIX) and _real_time.time() - os.stat(p).st_mtime > max_age:
                shutil.rmtree(p, ignore_errors=True)
        except OSError:
            pass


def _tmpdir(tmp):
    """The directory tempfile.tempdir / $TMPDIR point to under model `tmp` (created lazily, per process).
    'xdev' -> a fresh directory on a file system other than the one of the history directory, or None when
    this machine has no second writable file system."""
    dirs = _state.setdefault("tmpdirs", {})
    if tmp in dirs:
        return dirs[tmp]
    if tmp == "same":
        d = os.path.join(_state["base"], "tmpdir")
        os.makedirs(d, exist_ok=True)
    else:
        import atexit
        import tempfile

        d = None
        os.makedirs(_state["data"], exist_ok=True)
        dev = os.stat(_state["data"]).st_dev
        for cand in XDEV_CANDIDATES:
            try:
                if os.path.isdir(cand) and os.access(cand, os.W_OK | os.X_OK) and os.stat(cand).st_dev != dev:
                    _sweep_xdev(cand)
                    d = tempfile.mkdtemp(prefix="%s%d-" % (XDEV_PREFIX, os.getpid()), dir=cand)
                    break
            except OSError:
                continue
        if d is not None:
            atexit.register(shutil.rmtree, d, True)
    dirs[tmp] = d
    return d


def _drop_tmpdirs():
    """Remove the scratch directory on the other file system (multiprocessing workers skip atexit)."""
    d = (_state.get("tmpdirs") or {}).pop("xdev", None)
    if d:
        shutil.rmtree(d, ignore_errors=True)


def _wipe(d):
    shutil.rmtree(d, ignore_errors=True)
    os.makedirs(d, exist_ok=True)


def _open_findings():
    """Ids of the findings that are still open: only those are tolerated in the generated campaign - the
    shape of a repaired one coming back (or a different change producing it) is a violation."""
    if "open_ids" not in _state:
        _state["open_ids"] = {e["id"] for e in common.load_known(PROP) if e.get("status") == "open"}
    return _state["open_ids"]


def _probe_bufsize(dirpath):
    """The write-buffer size open() really picks for a file in the scratch file system (st_blksize and
    interpreter dependent), found by experiment: bytes accepted before the first one reaches the file."""
    p = os.path.join(dirpath, "bufprobe-%d" % os.getpid())
    with open(p, "wb") as f:
        fd, size = f.fileno(), 0
        for _ in range(HUGE_BUF):
            f.write(b"x")
            size = os.fstat(fd).st_size
            if size:
                break
    os.remove(p)
    if not size:
        raise common.HarnessError("could not determine the default write-buffer size")
    return size


# ----------------------------------------------------------------------------------------
# scenario -> bytes on disk


def _file_path(data, fs):
    if fs["where"] == "hist":
        return os.path.join(data, "history_json", "xonsh-%s.json" % fs["sid"])
    if fs["where"] == "data":
        return os.path.join(data, "xonsh-%s.json" % fs["sid"])
    return os.path.join(data, "custom", "hist-%s.json" % fs["sid"])


def _file_meta(i, fs, counter):
    cmds = []
    for inp, rtn in fs["cmds"]:
        tsb = BOOT - 50_000.0 + 7.0 * counter[0]
        counter[0] += 1
        cmds.append({"inp": inp + "\n", "rtn": rtn, "ts": [tsb, tsb + 1.5], "cwd": "/home/u"})
    for j in range(fs.get("bulk") or 0):    # payload above the I/O buffer size; j and j + 96 are duplicates
        tsb = BOOT - 50_000.0 + 7.0 * counter[0]
        counter[0] += 1
        cmds.append({"inp": "%s %04d\n" % (BULK_INPS[j % 3], j % 96), "rtn": 0, "ts": [tsb, tsb + 1.5], "cwd": "/home/u"})
    t0 = (BOOT - 5000.0 - i) if fs["lock"] == "stale" or (fs["lock"] == "no" and fs.get("old")) else (BOOT + 5000.0 + i)
    meta = {"cmds": cmds, "sessionid": fs["sid"], "ts": [t0, (t0 + 100.0) if fs["closed"] else None],
            "locked": fs["lock"] != "no"}
    if fs.get("env"):
        meta["env"] = {"PATH": "/usr/bin:/bin", "HOME": "/home/u", "XONSH_INTERACTIVE": "1"}
    return meta


def _file_bytes(meta, corrupt):
    xlj = _state["xlj"]
    s = xlj.dumps(meta, sort_keys=True)
    if corrupt is None:
        return s.encode("utf-8")
    if corrupt == "trunc":
        return s[: (len(s) * 2) // 3].encode("utf-8")
    if corrupt == "garbage":
        return b"\x00\x01 this is not a history file \xff\xfe\n" * 4
    if corrupt == "empty":
        return b""
    if corrupt == "plainjson":
        return json.dumps(meta).encode("utf-8")
    if corrupt == "shortindex":
        return s[:60].encode("utf-8")
    raise common.HarnessError("bad corrupt kind %r" % corrupt)


def _slots():
    """How many crash / fault points one worker keeps in flight (each in its own copy of the data directory).
    The points are independent fork-run-exit cycles; overlapping them hides the scheduling latency of a busy host."""
    try:
        return max(1, min(8, int(os.environ.get("VERIF_C13_SLOTS") or 2)))
    except ValueError:
        return 2


def _slot_data(slot):
    """Data directory of in-flight slot `slot` (slot 0: the worker's ordinary one)."""
    base = _state.setdefault("data0", _state["data"])
    return base if not slot else "%s-s%d" % (base, slot)


def build_scenario(scn, data=None):
    """-> list of dicts {spec, path, rel, bytes, mtime, meta}; self-checks that intact members load."""
    st = {"data": data or _state["data"]}
    out = []
    counter = [0]
    for i, fs in enumerate(scn["files"]):
        meta = _file_meta(i, fs, counter)
        b = _file_bytes(meta, fs.get("corrupt"))
        path = _file_path(st["data"], fs)
        out.append({"spec": fs, "path": path, "rel": os.path.relpath(path, st["data"]), "bytes": b,
                    "mtime": NOW - 1000.0 * (len(scn["files"]) - i), "meta": meta, "i": i})
    rels = [e["rel"] for e in out]
    if len(set(rels)) != len(rels):
        raise common.HarnessError("scenario has two files at the same path")
    return out


def _slot_tmp(tmp, slot=0):
    d = _tmpdir(tmp)
    return d if (d is None or not slot) else os.path.join(d, "s%d" % slot)


def materialize(entries, tmp=None, data=None, slot=0):
    data = data or _state["data"]
    if tmp is not None and _tmpdir(tmp):
        if slot:
            _wipe(_slot_tmp(tmp, slot))
        else:                               # slot 0 owns the files directly in the directory, not the slot sub-directories
            d = _tmpdir(tmp)
            os.makedirs(d, exist_ok=True)
            for n in os.listdir(d):
                q = os.path.join(d, n)
                if not (os.path.isdir(q) and re.fullmatch(r"s\d+", n)):
                    shutil.rmtree(q, ignore_errors=True) if os.path.isdir(q) else os.unlink(q)
    shutil.rmtree(data, ignore_errors=True)
    os.makedirs(os.path.join(data, "history_json"))
    for e in entries:
        os.makedirs(os.path.dirname(e["path"]), exist_ok=True)
        with open(e["path"], "wb") as f:
            f.write(e["bytes"])
        os.utime(e["path"], (e["mtime"], e["mtime"]))


def load_state(path, raw):
    """('ok', dict) when LazyJSON(path).load() succeeds, else ('bad', reason).  Cached by content."""
    cache = _state["cache"]
    key = common.h64(raw)
    if key in cache:
        return cache[key]
    xlj = _state["xlj"]
    probe = os.path.join(_state["base"], "probe-%d.json" % os.getpid())   # never trust what is at `path` now
    try:
        if len(raw) == 0:
            raise ValueError("zero-length file")
        with open(probe, "wb") as f:
            f.write(raw)
        lj = xlj.LazyJSON(probe)
        d = lj.load()
        if not isinstance(d, dict) or not isinstance(d.get("cmds"), list):
            raise ValueError("loaded value is not a history mapping: %r" % (type(d).__name__,))
        res = ("ok", d)
    except Exception as e:  # noqa: BLE001
        res = ("bad", "%s: %s" % (type(e).__name__, str(e)[:120]))
    if len(cache) > 4000:
        cache.clear()
    cache[key] = res
    return res


def snapshot(entries):
    """-> {rel: bytes or None} for the scenario's files, plus the list of other files now present."""
    snap = {}
    for e in entries:
        try:
            with open(e["path"], "rb") as f:
                snap[e["rel"]] = f.read()
        except FileNotFoundError:
            snap[e["rel"]] = None
        except IsADirectoryError:
            snap[e["rel"]] = None
    return snap


def stray_history_files(entries, data=None):
    """Files the operation left behind that xonsh will enumerate as history files (xonsh-*.json in
    history_json/ or in the data dir) although the scenario never had them -> [(rel, bytes)]."""
    data = data or _state["data"]
    known = {e["path"] for e in entries}
    out = []
    for d in (os.path.join(data, "history_json"), data):
        try:
            names = sorted(os.listdir(d))
        except OSError:
            continue
        for n in names:
            p = os.path.join(d, n)
            if n.startswith("xonsh-") and n.endswith(".json") and p not in known and os.path.isfile(p):
                with open(p, "rb") as f:
                    out.append((os.path.relpath(p, data), f.read()))
    return out


# ----------------------------------------------------------------------------------------
# injector (lives in the forked child)


class _Injector:
    def __init__(self, root, plan, wfd, buf="wt", tmproot=None):
        self.root = os.path.realpath(root)
        self.tmproot = os.path.realpath(tmproot) if tmproot else None
        self.buf = buf
        self.plan = plan
        self.wfd = wfd
        self.n = 0
        self.depth = 0
        self.trace = []
        self.fdmap = {}
        self.tmpnames = set()       # names handed out by mkstemp, whatever they look like
        self.active = True

    def report(self, obj):
        os.write(self.wfd, (json.dumps(obj) + "\n").encode())

    def label(self, p):
        if isinstance(p, int):
            q = self.fdmap.get(p)
            return None if q is None else self.label(q)
        try:
            p = os.fspath(p)
        except TypeError:
            return None
        if isinstance(p, bytes):
            p = os.fsdecode(p)
        p = os.path.abspath(p)
        if not (p == self.root or p.startswith(self.root + os.sep)):
            rp = os.path.realpath(p)
            if not rp.startswith(self.root + os.sep):
                t = self.tmproot
                if t and (rp == t or rp.startswith(t + os.sep)):        # the process-wide temp directory
                    rel = os.path.relpath(rp, t)
                    if rel == ".":
                        return "<tmpdir>"
                    if p in self.tmpnames or rp in self.tmpnames or rel.endswith(".tmp") or re.search(r"(^|/)tmp[^/]*$", rel):
                        rel = os.path.join(os.path.dirname(rel), "<tmp>")
                    return os.path.join("<tmpdir>", rel)
                return None
            p = rp
        rel = os.path.relpath(p, self.root)
        if p in self.tmpnames or rel.endswith(".tmp") or re.search(r"(^|/)tmp[^/]*$", rel):
            rel = os.path.join(os.path.dirname(rel), "<tmp>")
        return rel

    def op(self, kind, label, nbytes=None):
        k = self.n
        self.n += 1
        self.trace.append([kind, label, nbytes])
        p = self.plan
        if p is None or p["k"] != k:
            return None
        self.report({"hit": [k, kind, label]})
        if p["mode"] == "crash":
            if p.get("m") is None or kind not in WRITE_OPS:
                os._exit(9)
            return ("partial", p["m"])
        return ("fault", p["errno"])

    def fail(self, act, label):
        code = getattr(_errno, act[1])
        raise OSError(code, os.strerror(code), label)

    def published(self, rel, path, opener):
        """Reference run: a completed rename/replace has just put a version of a history file in place - the only
        way a complete version appears atomically.  Its content is reported; the complete (loadable) ones are the
        versions a kill may legitimately leave behind, besides the previous and the final one."""
        self.depth += 1
        try:
            with opener(path, "rb") as f:
                raw = f.read()
        except OSError:
            return
        finally:
            self.depth -= 1
        self.report({"pub": [rel, raw.hex()]})

    def natural(self, idx, err):
        """Op idx failed by itself (EXDEV from a rename across file systems ...): part of the trace, so that
        two environments with the same calls but different outcomes are not taken for the same execution."""
        if 0 <= idx < len(self.trace) and len(self.trace[idx]) == 3:
            self.trace[idx].append(_errno.errorcode.get(getattr(err, "errno", None), "OSError"))


def _install(inj):
    """Replace the file-system entry points with counting / faulting wrappers (child only)."""
    import builtins
    import io
    import tempfile

    o_open = io.open
    o_osopen, o_oswrite, o_osclose = os.open, os.write, os.close
    o_replace, o_rename, o_remove, o_unlink = os.replace, os.rename, os.remove, os.unlink
    o_truncate, o_ftruncate = os.truncate, os.ftruncate
    o_utime, o_chmod = os.utime, os.chmod
    o_sendfile = getattr(os, "sendfile", None)
    o_cfr = getattr(os, "copy_file_range", None)
    o_mkstemp = tempfile.mkstemp

    class CText(io.TextIOWrapper):
        _c13_label = None
        _c13_w = False
        _c13_rawlevel = False

        def write(self, s):
            if inj.depth or not inj.active or self._c13_label is None or self._c13_rawlevel:
                return super().write(s)     # raw level: the real buffering decides when write(2) happens
            enc = s.encode(self.encoding or "utf-8", self.errors or "strict")
            if self._c13_newline_translate:
                enc = enc.replace(b"\n", os.linesep.encode())
            act = inj.op("write", self._c13_label, len(enc))
            if act is not None:
                super().flush()
                m = act[1] if act[0] == "partial" else len(enc) // 2
                if m:
                    o_oswrite(self.fileno(), enc[:m])
                if act[0] == "partial":
                    os._exit(9)
                inj.fail(act, self._c13_label)
            r = super().write(s)
            super().flush()          # every completed write reaches the file: superset of real states
            return r

        def read(self, *a):
            if not (inj.depth or not inj.active or self._c13_label is None):
                act = inj.op("read", self._c13_label)
                if act is not None:
                    inj.fail(act, self._c13_label)
            return super().read(*a)

        def close(self):
            if self._c13_w and not self.closed and not inj.depth and inj.active:
                act = inj.op("close-w", self._c13_label)
                if act is not None:
                    try:
                        super().close()
                    finally:
                        inj.fail(act, self._c13_label)
            return super().close()

    class CRaw(io.FileIO):
        """Raw file of the 'real' / 'huge' models: one op per write(2) the process issues."""
        _c13_label = None

        def write(self, b):
            if inj.depth or not inj.active or self._c13_label is None:
                return super().write(b)
            data = bytes(b)
            act = inj.op("write", self._c13_label, len(data))
            if act is not None:
                m = act[1] if act[0] == "partial" else len(data) // 2
                if m:
                    o_oswrite(self.fileno(), data[:m])
                if act[0] == "partial":
                    os._exit(9)
                inj.fail(act, self._c13_label)
            return super().write(b)

        def close(self):
            if not self.closed:
                try:
                    inj.fdmap.pop(self.fileno(), None)
                except (OSError, ValueError):
                    pass
            return super().close()

    def _path_of(file):
        if isinstance(file, int):
            return inj.fdmap.get(file)
        return os.path.abspath(os.fsdecode(os.fspath(file)))

    def w_open(file, mode="r", buffering=-1, encoding=None, errors=None, newline=None, closefd=True, opener=None):
        label = None if (inj.depth or not inj.active) else inj.label(file)
        if label is None:
            return o_open(file, mode, buffering, encoding, errors, newline, closefd, opener)
        writing = any(c in mode for c in "wax+")
        kind = ("fdopen-" if isinstance(file, int) else "open-") + ("w" if writing else "r")
        act = inj.op(kind, label)
        if act is not None:
            inj.fail(act, label)
        if "b" in mode and writing and inj.buf != "wt":
            # binary writable handle (shutil's copy fall-back ...) under the raw-level models: the same stack as the
            # interpreter's, writes counted per write(2); sendfile / copy_file_range onto its fd are ops of their own
            fio = CRaw(file, mode.replace("b", ""), closefd=closefd, opener=opener)
            fio._c13_label = label
            inj.fdmap[fio.fileno()] = _path_of(file)
            if buffering == 0:
                return fio
            try:
                bs = HUGE_BUF if inj.buf == "huge" else buffering if buffering > 1 else _state["bufsize"]
                return (io.BufferedRandom if "+" in mode else io.BufferedWriter)(fio, bs)
            except BaseException:
                fio.close()
                raise
        if "b" in mode:
            # write-through model: the I/O on binary handles is not wrapped; a writable one gets a synthetic op
            # right after the open = "the data has not been written yet" (sendfile onto its fd is counted)
            f = o_open(file, mode, buffering, encoding, errors, newline, closefd, opener)
            if writing:
                inj.fdmap[f.fileno()] = _path_of(file)
                act = inj.op("bwrite", label)
                if act is not None:
                    f.close()
                    inj.fail(act, label)
            return f
        rawlevel = writing and inj.buf != "wt"
        if rawlevel:
            fio = CRaw(file, mode.replace("t", ""), closefd=closefd, opener=opener)
            fio._c13_label = label
            try:
                bs = HUGE_BUF if inj.buf == "huge" else buffering if buffering > 1 else _state["bufsize"]
                raw = (io.BufferedRandom if "+" in mode else io.BufferedWriter)(fio, bs)
            except BaseException:
                fio.close()
                raise
        else:
            raw = o_open(file, mode.replace("t", "") + "b", -1, None, None, None, closefd, opener)
        try:
            f = CText(raw, encoding=encoding or "utf-8", errors=errors, newline=newline,
                      line_buffering=bool(rawlevel and buffering == 1 and inj.buf == "real"))
        except BaseException:
            raw.close()
            raise
        f._c13_label = label
        f._c13_rawlevel = rawlevel
        f._c13_w = writing
        f._c13_newline_translate = newline is None and os.linesep != "\n"
        f.mode = mode
        return f

    def w_osopen(path, flags, mode=0o777, *, dir_fd=None):
        label = None if (inj.depth or not inj.active or dir_fd is not None) else inj.label(path)
        if label is None:
            if dir_fd is not None:
                return o_osopen(path, flags, mode, dir_fd=dir_fd)
            return o_osopen(path, flags, mode)
        writing = bool(flags & (os.O_WRONLY | os.O_RDWR | os.O_CREAT | os.O_TRUNC | os.O_APPEND))
        act = inj.op("osopen-w" if writing else "osopen-r", label)
        if act is not None:
            inj.fail(act, label)
        fd = o_osopen(path, flags, mode)
        inj.fdmap[fd] = os.path.abspath(os.fspath(path))
        return fd

    def w_oswrite(fd, data):
        if inj.depth or not inj.active or fd not in inj.fdmap or fd == inj.wfd:
            return o_oswrite(fd, data)
        label = inj.label(fd)
        if label is None:
            return o_oswrite(fd, data)
        data = bytes(data)
        act = inj.op("oswrite", label, len(data))
        if act is not None:
            m = act[1] if act[0] == "partial" else len(data) // 2
            if m:
                o_oswrite(fd, data[:m])
            if act[0] == "partial":
                os._exit(9)
            inj.fail(act, label)
        return o_oswrite(fd, data)

    def w_osclose(fd):
        inj.fdmap.pop(fd, None)
        return o_osclose(fd)

    def _two(kind, orig):
        def w(src, dst, *a, **kw):
            if inj.depth or not inj.active or a or kw:
                return orig(src, dst, *a, **kw)
            ls, ld = inj.label(src), inj.label(dst)
            if ls is None and ld is None:
                return orig(src, dst)
            label = "%s -> %s" % (ls, ld)
            idx = inj.n
            act = inj.op(kind, label)
            if act is not None:
                inj.fail(act, label)
            try:
                r = orig(src, dst)
            except OSError as e:
                inj.natural(idx, e)
                raise
            if inj.plan is None and ld is not None and not ld.startswith("<tmpdir>") and not ld.endswith("<tmp>"):
                inj.published(ld, dst, o_open)
            return r
        return w

    def _one(kind, orig):
        def w(path, *a, **kw):
            if inj.depth or not inj.active or kw.get("dir_fd") is not None:
                return orig(path, *a, **kw)
            label = inj.label(path)
            if label is None:
                return orig(path, *a, **kw)
            idx = inj.n
            act = inj.op(kind, label)
            if act is not None:
                inj.fail(act, label)
            try:
                return orig(path, *a, **kw)
            except OSError as e:
                inj.natural(idx, e)
                raise
        return w

    def _remaining(in_fd, offset, count):
        try:
            pos = offset if offset is not None else os.lseek(in_fd, 0, os.SEEK_CUR)
            return max(0, min(count, os.fstat(in_fd).st_size - pos))
        except OSError:
            return count

    def w_sendfile(out_fd, in_fd, offset, count, *a, **kw):
        label = None if (inj.depth or not inj.active or a or kw or out_fd == inj.wfd) else inj.label(out_fd)
        if label is None:
            return o_sendfile(out_fd, in_fd, offset, count, *a, **kw)
        nb = _remaining(in_fd, offset, count)
        act = inj.op("sendfile", label, nb)
        if act is not None:
            m = act[1] if act[0] == "partial" else nb // 2
            if m:
                o_sendfile(out_fd, in_fd, offset, m)
            if act[0] == "partial":
                os._exit(9)
            inj.fail(act, label)
        return o_sendfile(out_fd, in_fd, offset, count)

    def w_cfr(src, dst, count, offset_src=None, offset_dst=None):
        label = None if (inj.depth or not inj.active or dst == inj.wfd) else inj.label(dst)
        if label is None:
            return o_cfr(src, dst, count, offset_src, offset_dst)
        nb = _remaining(src, offset_src, count)
        act = inj.op("sendfile", label, nb)
        if act is not None:
            m = act[1] if act[0] == "partial" else nb // 2
            if m:
                o_cfr(src, dst, m, offset_src, offset_dst)
            if act[0] == "partial":
                os._exit(9)
            inj.fail(act, label)
        return o_cfr(src, dst, count, offset_src, offset_dst)

    def w_mkstemp(suffix=None, prefix=None, dir=None, text=False):
        # dir=None: the process-wide temp directory ($TMPDIR), which the harness places per environment model
        label = None if (inj.depth or not inj.active) else inj.label(dir if dir is not None else tempfile.gettempdir())
        if label is None:
            return o_mkstemp(suffix, prefix, dir, text)
        label = os.path.join(label, "<tmp>")
        act = inj.op("mkstemp", label)
        if act is not None:
            inj.fail(act, label)
        inj.depth += 1
        try:
            fd, name = o_mkstemp(suffix, prefix, dir, text)
        finally:
            inj.depth -= 1
        inj.fdmap[fd] = name
        inj.tmpnames.add(os.path.abspath(name))
        return fd, name

    builtins.open = w_open
    io.open = w_open
    os.open = w_osopen
    os.write = w_oswrite
    os.close = w_osclose
    os.replace = _two("replace", o_replace)
    os.rename = _two("rename", o_rename)
    os.remove = _one("remove", o_remove)
    os.unlink = _one("unlink", o_unlink)
    os.truncate = _one("truncate", o_truncate)
    os.ftruncate = _one("ftruncate", o_ftruncate)
    os.utime = _one("utime", o_utime)           # copystat of a copy fall-back
    os.chmod = _one("chmod", o_chmod)
    if o_sendfile is not None:
        os.sendfile = w_sendfile
    if o_cfr is not None:
        os.copy_file_range = w_cfr
    tempfile.mkstemp = w_mkstemp
    try:                                        # tempfile.NamedTemporaryFile & co. open through _io.open
        import _io

        _io.open = w_open
    except (ImportError, AttributeError, TypeError):
        pass
    # deterministic directory order (independent of the file system's hashing)
    o_listdir = os.listdir

    def w_listdir(path="."):
        return sorted(o_listdir(path))

    os.listdir = w_listdir


# ----------------------------------------------------------------------------------------
# the operation (child side; also used by the strace driver)


def _own_entry(scn, entries):
    return entries[scn["own"]]


def _make_history(scn, entries):
    st = _state
    xhj, XSH = st["xhj"], st["XSH"]
    op = scn["op"]
    own = _own_entry(scn, entries)
    env = XSH.env
    env["HISTCONTROL"] = set(op.get("histcontrol") or ())
    env["XONSH_STORE_STDOUT"] = bool(op.get("store_stdout"))
    if own["spec"]["where"] == "custom":
        env["XONSH_HISTORY_FILE"] = own["path"]
    if op["kind"] == "gc_startup":
        env["XONSH_HISTORY_SIZE"] = tuple(op["size"])
    hist = xhj.JsonHistory(filename=own["path"], sessionid=own["spec"]["sid"], gc=False,
                           ts=[BOOT + 5000.0, None], locked=True, buffersize=10 ** 6)
    XSH.history = hist
    return hist


def _buffered_cmds(op):
    out = []
    for j, (inp, rtn) in enumerate(op.get("cmds") or ()):
        c = {"inp": inp + "\n", "rtn": rtn, "ts": [NOW - 100.0 + j, NOW - 99.5 + j], "cwd": "/home/u"}
        if op.get("out"):
            c["out"] = "output of %d\n" % j
        out.append(c)
    return out


def _perform(scn, hist):
    st = _state
    xhj, XSH = st["xhj"], st["XSH"]
    op = scn["op"]
    kind = op["kind"]
    cmds = _buffered_cmds(op)
    if kind == "autoflush":
        hist.buffersize = len(cmds)
        hf = None
        for c in cmds:
            hf = hist.append(c) or hf
        if isinstance(hf, threading.Thread):
            hf.join()
        return
    for c in cmds:
        hist.append(c)
    if kind == "flush":
        hf = hist.flush()
        if isinstance(hf, threading.Thread):
            hf.join()
    elif kind == "flush_exit":
        hist.flush(at_exit=True)
    elif kind == "flush_hook":
        hook = getattr(XSH, "_flush_on_exit", None)
        if hook is None:
            raise common.HarnessError("XonshSession.load no longer registers _flush_on_exit")
        hook()
    elif kind == "delete":
        hist.delete(op["pattern"])
    elif kind == "erasedups":
        hist.erasedups()
    elif kind == "gc_files":
        gc = xhj.JsonHistoryGC.__new__(xhj.JsonHistoryGC)
        xhj.JsonHistoryGC.files(gc, only_unlocked=bool(op.get("only_unlocked")))
    elif kind == "run_gc":
        hist.run_gc(size=tuple(op["size"]), blocking=True, force=bool(op.get("force")))
        if hist.gc is not None:
            hist.gc.join()
    elif kind == "gc_startup":
        gc = xhj.JsonHistoryGC()
        gc.wait_for_shell = False
        gc.join()
    else:
        raise common.HarnessError("bad op kind %r" % kind)


def _use_tmpdir(d):
    """Point the process-wide temp directory (tempfile.tempdir, $TMPDIR and friends) to d."""
    import tempfile

    if d:
        for v in ("TMPDIR", "TEMP", "TMP"):
            os.environ[v] = d
        tempfile.tempdir = d
    return d


def _child(scn, entries, plan, wfd, buf="wt", tmp="same"):
    """Runs in the forked child; never returns."""
    code = 70
    try:
        signal.signal(signal.SIGALRM, signal.SIG_DFL)
        signal.alarm(30)
        dn = os.open(os.devnull, os.O_WRONLY)
        os.dup2(dn, 1)
        os.dup2(dn, 2)
        thread_exc = []
        threading.excepthook = lambda a: thread_exc.append("%s: %s" % (getattr(a.exc_type, "__name__", "?"), a.exc_value))
        hist = _make_history(scn, entries)
        tmproot = _use_tmpdir(_tmpdir(tmp))
        inj = _Injector(_state["data"], plan, wfd, buf, tmproot)
        _install(inj)
        exc = None
        try:
            _perform(scn, hist)
        except common.HarnessError as e:
            inj.active = False
            inj.report({"harness": str(e)})
            os._exit(71)
        except BaseException as e:  # noqa: BLE001
            exc = "%s: %s" % (type(e).__name__, str(e)[:200])
        inj.active = False
        inj.report({"done": True, "trace": inj.trace, "exc": exc, "thread_exc": thread_exc})
        code = 0
    except BaseException as e:  # noqa: BLE001
        try:
            os.write(wfd, (json.dumps({"harness": "child setup failed: %s: %s" % (type(e).__name__, e)}) + "\n").encode())
        except Exception:  # noqa: BLE001
            pass
    finally:
        os._exit(code)


def start_point(scn, entries, plan, buf="wt", tmp="same", data=None, slot=0):
    """Materialise, fork, let the child run the operation under `plan`.  -> handle for finish_point().
    entries must have been built for `data` (the slot's own data directory)."""
    if threading.active_count() != 1:
        raise common.HarnessError("cannot fork: %d threads alive in the worker" % threading.active_count())
    if _tmpdir(tmp) is None:
        raise common.HarnessError("no directory for the temp-dir model %r on this machine" % tmp)
    data = data or _state["data"]
    materialize(entries, tmp, data, slot)
    r, w = os.pipe()
    pid = os.fork()
    if pid == 0:
        try:
            os.close(r)
            _state["data"] = data
            _state["XSH"].env["XONSH_DATA_DIR"] = data
            _state.setdefault("tmpdirs", {})[tmp] = _slot_tmp(tmp, slot)
        except BaseException:  # noqa: BLE001
            os._exit(72)
        _child(scn, entries, plan, w, buf, tmp)
    os.close(w)
    return {"pid": pid, "r": r}


def finish_point(h):
    r, pid = h["r"], h["pid"]
    chunks = []
    while True:
        b = os.read(r, 65536)
        if not b:
            break
        chunks.append(b)
    os.close(r)
    h["r"] = None
    _, status = os.waitpid(pid, 0)
    h["pid"] = None
    res = {"hit": None, "done": False, "trace": None, "exc": None, "status": status, "pubs": []}
    for line in b"".join(chunks).decode("utf-8", "replace").splitlines():
        try:
            m = json.loads(line)
        except ValueError:
            continue
        if "harness" in m:
            raise common.HarnessError("child: %s" % m["harness"])
        if "hit" in m:
            res["hit"] = m["hit"]
        if "pub" in m:
            res["pubs"].append((m["pub"][0], bytes.fromhex(m["pub"][1])))
        if m.get("done"):
            res.update(done=True, trace=m["trace"], exc=m["exc"], thread_exc=m.get("thread_exc"))
    return res


def abandon_point(h):
    """Reap a child whose result is no longer wanted (an earlier point of the batch raised)."""
    try:
        if h.get("pid"):
            try:
                os.kill(h["pid"], signal.SIGKILL)
            except OSError:
                pass
            os.waitpid(h["pid"], 0)
    except OSError:
        pass
    if h.get("r") is not None:
        try:
            os.close(h["r"])
        except OSError:
            pass


def run_point(scn, entries, plan, buf="wt", tmp="same"):
    """One point, start to end, in the worker's ordinary data directory.  -> dict(msgs..., status)."""
    return finish_point(start_point(scn, entries, plan, buf, tmp))


# ----------------------------------------------------------------------------------------
# oracle


def _inps(d):
    return [c.get("inp") for c in d["cmds"]]


def model_check_clean(scn, entries, old_states, new_snap):
    """The un-faulted run against a model written from the property text.  -> list of problems."""
    op = scn["op"]
    kind = op["kind"]
    problems = []
    own = _own_entry(scn, entries)
    all_old = set()
    all_new = set()
    for e in entries:
        so = old_states[e["rel"]]
        raw = new_snap[e["rel"]]
        if raw is None:
            if gc_may_remove(scn, e, so):
                continue
            problems.append("%s is gone after an un-faulted %s" % (e["rel"], kind))
            continue
        if so[0] != "ok":
            continue
        sn = load_state(e["path"], raw) if raw != e["bytes"] else so
        if sn[0] != "ok":
            problems.append("%s unloadable after an un-faulted %s: %s" % (e["rel"], kind, sn[1]))
            continue
        o, n = _inps(so[1]), _inps(sn[1])
        all_old.update(x.rstrip() for x in o)
        all_new.update(x.rstrip() for x in n)
        if kind in FLUSH_KINDS:
            if e is own:
                buf = [c["inp"] for c in _buffered_cmds(op)]
                hc = set(op.get("histcontrol") or ())
                if not hc and n != o + buf:
                    problems.append("flush: %s holds %r, expected old + buffered %r" % (e["rel"], n, o + buf))
                elif n[:len(o)] != o:
                    problems.append("flush: %s lost saved commands: %r -> %r" % (e["rel"], o, n))
            elif n != o:
                problems.append("flush changed a foreign file %s" % e["rel"])
        elif kind == "delete":
            pat = re.compile(op["pattern"])
            want = [x for x in o if not pat.match(x)]
            if n != want:
                problems.append("delete(%r): %s holds %r, expected %r" % (op["pattern"], e["rel"], n, want))
        elif kind == "erasedups":
            it = iter(o)
            if not all(any(x == y for y in it) for x in n):
                problems.append("erasedups: %s is not a sub-sequence of its old list: %r -> %r" % (e["rel"], o, n))
        else:
            if n != o:
                problems.append("GC changed the commands of %s: %r -> %r" % (e["rel"], o, n))
            if e["spec"]["lock"] == "live" and not sn[1].get("locked"):
                problems.append("GC unlocked the live session file %s" % e["rel"])
    if kind == "erasedups" and all_old != all_new:
        problems.append("erasedups lost every copy of %r" % sorted(all_old - all_new))
    return problems


def _is_subseq(xs, ys):
    it = iter(ys)
    return all(any(x == y for y in it) for x in xs)


def published_versions(pubs, scn=None, old_states=None):
    """[(rel, bytes)] reported after each completed rename/replace of an un-faulted run -> {rel: [(bytes, state)]}
    of the COMPLETE ones (an empty or unloadable file renamed into place is not a version anybody may be left with).
    A version that has lost saved commands the operation is not meant to remove is not accepted either (flush, GC:
    the old list is a prefix; delete, erasedups: a sub-sequence of the old list + what the session had buffered;
    delete: every saved command the pattern does not match is still there)."""
    out = {}
    kind = scn["op"]["kind"] if scn else None
    buf = [c["inp"] for c in _buffered_cmds(scn["op"])] if scn else []
    for rel, raw in pubs:
        st_ = load_state(rel, raw)
        if st_[0] != "ok" or any(raw == r for r, _ in out.get(rel, ())):
            continue
        so = (old_states or {}).get(rel)
        if so is not None and so[0] == "ok":
            o, n = _inps(so[1]), _inps(st_[1])
            if kind in FLUSH_KINDS + GC_KINDS and n[:len(o)] != o:
                continue
            if kind in ("delete", "erasedups") and not _is_subseq(n, o + buf):
                continue
            if kind == "delete":
                pat = re.compile(scn["op"]["pattern"])
                if not _is_subseq([x for x in o if not pat.match(x)], n):
                    continue    # dropped a saved command the pattern does not match
        out.setdefault(rel, []).append((raw, st_[1]))
    return out


def judge(scn, entries, old_states, new_snap, new_states, snap, inter=None):
    """Post-crash state vs. {old, every complete version the un-faulted run put in place by a rename/replace
    (inter, see published_versions), final}.  -> list of (kind, rel, detail)."""
    inter = inter or {}
    bad = []
    kind = scn["op"]["kind"]
    for e in entries:
        rel = e["rel"]
        raw = snap[rel]
        so, sn = old_states[rel], new_states.get(rel)
        if raw is None:
            if gc_may_remove(scn, e, so):
                continue        # which unlocked files GC picks is C14's business, not a crash artefact
            bad.append(("missing", rel, "%s existed before %s and is gone" % (rel, kind)))
            continue
        if raw == e["bytes"]:
            continue
        if new_snap[rel] is not None and raw == new_snap[rel]:
            continue
        if any(raw == r for r, _ in inter.get(rel, ())):
            continue            # a complete version between two atomic rewrites of one operation (flush, then the at-exit
                                # flush; delete, then the flush of what the session had buffered)
        s = load_state(e["path"], raw)
        if s[0] != "ok":
            what = "empty" if len(raw) == 0 else "unloadable"
            bad.append((what, rel, "%s is %s afterwards (%d bytes, was %d; %s)%s" % (
                rel, "zero-length" if not raw else "not loadable", len(raw), len(e["bytes"]), s[1],
                "" if so[0] == "ok" else " [member was already corrupt: %s]" % e["spec"].get("corrupt"))))
            continue
        if so[0] == "ok" and s[1] == so[1]:
            continue
        if sn is not None and sn[0] == "ok" and s[1] == sn[1]:
            continue
        if (kind in GC_KINDS and so[0] == "ok" and e["spec"]["lock"] == "stale"
                and s[1] == dict(so[1], locked=False)):
            continue            # the complete unlocked version (GC may remove the file afterwards)
        if any(s[1] == st_ for _, st_ in inter.get(rel, ())):
            continue
        if so[0] == "ok":
            o, n = _inps(so[1]), _inps(s[1])
            lost = [x for x in o if x not in n]
            bad.append(("third-state", rel, "%s is neither its old nor its new version: commands %r -> %r%s" % (
                rel, o, n, " (lost %r)" % lost if lost else "")))
        else:
            bad.append(("third-state", rel, "%s (corrupt before) became a version the un-faulted run does not write" % rel))
    return bad


HUGE = {"commands": 10 ** 6, "files": 100, "b": 10 ** 9, "s": 10 ** 9}


def gc_may_remove(scn, e, old_state):
    """May a GC pass with this scenario's limit delete file e at all?  (Never a loadable live-locked file,
    never anything when the limit is far above the collection.)"""
    op = scn["op"]
    if op["kind"] not in ("run_gc", "gc_startup"):
        return False
    n, unit = op["size"]
    if n >= HUGE[unit]:
        return False
    if e["spec"]["lock"] == "live" and old_state[0] == "ok":
        return False
    return True


def is_f1(scn, e, trace, point):
    """C13-F1: GC enumeration rewrites a stale locked file with an in-place open(f, 'w')."""
    if scn["op"]["kind"] not in GC_KINDS:
        return False
    fs = e["spec"]
    if fs["lock"] != "stale" or fs.get("corrupt"):
        return False
    j = next((i for i, t in enumerate(trace) if t[0] == "open-w" and t[1] == e["rel"]), None)
    if j is None:
        return False
    c = next((i for i in range(j + 1, len(trace)) if trace[i][0] == "close-w" and trace[i][1] == e["rel"]), len(trace))
    return j < point["k"] <= c


def is_f2(scn, e, trace, point, old_state, state):
    """C13-F2: flush reads its own intact file, the open/read fails with OSError -> dump() starts from an
    empty history and replaces the file with the buffered commands only."""
    if scn["op"]["kind"] not in FLUSH_KINDS or point["mode"] != "fault":
        return False
    if e["i"] != scn["own"] or e["spec"].get("corrupt"):
        return False
    t = trace[point["k"]]
    if t[0] not in ("open-r", "read") or t[1] != e["rel"]:
        return False
    if old_state[0] != "ok" or state is None or state[0] != "ok":
        return False
    buf = [c["inp"] for c in _buffered_cmds(scn["op"])]
    n = _inps(state[1])
    return state[1].get("sessionid") == "" and all(x in buf for x in n)


def enumerate_points(trace, buf="wt", tmp="same", lean=False):
    """Every kill point of one reference trace.  (The state after the LAST op needs no point of its own: the
    reference child itself ends with os._exit right after the operation returns, so its result - checked by
    model_check_clean - is the state a kill at k = N leaves, unflushed buffers included.)"""
    pts = []
    for p in _enumerate_points(trace):
        kind = trace[p["k"]][0]
        first_model = buf == BUFS[0] and tmp == TMPS[0]
        if not first_model and kind in READ_ONLY and not (buf == BUFS[0] and str(trace[p["k"]][1]).startswith("<tmpdir>")):
            continue        # a read changes nothing on disk and does not depend on the write buffering: the crash
                            # state equals the one before the next op, the fault outcome the one under the first
                            # model (reads of staged files in the temp directory are kept: they only exist here)
        if not first_model and p["mode"] == "fault" and p["errno"] != ERRNOS.get(kind, ("EIO",))[0]:
            continue        # which errno an op fails with is enumerated in full under the first model
        if lean and p["mode"] == "fault" and kind in READ_ONLY:
            ens = ERRNOS.get(kind, ("EIO",))
            if p["errno"] != ens[p["k"] % len(ens)]:
                continue    # quick tier: a failing open-for-reading takes one of its errnos, rotating over the ops
        if lean and buf != BUFS[0] and p["mode"] == "fault":
            continue        # quick tier: injected errors under the real io stack only (both temp-dir models); the other
                            # buffering models differ from it in what a KILL leaves behind, not in error handling
        if p["mode"] == "crash" and p.get("m") is None and kind in READ_ONLY and p["k"] + 1 < len(trace):
            continue        # between this point and the crash point before the next op only a read happens: same state
        if p["mode"] == "crash" and p.get("m") == 0:
            continue        # no byte written = the crash point before the op
        nb = trace[p["k"]][2] or 0
        if lean and not first_model and p.get("m") is not None and nb > 64 and p["m"] not in (1, nb // 2, nb - 1):
            continue        # quick tier: the full list of partial lengths under the first model only
        if buf != "wt":
            p["buf"] = buf
        if tmp != "same":
            p["tmp"] = tmp
        pts.append(p)
    return pts


def _enumerate_points(trace):
    pts = []
    for k, t in enumerate(trace):
        kind, label, nb = t[:3]
        pts.append({"mode": "crash", "k": k, "m": None})
        if kind in WRITE_OPS and nb is not None:
            if nb <= 64:
                ms = range(0, nb)
            else:
                ms = sorted({0, 1, 57, 69, nb // 2, nb - 2, nb - 1} & set(range(nb)))
            for m in ms:
                pts.append({"mode": "crash", "k": k, "m": m})
        for en in ERRNOS.get(kind, ("EIO",)):
            pts.append({"mode": "fault", "k": k, "errno": en})
    return pts


def point_nontrivial(trace, point):
    muts = [i for i, t in enumerate(trace) if t[0] in MUTATING]
    if not muts:
        return False
    first, last = muts[0], muts[-1]
    k = point["k"]
    if point["mode"] == "crash":
        if point.get("m") is not None:
            return True
        return first < k <= last
    return k <= last


class Prepared:
    """A scenario with its un-faulted reference run."""

    def __init__(self, scn, buf="wt", tmp="same"):
        self.scn = scn
        self.buf = buf
        self.tmp = tmp
        self._slot_ents = {}
        self.entries = build_scenario(scn)
        self.old_states = {}
        materialize(self.entries)
        for e in self.entries:
            self.old_states[e["rel"]] = load_state(e["path"], e["bytes"])
            if not e["spec"].get("corrupt") and self.old_states[e["rel"]][0] != "ok":
                raise common.HarnessError("generated intact history file does not load: %s" % (self.old_states[e["rel"]][1],))
        ref = run_point(scn, self.entries, None, buf, tmp)
        if not ref["done"]:
            raise common.HarnessError("un-faulted reference run did not finish (status %r)" % ref["status"])
        self.trace = ref["trace"]
        self.ref_exc = ref["exc"]
        self.ref_thread_exc = ref.get("thread_exc") or []
        self.new_snap = snapshot(self.entries)
        self.inter = published_versions(ref.get("pubs") or (), scn, self.old_states)
        ref_strays = stray_history_files(self.entries)
        self.new_states = {}
        for e in self.entries:
            raw = self.new_snap[e["rel"]]
            if raw is not None:
                self.new_states[e["rel"]] = load_state(e["path"], raw)
        for e in self.entries:        # self-check: every change on disk is explained by a wrapped op
            if self.new_snap[e["rel"]] != e["bytes"] and not any(
                    t[0] in MUTATING and e["rel"] in t[1].split(" -> ") for t in self.trace):
                raise common.HarnessError("%s changed during %s but no wrapped file-system op touched it: the "
                                          "operation uses an entry point the injector does not cover (trace %r)" % (
                                              e["rel"], scn["op"]["kind"], self.trace))
        self.clean_problems = model_check_clean(scn, self.entries, self.old_states, self.new_snap)
        for rel, raw in ref_strays:
            if load_state(rel, raw)[0] != "ok":
                self.clean_problems.append("un-faulted %s leaves a new unloadable history file %s" % (scn["op"]["kind"], rel))
        if self.ref_exc:
            self.clean_problems.append("un-faulted operation raised %s" % self.ref_exc)
        if self.ref_thread_exc:
            self.clean_problems.append("un-faulted operation's thread raised %s" % self.ref_thread_exc)

    def run(self, point, tolerate=True, stats=None):
        """-> (list of Failure, tolerated finding ids)"""
        return self.end(self.begin(point, 0), tolerate, stats)

    def _slot_entries(self, slot):
        if not slot:
            return self.entries
        if slot not in self._slot_ents:
            self._slot_ents[slot] = build_scenario(self.scn, _slot_data(slot))
        return self._slot_ents[slot]

    def begin(self, point, slot=0):
        """Start the child of one point in in-flight slot `slot`; -> handle for end() (None: nothing to run)."""
        k = point["k"]
        if not (0 <= k < len(self.trace)):
            return None
        if point.get("buf", "wt") != self.buf or point.get("tmp", "same") != self.tmp:
            raise common.HarnessError("point %r belongs to another model than %r / %r" % (point, self.buf, self.tmp))
        ents = self._slot_entries(slot)
        h = start_point(self.scn, ents, point, self.buf, self.tmp, _slot_data(slot) if slot else None, slot)
        h.update(point=point, slot=slot, ents=ents)
        return h

    def end(self, h, tolerate=True, stats=None):
        """Wait for the child of begin(), judge what it left.  -> (list of Failure, tolerated finding ids)"""
        if h is None:
            return [], []
        scn, point, ents, slot = self.scn, h["point"], h["ents"], h["slot"]
        data = _slot_data(slot) if slot else None
        k = point["k"]
        res = finish_point(h)
        if res["hit"] is None or res["hit"][1:] != self.trace[k][:2]:
            res = finish_point(start_point(scn, ents, point, self.buf, self.tmp, data, slot))
            if res["hit"] is None or res["hit"][1:] != self.trace[k][:2]:
                raise common.HarnessError("op numbering is not reproducible: point %r hit %r, reference op %r" % (
                    point, res["hit"], self.trace[k]))
        snap = snapshot(ents)
        if point["mode"] == "crash" and res["done"]:
            raise common.HarnessError("crash point %r: the child finished normally" % (point,))
        if os.WIFSIGNALED(res["status"]) and stats is not None:
            stats.inconclusive += 1
            stats.notes.append("child killed by signal %d at %r (%s)" % (os.WTERMSIG(res["status"]), point, scn["op"]["kind"]))
        bad = judge(scn, self.entries, self.old_states, self.new_snap, self.new_states, snap, self.inter)
        fails, tol = [], []
        by_rel = {e["rel"]: e for e in self.entries}
        strays = {}
        for rel, raw in stray_history_files(ents, data):
            st_ = load_state(rel, raw)
            if st_[0] != "ok":      # a staging file under a name xonsh enumerates as history, left half-written
                strays[rel] = raw
                bad.append(("stray", rel, "%s did not exist before; it is enumerated as a history file and is not loadable "
                            "(%d bytes; %s)" % (rel, len(raw), st_[1])))
        for kind, rel, detail in bad:
            if rel in strays:
                e, finding, state = None, None, None
                opk = self.trace[k]
                fails.append(Failure(kind, {"scenario": scn, "point": point}, "%s: point %r at op %d (%s %s); %s" % (
                    scn["op"]["kind"], point["mode"], k, opk[0], opk[1], detail),
                    bucket="stray:%s:%s" % (op_family(scn["op"]["kind"]), opk[0])))
                continue
            e = by_rel[rel]
            state = load_state(e["path"], snap[rel]) if snap[rel] is not None else None
            finding = None
            if is_f1(scn, e, self.trace, point):
                finding = "C13-F1"
            elif is_f2(scn, e, self.trace, point, self.old_states[rel], state):
                finding = "C13-F2"
            if finding and finding not in _open_findings():
                finding = None          # repaired in the tree: seeing its shape again is a violation like any other
            if finding and tolerate:
                tol.append(finding)
                continue
            opk = self.trace[k]
            where = ("crash before op %d (%s %s)" % (k, opk[0], opk[1]) if point["mode"] == "crash" and point.get("m") is None
                     else "crash after %d of %d bytes of op %d (%s %s)" % (point["m"], opk[2] or 0, k, opk[0], opk[1])
                     if point["mode"] == "crash" else "%s injected at op %d (%s %s)" % (point["errno"], k, opk[0], opk[1]))
            where += {"real": " [real buffering: %d-byte BufferedWriter, ops = raw writes]" % _state["bufsize"],
                      "huge": " [buffering model: nothing reaches the file before flush/close]",
                      "wt": " [buffering model: every completed write() is on disk]"}[self.buf]
            if self.tmp == "xdev":
                where += " [$TMPDIR on another file system than the history directory]"
            fails.append(Failure(kind, {"scenario": scn, "point": point},
                                 "%s: %s; %s" % (scn["op"]["kind"], where, detail), finding=finding,
                                 bucket="%s:%s:%s" % (finding or ("unloadable" if kind == "empty" else kind),
                                                      op_family(scn["op"]["kind"]), opk[0])))
        return fails, tol


def op_family(kind):
    return "flush" if kind in FLUSH_KINDS else "gc" if kind in GC_KINDS else kind


def scn_key(scn):
    return json.dumps(scn, sort_keys=True)


def _run_batched(P, pts, tolerate, stats):
    """Run the points of one reference trace, _slots() of them in flight at a time; yields (point, failures,
    tolerated) in enumeration order."""
    K = _slots()
    for i in range(0, len(pts), K):
        hs = []
        try:
            for j, pt in enumerate(pts[i:i + K]):
                hs.append(P.begin(pt, j))
            for n, (pt, h) in enumerate(zip(pts[i:i + K], hs)):
                hs[n] = None
                fs, tol = P.end(h, tolerate=tolerate, stats=stats)
                yield pt, fs, tol
        finally:
            for h in hs:
                if h is not None:
                    abandon_point(h)


def explore_scenario(scn, stats, tolerate=True, only=None, xdev_bufs=BUFS, lean=False):
    """Enumerate every point of one scenario under every temp-dir and buffering model (only=(mode, op kind at
    k, buf, tmp) restricts the enumeration; used while shrinking).  Returns the list of failures."""
    kind = scn["op"]["kind"]
    key0 = scn_key(scn)
    fails = []
    first = None
    traces = []
    models = ([(tmp, buf) for tmp in TMPS for buf in (BUFS if tmp == TMPS[0] else xdev_bufs)] if only is None
              else [((tuple(only) + ("same",))[3], only[2])])
    skip_tmp = set()
    for tmp, buf in models:
        if tmp in skip_tmp:
            continue
        if _tmpdir(tmp) is None:
            # no second file system on this machine: the dimension is reported as not covered
            skip_tmp.add(tmp)
            stats.hist["tmp-model-unavailable:" + tmp] += 1
            continue
        P = Prepared(scn, buf, tmp)
        if tmp != TMPS[0] and buf == BUFS[0] and only is None:
            if first is not None and P.trace == first.trace and P.new_snap == first.new_snap and P.ref_exc == first.ref_exc:
                # the operation never touches the process-wide temp directory (same calls, same outcomes, same result
                # as with $TMPDIR on the history file system): nothing depends on where it is
                skip_tmp.add(tmp)
                stats.hist["tmp-model-coincides:" + tmp] += 1
                stats.case((key0, "clean", buf, tmp), False, ["op:" + kind, "mode:none", "tmp:" + tmp])
                continue
            stats.hist["tmp-model-enumerated:" + tmp] += 1
        if first is None:
            first = P
            nmut = sum(1 for t in P.trace if t[0] in MUTATING)
            stats.hist["scenarios"] += 1
            stats.hist["scenario-op:" + kind] += 1
            stats.hist["scenario-files:%d" % len(scn["files"])] += 1
            stats.hist["scenario-ops:%s" % ("0" if not P.trace else "1-9" if len(P.trace) < 10 else "10-29" if len(P.trace) < 30 else "30+")] += 1
            if not nmut:
                stats.hist["scenario-without-rewrite"] += 1
            for lab, pred in (("stale-locked", lambda f: f["lock"] == "stale"), ("live-locked", lambda f: f["lock"] == "live"),
                              ("corrupt", lambda f: f.get("corrupt")), ("compat-dir", lambda f: f["where"] == "data"),
                              ("custom-file", lambda f: f["where"] == "custom"), ("bulk-file", lambda f: f.get("bulk"))):
                if any(pred(f) for f in scn["files"]):
                    stats.hist["scenario-with:" + lab] += 1
            for e in P.entries:
                if P.new_snap[e["rel"]] not in (None, e["bytes"]):
                    n = len(P.new_snap[e["rel"]])
                    stats.hist["rewritten-file:%s" % ("below-buffer" if n <= _state["bufsize"] else
                                                      "above-buffer" if n <= 8192 else "above-8KiB")] += 1
        elif P.new_snap != first.new_snap:
            stats.hist["clean-result-differs-by-buffering"] += 1
        # the un-faulted run is a point of its own
        stats.case((key0, "clean", buf, tmp), False, ["op:" + kind, "mode:none", "buf:" + buf, "tmp:" + tmp])
        if P.clean_problems:
            case = {"scenario": scn, "point": None, "buf": buf}
            if tmp != "same":
                case["tmp"] = tmp
            f = Failure("no-fault-run-damages", case, "; ".join(P.clean_problems[:3]) + (
                " [$TMPDIR on another file system than the history directory]" if tmp == "xdev" else ""),
                bucket="clean:" + op_family(kind))
            fails.append(f)
        if (P.trace, P.new_snap) in traces:
            # same sequence of ops (kinds, files, byte counts) as under a model already enumerated: the payloads of
            # this scenario make the two models coincide, every point would repeat the same execution
            stats.hist["buf-model-coincides:" + buf] += 1
            continue
        traces.append((P.trace, P.new_snap))
        stats.hist["buf-model-enumerated:" + buf] += 1
        pts = [pt for pt in enumerate_points(P.trace, buf, tmp, lean)
               if only is None or (pt["mode"], P.trace[pt["k"]][0]) == tuple(only[:2])]
        for point, fs, tol in _run_batched(P, pts, tolerate, stats):
            nt = point_nontrivial(P.trace, point)
            mode = ("partial" if point.get("m") is not None else "crash") if point["mode"] == "crash" else "fault:" + point["errno"]
            labels = ["op:" + kind, "mode:" + mode, "at:" + P.trace[point["k"]][0], "buf:" + buf, "tmp:" + tmp]
            if len(P.trace[point["k"]]) > 3:
                labels.append("at-naturally-failing:%s:%s" % (P.trace[point["k"]][0], P.trace[point["k"]][3]))
            if point["mode"] == "crash" and point.get("m") is None and point["k"] > 0:
                labels.append("crash-after:%s/%s" % (P.trace[point["k"] - 1][0], buf))
            for t in tol:
                stats.excluded_known[t] += 1
                labels.append("tolerated:" + t)
            stats.case((key0, buf, tmp, point["mode"], point["k"], point.get("m"), point.get("errno")), nt, labels,
                       sample={"scenario": scn, "point": point, "op_at_k": P.trace[point["k"]]} if nt else None,
                       max_per_label=1)
            fails.extend(fs)
    return fails


# ----------------------------------------------------------------------------------------
# generation


OP_WEIGHTS = (("flush", 2), ("flush_exit", 1), ("flush_hook", 1), ("autoflush", 1), ("delete", 2), ("erasedups", 2),
              ("gc_files", 1), ("run_gc", 2), ("gc_startup", 2))


def scenario_strategy(kind=None):
    from hypothesis import strategies as st

    cmd = st.tuples(st.sampled_from(INPS), st.sampled_from([0, 0, 0, 1, 127]))

    kind0 = kind

    @st.composite
    def scenarios(draw):
        kind = kind0 or draw(st.sampled_from(OP_KINDS + ("flush", "delete", "erasedups", "run_gc", "gc_startup")))
        nfiles = draw(st.integers(1, 4))
        own = draw(st.integers(0, nfiles - 1))
        corrupt_at = draw(st.integers(0, nfiles - 1)) if draw(st.sampled_from([False, False, False, True])) else None
        # operations that only rewrite under a precondition get it most of the time
        stale_at = draw(st.integers(0, nfiles - 1)) if kind in GC_KINDS and draw(st.sampled_from([True, True, True, False])) else None
        cmd_here = cmd
        if kind == "erasedups" and draw(st.booleans()):
            cmd_here = st.tuples(st.sampled_from(INPS[:3]), st.sampled_from([0, 1]))
        files = []
        for i in range(nfiles):
            ncmd = draw(st.sampled_from([0, 1, 2, 3, 3, 4, 5, 8]))
            cmds = [list(draw(cmd_here)) for _ in range(ncmd)]
            if i == own:
                lock = draw(st.sampled_from(["live", "live", "live", "stale", "no"]))
                where = draw(st.sampled_from(["hist", "hist", "hist", "custom", "data"]))
                closed = False
            else:
                lock = draw(st.sampled_from(["no", "no", "stale", "stale", "live"] if kind in GC_KINDS
                                            else ["no", "no", "no", "stale", "live"]))
                where = draw(st.sampled_from(["hist", "hist", "hist", "data"]))
                closed = draw(st.booleans()) if lock != "live" else False
            if stale_at == i:
                lock, closed = "stale", (closed if i != own else False)
            fs = {"sid": "s%d" % i, "cmds": cmds, "lock": lock, "closed": closed, "where": where,
                  "env": draw(st.booleans()), "old": draw(st.booleans())}
            bulk = draw(st.sampled_from([0, 0, 0, 0, 0, 40, 120, 200]))     # 40: ~4-8 KiB, 120 / 200: above 8 KiB
            if bulk:
                fs["bulk"] = bulk
            if corrupt_at == i:
                fs["corrupt"] = draw(st.sampled_from(CORRUPT))
            files.append(fs)
        op = {"kind": kind}
        if kind in FLUSH_KINDS:
            op["cmds"] = [list(draw(cmd)) for _ in range(draw(st.integers(1, 5)))]
            op["histcontrol"] = sorted(draw(st.sampled_from([(), (), (), ("ignoredups",), ("ignoreerr",),
                                                              ("ignoredups", "ignoreerr")])))
            op["store_stdout"] = draw(st.booleans())
            op["out"] = draw(st.booleans())
        elif kind == "delete":
            op["pattern"] = draw(st.sampled_from(PATTERNS))
            op["cmds"] = [list(draw(cmd)) for _ in range(draw(st.sampled_from([0, 0, 2])))]
        elif kind == "erasedups":
            op["cmds"] = []
        elif kind == "gc_files":
            op["only_unlocked"] = draw(st.booleans())
        else:
            unit = draw(st.sampled_from(["commands", "commands", "files", "b", "s"]))
            total = sum(len(f["cmds"]) for f in files)
            n = draw(st.sampled_from({"commands": [10 ** 6, 10 ** 6, total, max(total - 1, 0), total // 2, 1, 0],
                                      "files": [100, nfiles, max(nfiles - 1, 0), 1, 0],
                                      "b": [10 ** 9, 2000, 600, 0],
                                      "s": [10 ** 9, 1500, 0]}[unit]))
            op["size"] = [n, unit]
            if kind == "run_gc":
                op["force"] = draw(st.booleans())
        return {"files": files, "own": own, "op": op}

    return scenarios()


def generate_scenarios(seed, n):
    """n distinct scenarios drawn by Hypothesis under the pinned seed (generation only; the enumeration
    of each scenario's points is deterministic and runs in the workers)."""
    box, seen = [], set()

    def body(scn):
        k = scn_key(scn)
        if k not in seen:
            seen.add(k)
            box.append(scn)

    total = sum(w for _, w in OP_WEIGHTS)
    per_kind = []
    for ki, (kind, w) in enumerate(OP_WEIGHTS):      # every operation kind gets its share in every run
        start = len(box)
        common.run_given(scenario_strategy(kind), body, seed * 131 + ki, max(1, (n * w) // total))
        per_kind.append(box[start:])
    # interleave so that every worker shard sees every kind
    out = []
    for j in range(max(len(x) for x in per_kind)):
        out.extend(x[j] for x in per_kind if j < len(x))
    return out


def _shrink_candidates(scn):
    files = scn["files"]
    for i in range(len(files)):
        if i != scn["own"] and len(files) > 1:
            c = json.loads(json.dumps(scn))
            del c["files"][i]
            if scn["own"] > i:
                c["own"] -= 1
            yield c
    for i, f in enumerate(files):
        for cmds in ([], f["cmds"][:1], f["cmds"][: len(f["cmds"]) // 2], f["cmds"][1:]):
            if cmds != f["cmds"]:
                c = json.loads(json.dumps(scn))
                c["files"][i]["cmds"] = cmds
                yield c
        for key, val in (("env", False), ("old", False), ("closed", False), ("where", "hist"), ("corrupt", None),
                         ("bulk", None)):
            if f.get(key) not in (val, None):
                c = json.loads(json.dumps(scn))
                if val is None:
                    c["files"][i].pop(key, None)
                else:
                    c["files"][i][key] = val
                yield c
    op = scn["op"]
    for key, val in (("cmds", (op.get("cmds") or [])[:1]), ("histcontrol", []), ("store_stdout", False), ("out", False),
                     ("force", False)):
        if key in op and op[key] != val and not (key == "cmds" and op["kind"] in FLUSH_KINDS and not val):
            c = json.loads(json.dumps(scn))
            c["op"][key] = val
            yield c


def shrink_scenario(scn, bucket, only, seconds=15.0):
    """Greedy deterministic minimisation: the smaller scenario must still fail in the same bucket
    (only the points of the failing class - same mode, same kind of op - are re-enumerated)."""
    deadline = _real_time.time() + seconds
    best = None
    progress = True
    while progress and _real_time.time() < deadline:
        progress = False
        for cand in _shrink_candidates(scn):
            if _real_time.time() > deadline:
                break
            try:
                hits = [g for g in explore_scenario(cand, Stats(), only=only) if g.bucket == bucket]
            except common.HarnessError:
                continue
            if hits:
                scn, best, progress = cand, hits[0], True
                break
    return best


def worker_json(arg):
    scns, scratch, opts = arg
    _setup(scratch)
    try:
        return _worker_json(scns, opts)
    finally:
        _drop_tmpdirs()


def _worker_json(scns, opts):
    stt = Stats()
    found = {}
    t0 = _real_time.time()
    for scn in scns:
        for f in explore_scenario(scn, stt, xdev_bufs=tuple(opts.get("xdev_bufs") or BUFS), lean=bool(opts.get("lean"))):
            found.setdefault(f.bucket, f)
    stt.hist["worker-seconds:json"] += int(_real_time.time() - t0)
    stt.failures = list(found.values())         # minimised afterwards, one task per distinct bucket (main)
    return stt


def worker_shrink(arg):
    """Minimise one failure (first of its bucket); -> Failure json."""
    fj, seconds, scratch = arg
    _setup(scratch)
    try:
        f = Failure.from_json(fj)
        pt = f.case["point"]
        g = shrink_scenario(f.case["scenario"], f.bucket, (pt["mode"], f.bucket.rsplit(":", 1)[1], pt.get("buf", "wt"),
                                                           pt.get("tmp", "same")), seconds=seconds)
        return (g or f).to_json()
    finally:
        _drop_tmpdirs()


def check_case(case, tolerate=False):
    """Replay of one saved case ({'scenario':..., 'point':... | None}) -> Failure | None."""
    if case.get("sqlite") or case.get("strace"):
        return check_strace_case(case)
    scn = case["scenario"]
    pt = case.get("point") or case
    if _tmpdir(pt.get("tmp", "same")) is None:
        print("replay: temp-dir model %r is not available on this machine (no second file system)" % pt.get("tmp"))
        return None
    P = Prepared(scn, pt.get("buf", "wt"), pt.get("tmp", "same"))       # replays from before the models: wt / same
    if case.get("point") is None:
        if P.clean_problems:
            return Failure("no-fault-run-damages", case, "; ".join(P.clean_problems[:3]))
        return None
    fs, _ = P.run(case["point"], tolerate=tolerate)
    return fs[0] if fs else None


# ----------------------------------------------------------------------------------------
# syscall-level pass (strace): SQLite, and the JSON backend again

STRACE_CALLS = ("write,pwrite64,pwritev,pwritev2,writev,sendfile,copy_file_range,fsync,fdatasync,ftruncate,truncate,unlink,"
                "unlinkat,rename,renameat,renameat2")
SQL_COLS = "inp, rtn, tsb, tse, sessionid"


def sqlite_build(path, case):
    """Create the pre-existing database with sqlite3 directly (schema copied from the backend's own)."""
    if os.path.exists(path):
        os.remove(path)
    con = sqlite3.connect(path)
    legacy = bool(case.get("legacy"))
    if not legacy:
        con.execute("PRAGMA journal_mode=WAL")
        con.execute("CREATE TABLE xonsh_history (inp TEXT, rtn INTEGER, tsb REAL, tse REAL, sessionid TEXT, "
                    "out TEXT, info TEXT, frequency INTEGER default 1, cwd TEXT)")
        con.execute("CREATE INDEX idx_inp_history ON xonsh_history(inp)")
    else:
        con.execute("PRAGMA journal_mode=DELETE")
        con.execute("CREATE TABLE xonsh_history (inp TEXT, rtn INTEGER, tsb REAL, tse REAL, sessionid TEXT, "
                    "out TEXT, info TEXT)")
    for j, (inp, rtn, sid) in enumerate(case["rows"]):
        con.execute("INSERT INTO xonsh_history (%s) VALUES (?,?,?,?,?)" % SQL_COLS,
                    (inp, rtn, BOOT - 50_000.0 + 7.0 * j, BOOT - 49_999.0 + 7.0 * j, sid))
    con.commit()
    if not legacy:
        con.execute("PRAGMA wal_checkpoint(TRUNCATE)")
    con.close()
    for suf in ("-wal", "-shm", "-journal"):
        if os.path.exists(path + suf):
            os.remove(path + suf)


def sqlite_rows(path):
    """-> (integrity, rows) ; raises sqlite3.Error when the database cannot be opened/read."""
    con = sqlite3.connect(path)
    try:
        integ = [r[0] for r in con.execute("PRAGMA integrity_check").fetchall()]
        cols = [r[1] for r in con.execute("PRAGMA table_info(xonsh_history)").fetchall()]
        sel = SQL_COLS + (", frequency" if "frequency" in cols else ", 1")
        rows = [tuple(r) for r in con.execute("SELECT %s FROM xonsh_history ORDER BY rowid" % sel).fetchall()]
    finally:
        con.close()
    return integ, rows


def _driver_env(ddir):
    e = dict(os.environ)
    e["PYTHONDONTWRITEBYTECODE"] = "1"
    e["VERIF_REPO"] = common.REPO
    e["XONSH_DATA_DIR"] = ddir
    return e


def _strace_cmd(specfile, inject=None, tracefile=None):
    """inject = (syscall, K): strace keeps one invocation counter per syscall and per tracee, so a kill
    point is named by the syscall and its K-th invocation."""
    if inject is None:
        cmd = ["strace", "-f", "-qq", "-e", "trace=" + STRACE_CALLS + ",getppid"]
    else:
        cmd = ["strace", "-f", "-qq", "-e", "trace=" + inject[0],
               "-e", "inject=%s:signal=KILL:when=%d" % (inject[0], inject[1])]
    cmd += ["-o", tracefile or os.devnull, sys.executable, os.path.abspath(__file__), "--driver", specfile]
    return cmd


def _strace_tmpdir(case):
    """$TMPDIR of the driver process for this case (None: leave the environment alone)."""
    if case.get("tmp") != "xdev":
        return None
    d = _tmpdir("xdev")
    if d is None:
        raise common.HarnessError("strace case wants $TMPDIR on another file system, none available")
    return os.path.join(d, "strace")


def _prepare_strace_dir(case, ddir):
    shutil.rmtree(ddir, ignore_errors=True)
    os.makedirs(ddir)
    if case.get("sqlite"):
        sqlite_build(os.path.join(ddir, "xonsh-history.sqlite"), case)
        return None
    # JSON: reuse the scenario machinery with this directory as data dir
    if case.get("tmp") == "xdev":
        _wipe(_strace_tmpdir(case))
    _state["data"] = os.path.join(ddir, "data")
    entries = build_scenario(case["scenario"])
    materialize(entries)
    return entries


def _run_driver(case, ddir, record):
    """The driver without strace, recording the versions it puts in place (see strace_reference)."""
    spec = os.path.join(ddir, "spec.json")
    with open(spec, "w") as f:
        json.dump({"case": case, "dir": ddir, "tmpdir": _strace_tmpdir(case), "record": record}, f)
    return subprocess.run([sys.executable, os.path.abspath(__file__), "--driver", spec], env=_driver_env(ddir),
                          stdin=subprocess.DEVNULL, stdout=subprocess.DEVNULL, stderr=subprocess.PIPE, timeout=120)


def _run_strace(case, ddir, inject=None, tracefile=None):
    spec = os.path.join(ddir, "spec.json")
    with open(spec, "w") as f:
        json.dump({"case": case, "dir": ddir, "tmpdir": _strace_tmpdir(case)}, f)
    p = subprocess.run(_strace_cmd(spec, inject, tracefile), env=_driver_env(ddir), stdin=subprocess.DEVNULL,
                       stdout=subprocess.DEVNULL, stderr=subprocess.PIPE, timeout=120)
    return p


def _trace_points(tracefile):
    """-> sorted list of kill points (syscall, K) that fall after the operation started.  The driver
    marks the start of the operation with a getppid() call; counters are per process and per syscall,
    like strace's own."""
    started = False
    pat = re.compile(r"^(\d+)\s+(\w+)\(")
    inj = set(STRACE_CALLS.split(","))
    counts = {}
    pts = set()
    ncalls = 0
    seq = []
    with open(tracefile, errors="replace") as f:
        for line in f:
            m = pat.match(line)
            if not m:
                continue
            pid, name = m.group(1), m.group(2)
            if name == "getppid":
                started = True
                continue
            if name in inj:
                c = counts[(pid, name)] = counts.get((pid, name), 0) + 1
                if started:
                    pts.add((name, c))
                    ncalls += 1
                    seq.append(name + (":" + line.rsplit("=", 1)[1].split()[1] if " = -1 " in line else ""))
    if not started:
        raise common.HarnessError("strace trace has no operation marker")
    return sorted(pts), ncalls, seq


def strace_reference(case, ddir):
    """Un-faulted traced run -> dict(total, before, old, new[, entries...])."""
    entries = _prepare_strace_dir(case, ddir)
    ref = {}
    if case.get("sqlite"):
        db = os.path.join(ddir, "xonsh-history.sqlite")
        integ, old = sqlite_rows(db)
        if integ != ["ok"] or len(old) != len(case["rows"]):
            raise common.HarnessError("generated SQLite database is not sound: %r" % (integ,))
        sqlite_build(db, case)
        ref["old"] = old
    if not case.get("sqlite"):
        # which complete versions does the un-faulted driver put in place, step by step (the operation, then whatever
        # the exiting session does: the at-exit flush)?  Recorded in a run of its own - not traced, so that the
        # recording does not shift strace's syscall counters - by a wrapper around os.replace / os.rename only.
        pubfile = os.path.join(os.path.dirname(ddir), os.path.basename(ddir) + ".pub")
        if os.path.exists(pubfile):
            os.remove(pubfile)
        p = _run_driver(case, ddir, record=pubfile)
        if p.returncode != 0:
            raise common.HarnessError("recording run of the driver failed (%d): %s" % (p.returncode, p.stderr.decode()[-400:]))
        pubs = []
        if os.path.exists(pubfile):
            with open(pubfile) as f:
                for line in f:
                    rel, hx = json.loads(line)
                    pubs.append((rel, bytes.fromhex(hx)))
            os.remove(pubfile)
        ref["inter"] = published_versions(pubs, case["scenario"], {e["rel"]: load_state(e["path"], e["bytes"]) for e in entries})
        ref["record_snap"] = snapshot(entries)
        entries = _prepare_strace_dir(case, ddir)
    tf = os.path.join(os.path.dirname(ddir), os.path.basename(ddir) + ".trace")
    p = _run_strace(case, ddir, None, tf)
    if p.returncode != 0:
        raise common.HarnessError("strace reference run failed (%d): %s" % (p.returncode, p.stderr.decode()[-400:]))
    ref["points"], ref["ncalls"], ref["seq"] = _trace_points(tf)
    os.remove(tf)
    if case.get("sqlite"):
        integ, new = sqlite_rows(os.path.join(ddir, "xonsh-history.sqlite"))
        if integ != ["ok"]:
            raise common.HarnessError("un-faulted SQLite run leaves integrity_check = %r" % (integ,))
        ref["new"] = new
    else:
        ref["entries"] = entries
        ref["new_snap"] = snapshot(entries)
        if ref["new_snap"] != ref["record_snap"]:
            raise common.HarnessError("the recording run and the traced run of the driver end in different files")
        ref["old_states"] = {e["rel"]: load_state(e["path"], e["bytes"]) for e in entries}
        ref["new_states"] = {e["rel"]: load_state(e["path"], ref["new_snap"][e["rel"]]) for e in entries
                             if ref["new_snap"][e["rel"]] is not None}
    return ref


def strace_point(case, ddir, ref, K):
    """Kill the driver at the K[1]-th invocation of syscall K[0]; judge.  -> Failure | None"""
    K = tuple(K)
    _prepare_strace_dir(case, ddir)
    p = _run_strace(case, ddir, K, None)
    if p.returncode not in (0, -9, 137):
        raise common.HarnessError("strace run %r failed (%d): %s" % (K, p.returncode, p.stderr.decode()[-300:]))
    full = dict(case, K=list(K))
    K = "%s#%d" % K
    if case.get("sqlite"):
        db = os.path.join(ddir, "xonsh-history.sqlite")
        op = case["op"]
        try:
            integ, rows = sqlite_rows(db)
        except sqlite3.Error as e:
            return Failure("sqlite-unreadable", full, "kill at %s of sqlite %s: database does not open: %s" % (
                K, op["kind"], e), bucket="sqlite-unreadable")
        if integ != ["ok"]:
            return Failure("sqlite-integrity", full, "kill at %s of sqlite %s: integrity_check = %r" % (
                K, op["kind"], integ[:3]), bucket="sqlite-integrity")
        old, new = ref["old"], ref["new"]
        norm = lambda rs: [r[:5] for r in rs]            # noqa: E731  (frequency column may not exist yet)
        ok = rows == old or rows == new or (case.get("legacy") and norm(rows) in (norm(old), norm(new)))
        if not ok and op["kind"] == "append":
            ok = any(norm(rows) == norm(new[:len(old) + j]) for j in range(len(new) - len(old) + 1))
        if not ok:
            lost = [r for r in norm(old) if r not in norm(rows)] if op["kind"] == "append" else []
            return Failure("sqlite-third-state", full, "kill at %s of sqlite %s: %d rows, neither the old %d nor the new %d%s" % (
                K, op["kind"], len(rows), len(old), len(new), " (lost %r)" % lost[:3] if lost else ""),
                bucket="sqlite-third-state")
        return None
    entries = ref["entries"]
    snap = snapshot(entries)
    bad = judge(case["scenario"], entries, ref["old_states"], ref["new_snap"], ref["new_states"], snap, ref.get("inter"))
    by_rel = {e["rel"]: e for e in entries}
    for kind, rel, detail in bad:
        e = by_rel[rel]
        finding = None
        if (case["scenario"]["op"]["kind"] in GC_KINDS and e["spec"]["lock"] == "stale" and not e["spec"].get("corrupt")
                and kind in ("empty", "unloadable")):
            finding = "C13-F1"      # same defect seen at syscall level (the window is the in-place rewrite)
        if finding and finding not in _open_findings():
            finding = None
        return Failure("strace-" + kind, dict(full, strace=True), "kill at %s of %s: %s" % (
            K, case["scenario"]["op"]["kind"], detail + (
                " [$TMPDIR on another file system than the history directory]" if case.get("tmp") == "xdev" else "")),
            finding=finding,
            bucket="strace:%s:%s" % (finding or kind, case["scenario"]["op"]["kind"]))
    return None


def check_strace_case(case):
    if not _state:
        raise common.HarnessError("_setup() must run first")
    ddir = os.path.join(_state["base"], "strace-replay")
    data0 = _state["data"]
    if case.get("tmp") == "xdev" and _tmpdir("xdev") is None:
        print("replay: no second file system on this machine, the case cannot be replayed")
        return None
    try:
        ref = strace_reference(case, ddir)
        Ks = [case["K"]] if case.get("K") else ref["points"]
        for K in Ks:
            f = strace_point(case, ddir, ref, K)
            if f is not None:
                return f
        return None
    finally:
        _state["data"] = data0
        shutil.rmtree(ddir, ignore_errors=True)


def strace_cases(seed, n_sql, n_json):
    """A fixed, seed-determined family (laid out with random.Random, not inside a property)."""
    import random

    rnd = random.Random(seed)
    out = []
    kinds = ["delete", "erasedups", "append", "delete", "erasedups", "gc", "append"]
    for i in range(n_sql):
        nrows = [6, 12, 3, 40, 9, 1][i % 6] if i % 5 else rnd.randint(1, 60)
        pool = INPS[: rnd.choice([3, 5, len(INPS)])]
        rows = [[rnd.choice(pool), rnd.choice([0, 0, 1]), "s%d" % rnd.randint(0, 2)] for _ in range(nrows)]
        kind = kinds[i % len(kinds)]
        op = {"kind": kind}
        if kind == "append":
            op["cmds"] = [[rnd.choice(INPS), rnd.choice([0, 1])] for _ in range(rnd.randint(1, 3))]
        elif kind == "delete":
            op["pattern"] = rnd.choice([".*", "(ls|cd)", "l", "echo.*", "ls", rnd.choice(PATTERNS)])
        elif kind == "gc":
            op["size"] = [rnd.choice([0, 1, max(nrows // 2, 1), nrows, nrows + 5]), "commands"]
        out.append({"sqlite": True, "rows": rows, "legacy": i % 3 == 2, "op": op})
    if n_json:
        for scn in generate_scenarios(seed + 7, n_json)[:n_json]:
            out.append({"strace": True, "scenario": scn})
    return out


def worker_strace(arg):
    seed, cases, max_points, scratch = arg
    _setup(scratch)
    stt = Stats()
    ddir = os.path.join(_state["base"], "strace")
    data0 = _state["data"]
    t0 = _real_time.time()
    try:
        for case0 in cases:
            variants = [case0]
            if case0.get("strace") and not case0.get("tmp"):
                # JSON: once more with $TMPDIR on another file system; enumerated when the syscalls or the result differ
                if _tmpdir("xdev") is not None:
                    variants.append(dict(case0, tmp="xdev"))
                else:
                    stt.hist["strace-json-tmp-model-unavailable:xdev"] += 1
            ref0 = None
            for case in variants:
                ref = strace_reference(case, ddir)
                if case is not case0:
                    if ref["seq"] == ref0["seq"] and ref["new_snap"] == ref0["new_snap"]:
                        stt.hist["strace-json-tmp-model-coincides:xdev"] += 1
                        continue
                    stt.hist["strace-json-tmp-model-enumerated:xdev"] += 1
                ref0 = ref0 or ref
                _strace_enumerate(stt, seed, case, ddir, ref, max_points)
    finally:
        _state["data"] = data0
        shutil.rmtree(ddir, ignore_errors=True)
        _drop_tmpdirs()
    stt.hist["worker-seconds:strace"] += int(_real_time.time() - t0)
    return stt


def _strace_enumerate(stt, seed, case, ddir, ref, max_points):
    opk = case["op"]["kind"] if case.get("sqlite") else case["scenario"]["op"]["kind"]
    fam = "strace-sqlite" if case.get("sqlite") else "strace-json"
    stt.hist[fam + "-scenarios"] += 1
    stt.hist["%s-op:%s" % (fam, opk)] += 1
    if case.get("sqlite"):
        stt.hist["strace-sqlite-%s" % ("legacy" if case.get("legacy") else "wal")] += 1
        if ref["new"] == ref["old"]:
            stt.hist["strace-sqlite-noop"] += 1
    Ks = list(ref["points"])
    stt.hist[fam + "-kill-points"] += len(Ks)
    if max_points and len(Ks) > max_points:
        step = len(Ks) / float(max_points)
        Ks = [Ks[int(i * step + (seed + len(Ks)) % step)] for i in range(max_points)]
        stt.hist[fam + "-sampled"] += 1
    key0 = json.dumps(case, sort_keys=True)
    for K in Ks:
        f = strace_point(case, ddir, ref, K)
        nt = True               # only kill points after the operation started are enumerated
        labels = [fam, "op:%s-%s" % (fam, opk), "strace-at:" + K[0]]
        if case.get("tmp"):
            labels.append("strace-tmp:" + case["tmp"])
        if f is not None and f.finding:
            stt.excluded_known[f.finding] += 1
            labels.append("tolerated:" + f.finding)
            f = None
        stt.case((key0, "strace", K), nt, labels, sample=dict(case, K=list(K), of=len(ref["points"])),
                 max_per_label=1)
        if f is not None:
            stt.fail(f)
            break


# ----------------------------------------------------------------------------------------
# driver process (runs under strace)


def _install_recorder(root, pubfile):
    """Driver, recording run: after every completed os.replace / os.rename onto a file below the data directory,
    append [rel, content] to pubfile.  Nothing else is touched; stays active until the process is gone (the
    at-exit flush of the session is part of what the driver does)."""
    root = os.path.realpath(root)
    o_open = open

    def wrap(orig):
        def w(src, dst, *a, **kw):
            r = orig(src, dst, *a, **kw)
            try:
                p = os.path.realpath(os.fsdecode(os.fspath(dst)))
                if p.startswith(root + os.sep) and os.path.isfile(p):
                    with o_open(p, "rb") as f:
                        raw = f.read()
                    with o_open(pubfile, "a") as f:
                        f.write(json.dumps([os.path.relpath(p, root), raw.hex()]) + "\n")
            except (OSError, TypeError, ValueError):
                pass
            return r
        return w

    os.replace = wrap(os.replace)
    os.rename = wrap(os.rename)


def driver_main(specfile):
    with open(specfile) as f:
        spec = json.load(f)
    case, ddir = spec["case"], spec["dir"]
    common.pin_environment(ddir)
    os.dup2(os.open(os.devnull, os.O_WRONLY), 2)
    if case.get("sqlite"):
        from xonsh.built_ins import XSH
        from xonsh.environ import Env

        XSH.env = Env({"XONSH_DATA_DIR": ddir, "XONSH_HISTORY_SIZE": (10 ** 9, "commands"), "HISTCONTROL": set(),
                       "XONSH_STORE_STDOUT": False, "UPDATE_OS_ENVIRON": False})
        import xonsh.history.sqlite as xhs

        op = case["op"]
        hist = xhs.SqliteHistory(gc=False, filename=os.path.join(ddir, "xonsh-history.sqlite"), sessionid="drv")
        os.getppid()                                   # marker: the operation starts here
        if op["kind"] == "append":
            for j, (inp, rtn) in enumerate(op["cmds"]):
                hist.append({"inp": inp + "\n", "rtn": rtn, "ts": [NOW + j, NOW + j + 0.5], "cwd": "/home/u"})
        elif op["kind"] == "delete":
            hist.delete(op["pattern"])
        elif op["kind"] == "erasedups":
            hist.erasedups()
        elif op["kind"] == "gc":
            hist.run_gc(size=tuple(op["size"]), blocking=True)
            if hist.gc is not None:
                hist.gc.join()
        else:
            raise SystemExit("bad sqlite op")
        return 0
    _setup(ddir)
    _state["data"] = os.path.join(ddir, "data")
    _state["XSH"].env["XONSH_DATA_DIR"] = _state["data"]
    scn = case["scenario"]
    entries = build_scenario(scn)
    hist = _make_history(scn, entries)
    _use_tmpdir(spec.get("tmpdir"))
    if spec.get("record"):
        _install_recorder(_state["data"], spec["record"])
    os.getppid()
    try:
        _perform(scn, hist)
    except common.HarnessError:
        raise
    except Exception:  # noqa: BLE001
        pass
    return 0


# ----------------------------------------------------------------------------------------


def _replay_case(case):
    return check_case(case, tolerate=False)


def have_strace():
    try:
        p = subprocess.run(["strace", "-qq", "-e", "trace=getppid", "-o", os.devnull, "true"],
                           stdout=subprocess.DEVNULL, stderr=subprocess.DEVNULL, timeout=20)
        return p.returncode == 0
    except (OSError, subprocess.SubprocessError):
        return False


def _dev_stride():
    """VERIF_C13_STRIDE=k (development only): 1/k of the scenarios, to smoke-test the thorough tier."""
    try:
        return max(1, int(os.environ.get("VERIF_C13_STRIDE") or 1))
    except ValueError:
        return 1


def _shrink_stage(run, procs):
    """Minimise the failure that will be reported for each bucket (at most 6, in parallel, 3 seconds each)."""
    fl = run.stats.failures
    firsts = {}
    for i, f in enumerate(fl):
        if f.bucket not in firsts and not (f.finding and f.finding in run.known_open):
            firsts[f.bucket] = i
    todo = [i for i in firsts.values() if isinstance(fl[i].case, dict) and fl[i].case.get("point") is not None
            and not fl[i].case.get("strace")][:6]
    if not todo:
        return
    res = common.pool_map(run, __name__, "worker_shrink", [(fl[i].to_json(), 3.0, run.scratch) for i in todo], procs=procs)
    for i, fj in zip(todo, res):
        fl[i] = Failure.from_json(fj)


def main(run):
    _setup(run.scratch)
    try:
        common.replay_tier(run, _replay_case)
        xdev = _tmpdir("xdev")
        run.extra["tmpdir_models"] = {
            "same": "tempfile.tempdir / $TMPDIR on the file system of the history directory",
            "xdev": ("on another file system: %s (st_dev %d, history directory st_dev %d)" % (
                os.path.dirname(xdev), os.stat(xdev).st_dev, os.stat(_state["data"]).st_dev)) if xdev else "NOT COVERED"}
        if xdev is None:
            run.stats.notes.append("temp-dir model 'xdev' NOT covered: none of %s is a writable directory on another file "
                                   "system than %s" % (", ".join(XDEV_CANDIDATES), _state["data"]))
    finally:
        _drop_tmpdirs()
    procs = max(1, min(16, int(os.environ.get("VERIF_PROCS") or 16)))
    nw = 16
    stride = _dev_stride()
    if stride > 1:
        run.stats.notes.append("development run: VERIF_C13_STRIDE=%d" % stride)
    t0 = _real_time.time()
    scns = generate_scenarios(run.seed, run.n(128, 5000) // stride)
    t1 = _real_time.time()
    # a scenario whose operation uses the process-wide temp directory is enumerated again with $TMPDIR on another
    # file system: under the real buffering model in quick, under all three in thorough
    opts = {"xdev_bufs": list(run.n(BUFS[:1], BUFS)), "lean": run.tier != "thorough"}
    nwj = 32                                    # small tasks: the pool stays busy to the end
    common.pool_map(run, __name__, "worker_json", [(scns[i::nwj], run.scratch, opts) for i in range(nwj) if scns[i::nwj]], procs=procs)
    _shrink_stage(run, procs)
    run.extra["exhaustive_subspace"] = ("per explored scenario and buffering model (real / huge / write-through): every crash "
                                        "point before each file-system op (raw-level writes in the real and huge models), "
                                        "every listed partial-write length, every single injected OSError")
    run.extra["default_write_buffer_bytes"] = _state["bufsize"]
    t2 = _real_time.time()
    if have_strace():
        n_sql, n_json, maxp = run.n(16, 400 // stride), run.n(9, 200 // stride), run.n(18, 0)
        cases = strace_cases(run.seed, n_sql, n_json)
        chunks = [cases[i::nw] for i in range(nw)]
        common.pool_map(run, __name__, "worker_strace",
                        [(common.worker_seed(run.seed, 200 + i), ch, maxp, run.scratch) for i, ch in enumerate(chunks) if ch],
                        procs=procs)
        run.extra["strace_pass"] = ("every write-class syscall" if not maxp else
                                    "a sample of %d kill points per case (every one in the thorough tier)" % maxp)
    else:
        run.stats.notes.append("strace is not usable here: the syscall-level pass (SQLite) was NOT run")
        run.extra["strace_pass"] = "not run (strace unavailable)"
    run.extra["wall_split_s"] = {"generation": round(t1 - t0, 1), "json_enumeration": round(t2 - t1, 1),
                                 "strace_pass": round(_real_time.time() - t2, 1), "procs": procs}
    run.assumptions += [
        "a crash is modelled as process death (kill -9 / os._exit): data handed to the kernel survives, user-space "
        "buffers are lost; power-loss reordering below rename (fsync analysis) is not modelled",
        "three buffering models per scenario: the interpreter's real io stack (measured default buffer size; only what "
        "a raw write(2) handed to the kernel survives a kill), a 4 MiB buffer, and write-through (every completed "
        "write() is on disk); a partial raw write leaves any listed prefix; together a superset of the on-disk "
        "states a kill can produce for any st_blksize",
        "a buffering model whose un-faulted op trace equals one already enumerated for the scenario is not enumerated "
        "again; in the second and third model, points at read-only ops are skipped (a read neither changes the disk "
        "nor depends on write buffering) and each op is failed with one errno instead of every listed one",
        "the process-wide temp directory is placed by the harness: on the history file system, and on another one "
        "(tmpfs) to exercise EXDEV from rename/replace and copy fall-backs; an operation whose un-faulted run is "
        "identical in both (same ops, same outcomes, same files) does not use it and is enumerated once",
        "quick tier only: outside the first model 3 of the 6 partial lengths, injected errors only under the real io "
        "stack, one rotating errno per failing open-for-reading; a crash point before a read-only op is represented by "
        "the crash point before the following op (same on-disk state)",
        "one fault per run; the failing call raises OSError and, for write() / sendfile(), leaves half of its bytes behind",
        "a member that was already corrupt before the operation is only required to stay as it was or become the "
        "version the un-faulted run writes",
        "history clear and GC's deliberate removal of whole files are outside the property (C14 covers the latter)",
        "the JSON pull path only reads history files and is not an operation of this check",
    ]


def replay(run, path):
    with open(path) as f:
        d = json.load(f)
    case = d.get("case", d)
    _setup(run.scratch)
    try:
        f = check_case(case, tolerate=False)
    finally:
        _drop_tmpdirs()
    if f is None:
        print("replay: property holds on this case")
        return 0
    print("VIOLATION property=%s replay=%s kind=%s %s" % (PROP, path, f.kind, common._oneline(f.detail)))
    return 1


if __name__ == "__main__":
    if len(sys.argv) == 3 and sys.argv[1] == "--driver":
        sys.exit(driver_main(sys.argv[2]))
    sys.exit("usage: run.py C13   (this file is only executable as the strace driver)")
